(* ObsExprT.v — proofs about the composite-observable model (C16).
   Discrete part (rejection predicate, shapes, well-formedness): for every number type.
   Numeric part (apply = per-sample arithmetic, statistics): at T := R. *)
From Coq Require Import List ZArith Bool Reals Lra Lia.
From QModel Require Import Num ObsExpr.
From QTheory Require Import RInst.
Import ListNotations.

(* ======================================================================================= *)
(* Part 1 — discrete: which constructions are rejected, and what is built                    *)
(* ======================================================================================= *)
Section Discrete.
  Context {T : Type} (O : NumOps T).

  Definition tag (v : val T) : kind :=
    match v with VScal _ => KScal | VObs _ => KObs | VJunk => KJunk end.

  Lemma kjoin_not_junk k1 k2 : kjoin k1 k2 <> KJunk.
  Proof. destruct k1, k2; discriminate. Qed.

  Lemma is_junk_kind (e : oexpr T) :
    is_junk e = match kind_of e with KJunk => true | _ => false end.
  Proof.
    destruct e; simpl; try reflexivity.
    - destruct (kind_of e); reflexivity.
    - destruct (kind_of e1), (kind_of e2); reflexivity.
    - destruct (kind_of e1), (kind_of e2); reflexivity.
    - destruct (kind_of e1), (kind_of e2); reflexivity.
  Qed.

  Lemma kind_junk_iff (e : oexpr T) : kind_of e = KJunk <-> e = Junk.
  Proof.
    split; [|intros ->; reflexivity].
    destruct e; simpl; try discriminate; try reflexivity.
    - destruct (kind_of e); discriminate.
    - intros H; destruct (kjoin_not_junk _ _ H).
    - intros H; destruct (kjoin_not_junk _ _ H).
    - intros H; destruct (kjoin_not_junk _ _ H).
  Qed.

  (* the one-step specification of build: either it fails and the predicate holds, or it
     succeeds, the predicate does not hold, and the value has the syntactic kind *)
  Lemma build_spec (e : oexpr T) :
    match build O e with
    | Ok v => rejects e = false /\ tag v = kind_of e
    | Err _ => rejects e = true
    end.
  Proof.
    induction e as [i|q| |a IHa|a IHa b IHb|a IHa b IHb|a IHa b IHb]; simpl.
    - split; reflexivity.
    - split; reflexivity.
    - split; reflexivity.
    - destruct (build O a) as [x|k]; simpl.
      + destruct IHa as [Ra Ka]. rewrite is_junk_kind, Ra, <- Ka.
        destruct x; simpl; auto.
      + rewrite IHa. apply orb_true_r.
    - destruct (build O a) as [x|k]; simpl.
      + destruct IHa as [Ra Ka]. destruct (build O b) as [y|k]; simpl.
        * destruct IHb as [Rb Kb]. rewrite !is_junk_kind, Ra, Rb, <- Ka, <- Kb.
          destruct x, y; simpl; auto.
        * rewrite IHb. rewrite !orb_true_r. reflexivity.
      + rewrite IHa. rewrite !orb_true_r. reflexivity.
    - destruct (build O a) as [x|k]; simpl.
      + destruct IHa as [Ra Ka]. destruct (build O b) as [y|k]; simpl.
        * destruct IHb as [Rb Kb]. rewrite !is_junk_kind, Ra, Rb, <- Ka, <- Kb.
          destruct x, y; simpl; auto.
        * rewrite IHb. rewrite !orb_true_r. reflexivity.
      + rewrite IHa. rewrite !orb_true_r. reflexivity.
    - destruct (build O a) as [x|k]; simpl.
      + destruct IHa as [Ra Ka]. destruct (build O b) as [y|k]; simpl.
        * destruct IHb as [Rb Kb]. unfold is_obs_kind.
          rewrite !is_junk_kind, Ra, Rb, <- Ka, <- Kb.
          destruct x, y; simpl; auto.
        * rewrite IHb. rewrite !orb_true_r. reflexivity.
      + rewrite IHa. rewrite !orb_true_r. reflexivity.
  Qed.

  Theorem build_rejects_iff (e : oexpr T) :
    (exists k, build O e = Err k) <-> rejects e = true.
  Proof.
    pose proof (build_spec e) as H. destruct (build O e) as [v|k].
    - destruct H as [H _]. split; [intros [k Hk]; discriminate | intros H'; congruence].
    - split; [intros _; exact H | intros _; exists k; reflexivity].
  Qed.

  Theorem build_accepts_iff (e : oexpr T) :
    (exists v, build O e = Ok v /\ tag v = kind_of e) <-> rejects e = false.
  Proof.
    pose proof (build_spec e) as H. destruct (build O e) as [v|k].
    - destruct H as [H1 H2]. split; [intros _; exact H1 | intros _; exists v; split; [reflexivity | exact H2]].
    - split; [intros [v [Hv _]]; discriminate | intros H'; congruence].
  Qed.

  (* ---- the same predicate stated with sub-expressions (no recursion in the statement) *)
  Inductive subexpr : oexpr T -> oexpr T -> Prop :=
  | sub_refl e : subexpr e e
  | sub_neg s a : subexpr s a -> subexpr s (Neg a)
  | sub_add_l s a b : subexpr s a -> subexpr s (Add a b)
  | sub_add_r s a b : subexpr s b -> subexpr s (Add a b)
  | sub_sub_l s a b : subexpr s a -> subexpr s (Sub a b)
  | sub_sub_r s a b : subexpr s b -> subexpr s (Sub a b)
  | sub_mul_l s a b : subexpr s a -> subexpr s (Mul a b)
  | sub_mul_r s a b : subexpr s b -> subexpr s (Mul a b).

  (* an offending node: an operator with a non-numeric operand, or a product of two
     sub-expressions that both contain an observable leaf *)
  Inductive offending : oexpr T -> Prop :=
  | off_neg : offending (Neg Junk)
  | off_add_l b : offending (Add Junk b)
  | off_add_r a : offending (Add a Junk)
  | off_sub_l b : offending (Sub Junk b)
  | off_sub_r a : offending (Sub a Junk)
  | off_mul_l b : offending (Mul Junk b)
  | off_mul_r a : offending (Mul a Junk)
  | off_mul_obs a b : has_leaf a = true -> has_leaf b = true -> offending (Mul a b).

  Lemma is_junk_true (e : oexpr T) : is_junk e = true -> e = Junk.
  Proof. destruct e; simpl; congruence. Qed.

  Lemma is_obs_kind_has_leaf (e : oexpr T) : is_obs_kind e = has_leaf e.
  Proof.
    unfold is_obs_kind.
    induction e as [i|q| |a IHa|a IHa b IHb|a IHa b IHb|a IHa b IHb]; simpl; try reflexivity.
    - rewrite <- IHa. destruct (kind_of a); reflexivity.
    - rewrite <- IHa, <- IHb. destruct (kind_of a), (kind_of b); reflexivity.
    - rewrite <- IHa, <- IHb. destruct (kind_of a), (kind_of b); reflexivity.
    - rewrite <- IHa, <- IHb. destruct (kind_of a), (kind_of b); reflexivity.
  Qed.

  Lemma rejects_offending (e : oexpr T) :
    rejects e = true <-> exists s, subexpr s e /\ offending s.
  Proof.
    split.
    - induction e as [i|q| |a IHa|a IHa b IHb|a IHa b IHb|a IHa b IHb]; simpl; try discriminate.
      + intros H. apply orb_true_iff in H as [H|H].
        * apply is_junk_true in H; subst. exists (Neg Junk); split; constructor.
        * destruct (IHa H) as [s [S1 S2]]. exists s; split; [constructor; exact S1 | exact S2].
      + intros H. repeat (apply orb_true_iff in H as [H|H]).
        * apply is_junk_true in H; subst. exists (Add Junk b); split; constructor.
        * apply is_junk_true in H; subst. exists (Add a Junk); split; constructor.
        * destruct (IHa H) as [s [S1 S2]]. exists s; split; [apply sub_add_l; exact S1 | exact S2].
        * destruct (IHb H) as [s [S1 S2]]. exists s; split; [apply sub_add_r; exact S1 | exact S2].
      + intros H. repeat (apply orb_true_iff in H as [H|H]).
        * apply is_junk_true in H; subst. exists (Sub Junk b); split; constructor.
        * apply is_junk_true in H; subst. exists (Sub a Junk); split; constructor.
        * destruct (IHa H) as [s [S1 S2]]. exists s; split; [apply sub_sub_l; exact S1 | exact S2].
        * destruct (IHb H) as [s [S1 S2]]. exists s; split; [apply sub_sub_r; exact S1 | exact S2].
      + intros H. repeat (apply orb_true_iff in H as [H|H]).
        * apply is_junk_true in H; subst. exists (Mul Junk b); split; constructor.
        * apply is_junk_true in H; subst. exists (Mul a Junk); split; constructor.
        * destruct (IHa H) as [s [S1 S2]]. exists s; split; [apply sub_mul_l; exact S1 | exact S2].
        * destruct (IHb H) as [s [S1 S2]]. exists s; split; [apply sub_mul_r; exact S1 | exact S2].
        * apply andb_true_iff in H as [H1 H2]. rewrite is_obs_kind_has_leaf in H1, H2.
          exists (Mul a b); split; [constructor | constructor; assumption].
    - intros [s [S1 S2]].
      assert (Hoff : rejects s = true).
      { destruct S2; simpl; try reflexivity; rewrite ?orb_true_r; try reflexivity.
        rewrite !is_obs_kind_has_leaf, H, H0. rewrite !orb_true_r. reflexivity. }
      induction S1; simpl; try exact Hoff; rewrite (IHS1 S2 Hoff); rewrite ?orb_true_r; reflexivity.
  Qed.

  Theorem build_rejects_exactly (e : oexpr T) :
    (exists k, build O e = Err k) <-> exists s, subexpr s e /\ offending s.
  Proof. rewrite build_rejects_iff. apply rejects_offending. Qed.

  (* ---- what the operators build (shapes) *)
  Lemma shape_neg i : build O (Neg (Leaf i)) = Ok (VObs (ProdO (minus_one O) (Prim i))).
  Proof. reflexivity. Qed.
  Lemma shape_sub_obs i j :
    build O (Sub (Leaf i) (Leaf j)) = Ok (VObs (SumO (Obs (Prim i)) (Obs (ProdO (minus_one O) (Prim j))))).
  Proof. reflexivity. Qed.
  Lemma shape_sub_scal i q :
    build O (Sub (Leaf i) (Const q)) = Ok (VObs (SumO (Obs (Prim i)) (Scal (nopp O q)))).
  Proof. reflexivity. Qed.
  Lemma shape_rsub i q :
    build O (Sub (Const q) (Leaf i)) = Ok (VObs (SumO (Scal q) (Obs (ProdO (minus_one O) (Prim i))))).
  Proof. reflexivity. Qed.
  Lemma shape_mul_either i q :
    build O (Mul (Leaf i) (Const q)) = Ok (VObs (ProdO q (Prim i))) /\
    build O (Mul (Const q) (Leaf i)) = Ok (VObs (ProdO q (Prim i))).
  Proof. split; reflexivity. Qed.
  Lemma shape_add_sides i q :
    build O (Add (Leaf i) (Const q)) = Ok (VObs (SumO (Obs (Prim i)) (Scal q))) /\
    build O (Add (Const q) (Leaf i)) = Ok (VObs (SumO (Scal q) (Obs (Prim i)))).
  Proof. split; reflexivity. Qed.
  Lemma kind_obs_obs_product i j : build O (Mul (Leaf i) (Leaf j)) = Err EValueError.
  Proof. reflexivity. Qed.
  Lemma kind_junk_operand i :
    build O (Add (Leaf i) Junk) = Err ETypeError /\ build O (Mul Junk (Leaf i)) = Err ETypeError /\
    build O (Sub (Leaf i) Junk) = Err ETypeError /\ build O (Sub Junk (Leaf i)) = Err ETypeError.
  Proof. repeat split; reflexivity. Qed.

  (* ---- every built object is well formed (a SumObservable always has an observable operand,
          so its apply returns a tensor) *)
  Lemma build_wf (e : oexpr T) o : build O e = Ok (VObs o) -> wf_obs o = true.
  Proof.
    revert o.
    induction e as [i|q| |a IHa|a IHa b IHb|a IHa b IHb|a IHa b IHb]; simpl; intros o H.
    - injection H as <-; reflexivity.
    - discriminate.
    - discriminate.
    - destruct (build O a) as [x|k]; simpl in H; [|discriminate].
      destruct x as [p|oa|]; simpl in H; try discriminate.
      injection H as <-. simpl. apply IHa; reflexivity.
    - destruct (build O a) as [x|k]; simpl in H; [|discriminate].
      destruct (build O b) as [y|k]; simpl in H; [|discriminate].
      destruct x as [p|oa|], y as [q|ob|]; simpl in H; try discriminate; injection H as <-; simpl;
        rewrite ?(IHa _ eq_refl), ?(IHb _ eq_refl); reflexivity.
    - destruct (build O a) as [x|k]; simpl in H; [|discriminate].
      destruct (build O b) as [y|k]; simpl in H; [|discriminate].
      destruct x as [p|oa|], y as [q|ob|]; simpl in H; try discriminate; injection H as <-; simpl;
        rewrite ?(IHa _ eq_refl), ?(IHb _ eq_refl); reflexivity.
    - destruct (build O a) as [x|k]; simpl in H; [|discriminate].
      destruct (build O b) as [y|k]; simpl in H; [|discriminate].
      destruct x as [p|oa|], y as [q|ob|]; simpl in H; try discriminate; injection H as <-; simpl;
        rewrite ?(IHa _ eq_refl), ?(IHb _ eq_refl); reflexivity.
  Qed.

End Discrete.

(* ---- induction principle over built objects (obs / operand are mutually inductive) *)
Scheme obs_mut_ind := Induction for obs Sort Prop
  with operand_mut_ind := Induction for operand Sort Prop.

Section WfApply.
  Context {T : Type} (O : NumOps T).

  Lemma badd_batch_r (x : bval T) v : exists w, badd O x (BV v) = BV w.
  Proof. destruct x; simpl; eexists; reflexivity. Qed.
  Lemma badd_batch_l (y : bval T) v : exists w, badd O (BV v) y = BV w.
  Proof. destruct y; simpl; eexists; reflexivity. Qed.

  (* a well-formed object always evaluates to a batch (a tensor), never to a bare float *)
  Lemma wf_apply_is_batch (o : obs T) rho : wf_obs o = true -> exists v, apply O o rho = BV v.
  Proof.
    induction o as [i|l IHl r IHr|c a IHa|q|a IHa]
      using obs_mut_ind
      with (P0 := fun p => match p with
                           | Scal _ => True
                           | Obs a => wf_obs a = true -> exists v, apply O a rho = BV v end).
    - intros _; eexists; reflexivity.
    - destruct l as [p|a], r as [q|b]; simpl; intros H; try discriminate.
      + destruct (IHr H) as [v ->]. simpl. eexists; reflexivity.
      + rewrite andb_true_r in H. destruct (IHl H) as [v ->]. simpl. eexists; reflexivity.
      + apply andb_true_iff in H as [H1 H2].
        destruct (IHr H2) as [v ->]. destruct (apply O a rho); simpl; eexists; reflexivity.
    - simpl; intros H. destruct (IHa H) as [v ->]. eexists; reflexivity.
    - exact I.
    - exact IHa.
  Qed.
End WfApply.

(* ======================================================================================= *)
(* Part 2 — numeric, at T := R                                                              *)
(* ======================================================================================= *)
Open Scope R_scope.

Lemma list_as_map_nth {A} (d : A) (l : list A) :
  l = map (fun k => nth k l d) (seq 0 (length l)).
Proof.
  induction l as [|x l IH]; simpl; [reflexivity|].
  f_equal. rewrite <- seq_shift, map_map. exact IH.
Qed.

Lemma vadd_map_map {A} (f g : A -> R) (l : list A) :
  vadd ROps (map f l) (map g l) = map (fun k => f k + g k) l.
Proof. unfold vadd. induction l as [|a l IH]; simpl in *; [reflexivity | f_equal; exact IH]. Qed.

Lemma minus_one_R : minus_one ROps = -1.
Proof. reflexivity. Qed.

Section Sem.
  Variable rho : nat -> list R.
  Variable n : nat.
  Hypothesis Hlen : forall i, length (rho i) = n.

  Lemma prim_pointwise i : rho i = pointwise ROps (Leaf i) rho n.
  Proof.
    unfold pointwise, env_at; simpl. rewrite <- (Hlen i). apply list_as_map_nth.
  Qed.

  Definition sem_ok (e : oexpr R) (v : val R) : Prop :=
    match v with
    | VScal q => forall env, evalpt ROps e env = q
    | VObs o => apply ROps o rho = BV (pointwise ROps e rho n)
    | VJunk => True
    end.

  Ltac fin :=
    unfold pointwise; simpl; rewrite ?map_map, ?vadd_map_map; f_equal;
    apply map_ext; intros; simpl; rewrite ?minus_one_R; try lra.

  Lemma build_sem (e : oexpr R) : forall v, build ROps e = Ok v -> sem_ok e v.
  Proof.
    induction e as [i|q| |a IHa|a IHa b IHb|a IHa b IHb|a IHa b IHb]; simpl; intros v H.
    - injection H as <-. simpl. f_equal. apply prim_pointwise.
    - injection H as <-. simpl. reflexivity.
    - injection H as <-. exact I.
    - destruct (build ROps a) as [x|k]; simpl in H; [|discriminate].
      specialize (IHa x eq_refl).
      destruct x as [p|oa|]; simpl in H; try discriminate; injection H as <-; simpl in *.
      + intros env; rewrite IHa; reflexivity.
      + rewrite IHa. fin.
    - destruct (build ROps a) as [x|k]; simpl in H; [|discriminate].
      destruct (build ROps b) as [y|k]; simpl in H; [|discriminate].
      specialize (IHa x eq_refl); specialize (IHb y eq_refl).
      destruct x as [p|oa|], y as [q|ob|]; simpl in H; try discriminate; injection H as <-; simpl in *.
      + intros env; rewrite IHa, IHb; reflexivity.
      + rewrite IHb. fin. rewrite IHa. lra.
      + rewrite IHa. fin. rewrite IHb. lra.
      + rewrite IHa, IHb. fin.
    - destruct (build ROps a) as [x|k]; simpl in H; [|discriminate].
      destruct (build ROps b) as [y|k]; simpl in H; [|discriminate].
      specialize (IHa x eq_refl); specialize (IHb y eq_refl).
      destruct x as [p|oa|], y as [q|ob|]; simpl in H; try discriminate; injection H as <-; simpl in *.
      + intros env; rewrite IHa, IHb; reflexivity.
      + rewrite IHb. fin. rewrite IHa. lra.
      + rewrite IHa. fin. rewrite IHb. lra.
      + rewrite IHa, IHb. fin.
    - destruct (build ROps a) as [x|k]; simpl in H; [|discriminate].
      destruct (build ROps b) as [y|k]; simpl in H; [|discriminate].
      specialize (IHa x eq_refl); specialize (IHb y eq_refl).
      destruct x as [p|oa|], y as [q|ob|]; simpl in H; try discriminate; injection H as <-; simpl in *.
      + intros env; rewrite IHa, IHb; reflexivity.
      + rewrite IHb. fin. rewrite IHa. reflexivity.
      + rewrite IHa. fin. rewrite IHb. apply Rmult_comm.
  Qed.

  Theorem build_apply_is_eval (e : oexpr R) (o : obs R) :
    build ROps e = Ok (VObs o) -> apply ROps o rho = BV (pointwise ROps e rho n).
  Proof. intros H. exact (build_sem e _ H). Qed.

  Theorem build_scalar_is_eval (e : oexpr R) (q : R) :
    build ROps e = Ok (VScal q) -> forall env, evalpt ROps e env = q.
  Proof. intros H. exact (build_sem e _ H). Qed.

  Theorem statistics_of_composite (e : oexpr R) (o : obs R) :
    build ROps e = Ok (VObs o) ->
    statistics_from_samples ROps o rho = Some (stats_of ROps (pointwise ROps e rho n)).
  Proof. intros H. unfold statistics_from_samples. rewrite (build_apply_is_eval e o H). reflexivity. Qed.
End Sem.

(* ---- statistics: the model's summary is the textbook one-pass summary of the values *)
Lemma nofnat_R k : nofnat ROps k = INR k.
Proof. unfold nofnat; simpl. symmetry; apply INR_IZR_INZ. Qed.

Lemma sum_const {A} (c : R) (l : list A) : sum ROps (map (fun _ => c) l) = INR (length l) * c.
Proof.
  induction l as [|a l IH]; [simpl; lra|].
  change (length (a :: l)) with (S (length l)). rewrite S_INR. simpl in *. rewrite IH. lra.
Qed.

Lemma ssq_shift (c : R) (xs : list R) :
  sum ROps (map (fun x => sqr ROps (x - c)) xs)
  = sum ROps (map (fun x => x * x) xs) - 2 * c * sum ROps xs + INR (length xs) * (c * c).
Proof.
  induction xs as [|x xs IH]; [simpl; lra|].
  change (length (x :: xs)) with (S (length xs)). rewrite S_INR.
  simpl in *. rewrite IH. unfold sqr; simpl. lra.
Qed.

Lemma stats_of_R (xs : list R) :
  stats_of ROps xs =
  let n := length xs in
  let m := sum ROps xs / INR n in
  let v := sum ROps (map (fun x => sqr ROps (x - m)) xs) / INR (n - 1) in
  mkStats m v (sqrt (v / INR n)) n.
Proof. unfold stats_of. rewrite !nofnat_R. reflexivity. Qed.

Theorem stats_of_textbook (xs : list R) :
  (2 <= length xs)%nat ->
  let n := INR (length xs) in
  let s := stats_of ROps xs in
  st_n s = length xs /\
  st_mean s = sum ROps xs / n /\
  st_var s = (sum ROps (map (fun x => x * x) xs) - n * (st_mean s * st_mean s)) / (n - 1) /\
  st_err s = sqrt (st_var s / n).
Proof.
  intros Hn n s.
  assert (Hn2 : 2 <= n) by (unfold n; change 2 with (INR 2); apply le_INR; exact Hn).
  unfold s. rewrite stats_of_R. cbv zeta. cbn [st_n st_mean st_var st_err].
  repeat split.
  rewrite minus_INR by lia. change (INR 1) with 1. fold n.
  rewrite (ssq_shift (sum ROps xs / n) xs). fold n. field. lra.
Qed.

(* the mean of an accepted composite is the same arithmetic applied to the means of its leaves *)
Section MeanLinear.
  Variable rho : nat -> list R.
  Variable n : nat.
  Hypothesis Hlen : forall i, length (rho i) = n.
  Hypothesis Hn : (1 <= n)%nat.

  Definition leaf_means : nat -> R := fun i => sum ROps (rho i) / INR n.

  Lemma sum_pointwise (e : oexpr R) v :
    build ROps e = Ok v -> v <> VJunk ->
    sum ROps (pointwise ROps e rho n) = INR n * evalpt ROps e leaf_means.
  Proof.
    assert (Hn0 : INR n <> 0) by (apply not_0_INR; lia).
    revert v.
    induction e as [i|q| |a IHa|a IHa b IHb|a IHa b IHb|a IHa b IHb]; simpl; intros v H Hv.
    - rewrite <- (prim_pointwise rho n Hlen i). unfold leaf_means. field. exact Hn0.
    - unfold pointwise; simpl. rewrite sum_const, seq_length. reflexivity.
    - injection H as <-. congruence.
    - destruct (build ROps a) as [x|k] eqn:Ea; simpl in H; [|discriminate].
      assert (Hx : x <> VJunk) by (intros ->; simpl in H; discriminate).
      specialize (IHa x eq_refl Hx).
      unfold pointwise in *; simpl.
      replace (map (fun k => - evalpt ROps a (env_at ROps rho k)) (seq 0 n))
        with (map (fun k => (-1) * evalpt ROps a (env_at ROps rho k)) (seq 0 n))
        by (apply map_ext; intros; lra).
      rewrite sum_map_scal, IHa. lra.
    - destruct (build ROps a) as [x|k] eqn:Ea; simpl in H; [|discriminate].
      destruct (build ROps b) as [y|k] eqn:Eb; simpl in H; [|discriminate].
      assert (Hx : x <> VJunk) by (intros ->; destruct y; simpl in H; discriminate).
      assert (Hy : y <> VJunk) by (intros ->; destruct x; simpl in H; discriminate).
      specialize (IHa x eq_refl Hx). specialize (IHb y eq_refl Hy).
      unfold pointwise in *; simpl. rewrite sum_map_plus, IHa, IHb. lra.
    - destruct (build ROps a) as [x|k] eqn:Ea; simpl in H; [|discriminate].
      destruct (build ROps b) as [y|k] eqn:Eb; simpl in H; [|discriminate].
      assert (Hx : x <> VJunk) by (intros ->; destruct y; simpl in H; discriminate).
      assert (Hy : y <> VJunk) by (intros ->; destruct x; simpl in H; discriminate).
      specialize (IHa x eq_refl Hx). specialize (IHb y eq_refl Hy).
      unfold pointwise in *; simpl.
      replace (map (fun k => evalpt ROps a (env_at ROps rho k) - evalpt ROps b (env_at ROps rho k)) (seq 0 n))
        with (map (fun k => evalpt ROps a (env_at ROps rho k) + (-1) * evalpt ROps b (env_at ROps rho k)) (seq 0 n))
        by (apply map_ext; intros; lra).
      rewrite (sum_map_plus (fun k => evalpt ROps a (env_at ROps rho k))
                            (fun k => -1 * evalpt ROps b (env_at ROps rho k))).
      rewrite sum_map_scal, IHa, IHb. lra.
    - destruct (build ROps a) as [x|k] eqn:Ea; simpl in H; [|discriminate].
      destruct (build ROps b) as [y|k] eqn:Eb; simpl in H; [|discriminate].
      assert (Hx : x <> VJunk) by (intros ->; destruct y; simpl in H; discriminate).
      assert (Hy : y <> VJunk) by (intros ->; destruct x; simpl in H; discriminate).
      specialize (IHa x eq_refl Hx). specialize (IHb y eq_refl Hy).
      pose proof (build_sem rho n Hlen a x Ea) as Sa.
      pose proof (build_sem rho n Hlen b y Eb) as Sb.
      destruct x as [p|oa|], y as [q|ob|]; simpl in H; try discriminate; try congruence; simpl in Sa, Sb.
      + unfold pointwise; simpl.
        rewrite (map_ext _ (fun _ => p * q)) by (intros; rewrite Sa, Sb; reflexivity).
        rewrite sum_const, seq_length, Sa, Sb. reflexivity.
      + unfold pointwise in *; simpl.
        rewrite (map_ext _ (fun k => p * evalpt ROps b (env_at ROps rho k))) by (intros; rewrite Sa; reflexivity).
        rewrite sum_map_scal, IHb, Sa. lra.
      + unfold pointwise in *; simpl.
        rewrite (map_ext _ (fun k => q * evalpt ROps a (env_at ROps rho k))) by (intros; rewrite Sb; lra).
        rewrite sum_map_scal, IHa, Sb. lra.
  Qed.

  Theorem mean_of_composite_is_linear (e : oexpr R) (o : obs R) :
    build ROps e = Ok (VObs o) ->
    exists s, statistics_from_samples ROps o rho = Some s /\
              st_n s = n /\ st_mean s = evalpt ROps e leaf_means.
  Proof.
    intros H. exists (stats_of ROps (pointwise ROps e rho n)). split; [apply (statistics_of_composite rho n Hlen e o H)|].
    assert (L : length (pointwise ROps e rho n) = n) by (unfold pointwise; rewrite map_length, seq_length; reflexivity).
    rewrite stats_of_R. cbv zeta. cbn [st_n st_mean]. rewrite L. split; [reflexivity|].
    rewrite (sum_pointwise e _ H) by discriminate.
    field. apply not_0_INR; lia.
  Qed.
End MeanLinear.

(* ---- non-vacuity: the hypotheses of the theorems above are satisfiable *)
Example hypotheses_satisfiable :
  let e : oexpr R := Sub (Mul (Const 2) (Leaf 0)) (Add (Leaf 1) (Const 3)) in
  let rho : nat -> list R := fun i => match i with O => [1; 2; 4] | _ => [3; 5; 6] end in
  (exists o, build ROps e = Ok (VObs o) /\ wf_obs o = true) /\
  (forall i, length (rho i) = 3%nat) /\ (2 <= 3)%nat /\ rejects e = false /\
  pointwise ROps e rho 3 = [2 * 1 - (3 + 3); 2 * 2 - (5 + 3); 2 * 4 - (6 + 3)].
Proof.
  cbv zeta. split; [eexists; split; reflexivity|].
  split; [intros [|i]; reflexivity|]. split; [lia|]. split; reflexivity.
Qed.

Example rejection_witnesses :
  rejects (Mul (Leaf 0) (Add (Leaf 1) (Const 1) : oexpr R)) = true /\
  rejects (Add (Leaf 0) (Mul (Const 2) Junk : oexpr R)) = true /\
  rejects (Mul (Mul (Const 2) (Const 3)) (Leaf 0 : oexpr R)) = false.
Proof. repeat split; reflexivity. Qed.

(* ---- packaged statements used by props/C16.v *)
Lemma built_objects_apply_to_batches (T : Type) (O : NumOps T) (e : oexpr T) (o : obs T) rho :
  build O e = Ok (VObs o) -> wf_obs o = true /\ exists v, apply O o rho = BV v.
Proof. intros H; split; [exact (build_wf O e o H) | exact (wf_apply_is_batch O o rho (build_wf O e o H))]. Qed.

Lemma operator_shapes (T : Type) (O : NumOps T) (i j : nat) (q : T) :
  build O (Neg (Leaf i)) = Ok (VObs (ProdO (minus_one O) (Prim i))) /\
  build O (Sub (Leaf i) (Leaf j)) = Ok (VObs (SumO (Obs (Prim i)) (Obs (ProdO (minus_one O) (Prim j))))) /\
  build O (Sub (Leaf i) (Const q)) = Ok (VObs (SumO (Obs (Prim i)) (Scal (nopp O q)))) /\
  build O (Sub (Const q) (Leaf i)) = Ok (VObs (SumO (Scal q) (Obs (ProdO (minus_one O) (Prim i))))) /\
  build O (Mul (Leaf i) (Const q)) = Ok (VObs (ProdO q (Prim i))) /\
  build O (Mul (Const q) (Leaf i)) = Ok (VObs (ProdO q (Prim i))) /\
  build O (Add (Leaf i) (Const q)) = Ok (VObs (SumO (Obs (Prim i)) (Scal q))) /\
  build O (Add (Const q) (Leaf i)) = Ok (VObs (SumO (Scal q) (Obs (Prim i)))) /\
  build O (Mul (Leaf i) (Leaf j)) = Err EValueError /\
  build O (Add (Leaf i) Junk) = Err ETypeError.
Proof. repeat split; reflexivity. Qed.

(* constant folding, stated without the (unused) batch hypotheses of Section Sem *)
Theorem constant_expression_folds (e : oexpr R) (q : R) :
  build ROps e = Ok (VScal q) -> forall env, evalpt ROps e env = q.
Proof.
  intros H. exact (build_scalar_is_eval (fun _ => []) 0 (fun _ => eq_refl) e q H).
Qed.
