(* MetricsR.v — theory of model/Metrics.v at T := R (C10): pure-state fidelity is the
   normalised squared overlap (Cauchy-Schwarz, self, global phase), KL is the mean basis KL,
   Gibbs' inequality, self-KL, NLL is minus the mean log Born probability for any grouping,
   result kinds, and what the mixed-state fidelity hands to its eigenvalue oracle. *)
From Coq Require Import List ZArith Bool Arith Reals Lra Lia Psatz Permutation.
From QModel Require Import Num Bits Rbm States CBase Unitaries Metrics.
From QTheory Require Import RInst SumBits Born.
Import ListNotations.
Open Scope R_scope.

Notation Cx := (R * R)%type (only parsing).
Definition cn2 (z : Cx) : R := fst z * fst z + snd z * snd z.

Lemma cn2_nonneg z : 0 <= cn2 z.
Proof. unfold cn2; nra. Qed.

Lemma cnorm2_R z : cnorm2 ROps z = cn2 z. Proof. reflexivity. Qed.

Lemma abs_sq_R z : abs_sq ROps z = cn2 z.
Proof.
  unfold abs_sq, sqr, cabs. cbn [nmul nsqrt ROps]. rewrite cnorm2_R.
  apply sqrt_sqrt, cn2_nonneg.
Qed.

Lemma nofnat_R n : nofnat ROps n = INR n.
Proof. unfold nofnat; cbn [nofZ ROps]. symmetry; apply INR_IZR_INZ. Qed.

Lemma sum_cn2_nonneg (l : list Cx) : 0 <= sum ROps (map cn2 l).
Proof. apply sum_nonneg; intros x Hx; apply in_map_iff in Hx as [z [<- _]]; apply cn2_nonneg. Qed.

(* ------------------------------------------------------------------ overlap *)
(* <t|psi> = sum_i conj(t_i) psi_i *)
Definition overlap (t psi : list Cx) : Cx :=
  csum ROps (map (fun p => cmul ROps (cconj ROps (fst p)) (snd p)) (combine t psi)).

Lemma inner_prod_cons a t b psi :
  inner_prod ROps (a :: t) (b :: psi) = cadd ROps (cmul ROps (cconj ROps a) b) (inner_prod ROps t psi).
Proof.
  unfold inner_prod, cadd, cmul, cconj; cbn [map dot fst snd nadd nsub nmul nopp ROps].
  apply (f_equal2 pair); ring.
Qed.

Lemma inner_prod_overlap t psi : inner_prod ROps t psi = overlap t psi.
Proof.
  revert psi; induction t as [|a t IH]; intros [|b psi];
    try (unfold inner_prod, overlap; simpl; unfold c0; simpl; apply (f_equal2 pair); lra).
  rewrite inner_prod_cons, IH. reflexivity.
Qed.

Lemma overlap_cons a t b psi :
  overlap (a :: t) (b :: psi) = cadd ROps (cmul ROps (cconj ROps a) b) (overlap t psi).
Proof. reflexivity. Qed.

Definition rdiv (c : R) (z : Cx) : Cx := cdivr ROps z c.

Lemma overlap_scale_r t psi c : overlap t (map (rdiv c) psi) = rdiv c (overlap t psi).
Proof.
  revert psi; induction t as [|a t IH]; intros [|b psi]; cbn [map];
    try (unfold overlap, rdiv, cdivr; simpl; unfold c0; simpl; apply (f_equal2 pair); unfold Rdiv; ring).
  rewrite !overlap_cons, IH. destruct (overlap t psi) as [x y], a as [a1 a2], b as [b1 b2].
  unfold rdiv, cdivr, cadd, cmul, cconj; cbn [fst snd nadd nsub nmul nopp ndiv ROps].
  apply (f_equal2 pair); unfold Rdiv; ring.
Qed.

Lemma overlap_scale_l t psi c : overlap (map (rdiv c) t) psi = rdiv c (overlap t psi).
Proof.
  revert psi; induction t as [|a t IH]; intros [|b psi]; cbn [map];
    try (unfold overlap, rdiv, cdivr; simpl; unfold c0; simpl; apply (f_equal2 pair); unfold Rdiv; ring).
  rewrite !overlap_cons, IH. destruct (overlap t psi) as [x y], a as [a1 a2], b as [b1 b2].
  unfold rdiv, cdivr, cadd, cmul, cconj; cbn [fst snd nadd nsub nmul nopp ndiv ROps].
  apply (f_equal2 pair); unfold Rdiv; ring.
Qed.

Lemma overlap_phase_l w t psi :
  overlap (map (cmul ROps w) t) psi = cmul ROps (cconj ROps w) (overlap t psi).
Proof.
  revert psi; induction t as [|a t IH]; intros [|b psi]; cbn [map];
    try (unfold overlap, cmul, cconj; simpl; unfold c0; simpl; apply (f_equal2 pair); ring).
  rewrite !overlap_cons, IH. destruct (overlap t psi) as [x y], a as [a1 a2], b as [b1 b2], w as [w1 w2].
  unfold cadd, cmul, cconj; cbn [fst snd nadd nsub nmul nopp ROps].
  apply (f_equal2 pair); ring.
Qed.

Lemma overlap_self psi : overlap psi psi = (sum ROps (map cn2 psi), 0).
Proof.
  induction psi as [|[a1 a2] psi IH]; [reflexivity|].
  rewrite overlap_cons, IH. unfold cadd, cmul, cconj, cn2; cbn [map sum fst snd nadd nsub nmul nopp ROps].
  apply (f_equal2 pair); ring.
Qed.

Lemma cn2_rdiv c z : c <> 0 -> cn2 (rdiv c z) = cn2 z / (c * c).
Proof. intros Hc. unfold cn2, rdiv, cdivr; cbn [fst snd ndiv ROps]. field. exact Hc. Qed.

(* ------------------------------------------------------------------ fidelity, pure states *)
Lemma fidelity_pure_value t psi Z :
  fst (fidelity_pure ROps t psi Z) = cn2 (rdiv (sqrt Z) (overlap t psi)).
Proof.
  unfold fidelity_pure; cbn [fst]. rewrite abs_sq_R, inner_prod_overlap.
  change (map (fun z => cdivr ROps z (nsqrt ROps Z)) psi) with (map (rdiv (sqrt Z)) psi).
  rewrite overlap_scale_r. reflexivity.
Qed.

(* 1a. fidelity = |<t|psi>|^2 / Z *)
Lemma fidelity_pure_is_overlap t psi Z :
  0 < Z -> fst (fidelity_pure ROps t psi Z) = cn2 (overlap t psi) / Z.
Proof.
  intros HZ. rewrite fidelity_pure_value, cn2_rdiv.
  - rewrite sqrt_sqrt by lra. reflexivity.
  - pose proof (sqrt_lt_R0 Z HZ); lra.
Qed.

(* finite Cauchy-Schwarz for complex lists *)
Lemma cauchy_schwarz (t psi : list Cx) :
  cn2 (overlap t psi) <= sum ROps (map cn2 t) * sum ROps (map cn2 psi).
Proof.
  revert psi; induction t as [|[a1 a2] t IH]; intros [|[b1 b2] psi].
  - unfold overlap, cn2; cbn. lra.
  - unfold overlap, cn2; cbn [combine map csum c0 fst snd n0 ROps sum]. lra.
  - unfold overlap, cn2 at 1; cbn [combine map csum c0 fst snd n0 ROps sum].
    pose proof (sum_cn2_nonneg ((a1, a2) :: t)). cbn [map] in H. nra.
  - rewrite overlap_cons. specialize (IH psi).
    pose proof (sum_cn2_nonneg t) as HA. pose proof (sum_cn2_nonneg psi) as HB.
    destruct (overlap t psi) as [x y].
    cbn [map sum nadd ROps].
    set (A := sum ROps (map cn2 t)) in *. set (B := sum ROps (map cn2 psi)) in *.
    unfold cadd, cmul, cconj, cn2 in *; cbn [fst snd nadd nsub nmul nopp ROps] in *.
    set (c1 := a1 * b1 - - a2 * b2). set (c2 := a1 * b2 + - a2 * b1).
    set (na := a1 * a1 + a2 * a2) in *. set (nb := b1 * b1 + b2 * b2) in *.
    assert (Hc : c1 * c1 + c2 * c2 = na * nb) by (unfold c1, c2, na, nb; ring).
    assert (Hna : 0 <= na) by (unfold na; nra). assert (Hnb : 0 <= nb) by (unfold nb; nra).
    clearbody c1 c2 na nb.
    set (u := x * c1 + y * c2).
    assert (Hu : u * u <= (x * x + y * y) * (c1 * c1 + c2 * c2)).
    { unfold u. pose proof (Rle_0_sqr (x * c2 - y * c1)) as Hsq. unfold Rsqr in Hsq.
      replace ((x * x + y * y) * (c1 * c1 + c2 * c2))
        with ((x * c1 + y * c2) * (x * c1 + y * c2) + (x * c2 - y * c1) * (x * c2 - y * c1)) by ring. lra. }
    replace ((c1 + x) * (c1 + x) + (c2 + y) * (c2 + y))
      with ((x * x + y * y) + 2 * u + (c1 * c1 + c2 * c2)) by (unfold u; ring).
    clearbody u. rewrite Hc in *.
    set (P := A * nb). set (Q := B * na).
    assert (HP : 0 <= P) by (unfold P; apply Rmult_le_pos; assumption).
    assert (HQ : 0 <= Q) by (unfold Q; apply Rmult_le_pos; assumption).
    assert (HPQ : u * u <= P * Q).
    { assert (Hm : (x * x + y * y) * (na * nb) <= (A * B) * (na * nb))
        by (apply Rmult_le_compat_r; [apply Rmult_le_pos; assumption | exact IH]).
      unfold P, Q. replace (A * nb * (B * na)) with (A * B * (na * nb)) by ring. lra. }
    assert (H2u : 2 * u <= P + Q).
    { destruct (Rle_dec (2 * u) (P + Q)) as [|Hn]; [assumption|]. exfalso.
      assert (Hlt : P + Q < 2 * u) by lra.
      assert (Hsq : (P + Q) * (P + Q) < (2 * u) * (2 * u)) by (apply Rmult_le_0_lt_compat; lra).
      pose proof (Rle_0_sqr (P - Q)) as Hd. unfold Rsqr in Hd.
      assert ((P + Q) * (P + Q) = (P - Q) * (P - Q) + 4 * (P * Q)) by ring. lra. }
    unfold P, Q in H2u.
    replace ((na + A) * (nb + B)) with (na * nb + (A * nb + B * na) + A * B) by ring. lra.
Qed.

(* 1b. in [0,1] when ||t|| = 1 and Z = ||psi||^2 *)
Lemma fidelity_pure_in_unit_interval t psi Z :
  sum ROps (map cn2 t) = 1 -> sum ROps (map cn2 psi) = Z -> 0 < Z ->
  0 <= fst (fidelity_pure ROps t psi Z) <= 1.
Proof.
  intros Ht Hp HZ. rewrite fidelity_pure_is_overlap by exact HZ.
  pose proof (cauchy_schwarz t psi) as H. rewrite Ht, Hp in H.
  pose proof (cn2_nonneg (overlap t psi)) as H0.
  split.
  - apply Rmult_le_pos; [exact H0 | left; apply Rinv_0_lt_compat; exact HZ].
  - apply (Rmult_le_reg_r Z); [exact HZ|]. unfold Rdiv. rewrite Rmult_assoc, Rinv_l by lra. lra.
Qed.

(* 1c. fidelity with the state's own normalised vector is 1 *)
Lemma fidelity_pure_self psi Z :
  sum ROps (map cn2 psi) = Z -> 0 < Z ->
  fst (fidelity_pure ROps (map (rdiv (sqrt Z)) psi) psi Z) = 1.
Proof.
  intros Hp HZ. rewrite fidelity_pure_is_overlap by exact HZ.
  rewrite overlap_scale_l, overlap_self, Hp.
  assert (Hs : sqrt Z <> 0) by (pose proof (sqrt_lt_R0 Z HZ); lra).
  rewrite cn2_rdiv by exact Hs. rewrite sqrt_sqrt by lra.
  unfold cn2; cbn [fst snd]. field. lra.
Qed.

(* 1d. a global phase of the target does not change the fidelity *)
Lemma fidelity_pure_global_phase_invariant theta t psi Z :
  fidelity_pure ROps (map (cmul ROps (cexp_i ROps theta)) t) psi Z = fidelity_pure ROps t psi Z.
Proof.
  apply (f_equal2 pair); [|reflexivity].
  change (fst (fidelity_pure ROps (map (cmul ROps (cexp_i ROps theta)) t) psi Z) = fst (fidelity_pure ROps t psi Z)).
  rewrite !fidelity_pure_value, overlap_phase_l.
  destruct (overlap t psi) as [x y].
  unfold cn2, rdiv, cdivr, cmul, cconj, cexp_i; cbn [fst snd nadd nsub nmul nopp ndiv ncos nsin ROps].
  pose proof (sin2_cos2 theta) as Hsc. unfold Rsqr in Hsc.
  unfold Rdiv.
  replace ((cos theta * x - - sin theta * y) * / sqrt Z * ((cos theta * x - - sin theta * y) * / sqrt Z) +
           (cos theta * y + - sin theta * x) * / sqrt Z * ((cos theta * y + - sin theta * x) * / sqrt Z))
    with ((sin theta * sin theta + cos theta * cos theta) * (x * / sqrt Z * (x * / sqrt Z) + y * / sqrt Z * (y * / sqrt Z))) by ring.
  rewrite Hsc. ring.
Qed.

(* the table of a real ComplexWaveFunction / PositiveWaveFunction (C01) meets the hypotheses *)
Lemma sum_map_map {A} (f : A -> Cx) l : sum ROps (map cn2 (map f l)) = sum ROps (map (fun a => cn2 (f a)) l).
Proof. rewrite map_map. reflexivity. Qed.

Lemma cplx_table_norm am ph n :
  sum ROps (map cn2 (map (cplx_psi ROps am ph) (all_bits n))) = normalization ROps am (all_bits n).
Proof.
  rewrite sum_map_map, sum_all_bits, normalization_is_total.
  apply sum_bits_ext; intros s _. exact (cplx_psi_sq am ph s).
Qed.

Lemma pos_table_norm am n :
  sum ROps (map cn2 (map (pos_psi ROps am) (all_bits n))) = normalization ROps am (all_bits n).
Proof.
  rewrite sum_map_map, sum_all_bits, normalization_is_total.
  apply sum_bits_ext; intros s _. exact (pos_psi_sq am s).
Qed.

Lemma fidelity_unit_interval_complex_state am ph n t :
  sum ROps (map cn2 t) = 1 ->
  0 <= fst (fidelity_pure ROps t (map (cplx_psi ROps am ph) (all_bits n)) (normalization ROps am (all_bits n))) <= 1.
Proof.
  intros Ht. apply fidelity_pure_in_unit_interval; [exact Ht | apply cplx_table_norm |].
  exact (proj2 (partition_is_total am n)).
Qed.

Lemma fidelity_unit_interval_positive_state am n t :
  sum ROps (map cn2 t) = 1 ->
  0 <= fst (fidelity_pure ROps t (map (pos_psi ROps am) (all_bits n)) (normalization ROps am (all_bits n))) <= 1.
Proof.
  intros Ht. apply fidelity_pure_in_unit_interval; [exact Ht | apply pos_table_norm |].
  exact (proj2 (partition_is_total am n)).
Qed.

(* ------------------------------------------------------------------ probs_to_logits *)
Definition epsR : R := prob_eps ROps.
Definition in_range (p : R) : Prop := epsR <= p <= 1 - epsR.

Lemma epsR_bounds : 0 < epsR < / 4.
Proof.
  unfold epsR, prob_eps; cbn [ndiv n1 nofZ ROps]. split.
  - apply Rdiv_lt_0_compat; [lra | apply IZR_lt; lia].
  - unfold Rdiv. rewrite Rmult_1_l. apply Rinv_lt_contravar; [|apply (IZR_lt 4); lia].
    apply Rmult_lt_0_compat; [lra | apply IZR_lt; lia].
Qed.

Lemma in_range_pos p : in_range p -> 0 < p.
Proof. intros [H _]. pose proof epsR_bounds. lra. Qed.

Lemma plogit_in_range p : in_range p -> plogit ROps p = ln p.
Proof.
  intros [Hl Hu]. unfold plogit, clamp_prob. cbn [nltb nsub n1 nln ROps]. fold epsR.
  destruct (Rlt_dec p epsR); [lra|]. destruct (Rlt_dec (1 - epsR) p); [lra|]. reflexivity.
Qed.

(* ------------------------------------------------------------------ KL *)
Definition kl_div (t q : list R) : R :=
  sum ROps (map (fun p => fst p * ln (fst p / snd p)) (combine t q)).

Lemma single_basis_KL_cons a t b q :
  single_basis_KL ROps (a :: t) (b :: q) = (a * plogit ROps a - a * plogit ROps b) + single_basis_KL ROps t q.
Proof. unfold single_basis_KL; cbn [map sum dot nadd nsub nmul ROps]. ring. Qed.

Lemma single_basis_KL_nil : single_basis_KL ROps [] [] = 0.
Proof. unfold single_basis_KL; cbn. lra. Qed.

Lemma single_basis_KL_is_kl_div t q :
  length t = length q -> Forall in_range t -> Forall in_range q ->
  single_basis_KL ROps t q = kl_div t q.
Proof.
  revert q; induction t as [|a t IH]; intros [|b q] Hlen Ht Hq; try discriminate.
  - rewrite single_basis_KL_nil. reflexivity.
  - inversion Ht as [|? ? Ha Ht']; inversion Hq as [|? ? Hb Hq']; subst.
    rewrite single_basis_KL_cons, IH by (try assumption; simpl in Hlen; lia).
    unfold kl_div; cbn [combine map sum fst snd nadd ROps].
    rewrite !plogit_in_range by assumption.
    pose proof (in_range_pos a Ha). pose proof (in_range_pos b Hb).
    unfold Rdiv. rewrite ln_mult by (try apply Rinv_0_lt_compat; assumption).
    rewrite ln_Rinv by assumption. ring.
Qed.

Lemma ln_le_minus1 x : 0 < x -> ln x <= x - 1.
Proof.
  intros Hx. pose proof (exp_ineq1_le (ln x)) as H. rewrite exp_ln in H by exact Hx. lra.
Qed.

(* Gibbs' inequality, general form: sum t - sum q <= sum t ln(t/q) for positive lists *)
Lemma gibbs_general t q :
  length t = length q -> Forall (fun x => 0 < x) t -> Forall (fun x => 0 < x) q ->
  sum ROps t - sum ROps q <= kl_div t q.
Proof.
  revert q; induction t as [|a t IH]; intros [|b q] Hlen Ht Hq; try discriminate.
  - unfold kl_div; cbn. lra.
  - inversion Ht as [|? ? Ha Ht']; inversion Hq as [|? ? Hb Hq']; subst.
    assert (IH' : sum ROps t - sum ROps q <= kl_div t q) by (apply IH; try assumption; simpl in Hlen; lia).
    unfold kl_div in *; cbn [combine map sum fst snd nadd ROps].
    assert (Hstep : a - b <= a * ln (a / b)).
    { assert (Hba : 0 < b / a) by (apply Rdiv_lt_0_compat; assumption).
      pose proof (ln_le_minus1 (b / a) Hba) as Hl.
      assert (Hinv : ln (b / a) = - ln (a / b)).
      { unfold Rdiv. rewrite !ln_mult by (try apply Rinv_0_lt_compat; assumption).
        rewrite !ln_Rinv by assumption. ring. }
      rewrite Hinv in Hl.
      assert (Hm : a * (- ln (a / b)) <= a * (b / a - 1)) by (apply Rmult_le_compat_l; lra).
      replace (a * (b / a - 1)) with (b - a) in Hm by (field; lra). lra. }
    lra.
Qed.

Lemma kl_div_nonneg t q :
  length t = length q -> Forall (fun x => 0 < x) t -> Forall (fun x => 0 < x) q ->
  sum ROps t = sum ROps q -> 0 <= kl_div t q.
Proof. intros Hl Ht Hq Hs. pose proof (gibbs_general t q Hl Ht Hq). lra. Qed.

Lemma Forall_in_range_pos l : Forall in_range l -> Forall (fun x => 0 < x) l.
Proof. apply Forall_impl; exact in_range_pos. Qed.

Lemma dot_map_self (f : R -> R) t : dot ROps t (map f t) = sum ROps (map (fun x => x * f x) t).
Proof. induction t as [|a t IH]; [reflexivity|]. cbn [map dot sum nadd nmul ROps]. rewrite IH. reflexivity. Qed.

Lemma single_basis_KL_self t : single_basis_KL ROps t t = 0.
Proof. unfold single_basis_KL. rewrite dot_map_self. cbn [nsub ROps]. apply Rminus_diag_eq. reflexivity. Qed.

(* mean of a list of per-basis values *)
Definition mean_over {A} (f : A -> R) (l : list A) : R := sum ROps (map f l) / INR (length l).

Lemma kl_bases_pure_value user tgt psi Z bases :
  fst (kl_bases_pure ROps user tgt psi Z bases) = mean_over (kl_basis_pure ROps user tgt psi Z) bases.
Proof. unfold kl_bases_pure, mean_over; cbn [fst ndiv ROps]. rewrite nofnat_R. reflexivity. Qed.

Lemma kl_bases_mixed_value user tgt rho Z space bases :
  fst (kl_bases_mixed ROps user tgt rho Z space bases) = mean_over (kl_basis_mixed ROps user tgt rho Z space) bases.
Proof. unfold kl_bases_mixed, mean_over; cbn [fst ndiv ROps]. rewrite nofnat_R. reflexivity. Qed.

Lemma mean_over_ext {A} (f g : A -> R) l : (forall a, In a l -> f a = g a) -> mean_over f l = mean_over g l.
Proof. intros H. unfold mean_over. rewrite (sum_map_ext f g l H). reflexivity. Qed.

Lemma mean_over_nonneg {A} (f : A -> R) l : (forall a, In a l -> 0 <= f a) -> 0 <= mean_over f l.
Proof.
  intros H. unfold mean_over. destruct l as [|a l]; [cbn; lra|].
  apply Rmult_le_pos.
  - apply sum_nonneg. intros x Hx. apply in_map_iff in Hx as [y [<- Hy]]. apply H, Hy.
  - left. apply Rinv_0_lt_compat. apply lt_0_INR. simpl; lia.
Qed.

Lemma mean_over_zero {A} (f : A -> R) l : (forall a, In a l -> f a = 0) -> mean_over f l = 0.
Proof.
  intros H. rewrite (mean_over_ext f (fun _ => 0) l H). unfold mean_over.
  assert (Hs : sum ROps (map (fun _ : A => 0) l) = 0) by (induction l as [|a l IH]; cbn; [reflexivity | rewrite IH by (intros; apply H; right; assumption); lra]).
  rewrite Hs. unfold Rdiv; ring.
Qed.

(* the Born distributions the KL compares, wavefunction path *)
Definition target_dist_pure (tgt : list letter -> list Cx) (b : list letter) : list R := map cn2 (tgt b).
Definition model_dist_pure (user : list (umat (T:=R))) (psi : list Cx) (Z : R) (b : list letter) : list R :=
  map (fun z => cn2 z / Z) (rotate_psi ROps user b psi).
(* ... density-matrix path *)
Definition model_dist_mixed (user : list (umat (T:=R))) (rho : bits -> bits -> Cx) (Z : R) (space : list bits)
           (b : list letter) : list R :=
  map (fun p => p / Z) (rotate_rho_probs ROps user b rho space).

Lemma kl_basis_pure_unfold user tgt psi Z b :
  kl_basis_pure ROps user tgt psi Z b = single_basis_KL ROps (target_dist_pure tgt b) (model_dist_pure user psi Z b).
Proof.
  unfold kl_basis_pure, target_dist_pure, model_dist_pure. f_equal.
  - apply map_ext; intros z; apply abs_sq_R.
  - apply map_ext; intros z. rewrite abs_sq_R. reflexivity.
Qed.

Lemma kl_basis_mixed_unfold user tgt rho Z space b :
  kl_basis_mixed ROps user tgt rho Z space b = single_basis_KL ROps (tgt b) (model_dist_mixed user rho Z space b).
Proof. reflexivity. Qed.

Definition dists_ok (T Q : list R) : Prop := length T = length Q /\ Forall in_range T /\ Forall in_range Q.

(* 2a. KL = mean over the requested bases of the Kullback-Leibler divergence of the two Born distributions *)
Lemma kl_pure_is_mean_of_basis_kl user tgt psi Z bases :
  (forall b, In b bases -> dists_ok (target_dist_pure tgt b) (model_dist_pure user psi Z b)) ->
  fst (kl_bases_pure ROps user tgt psi Z bases) =
  mean_over (fun b => kl_div (target_dist_pure tgt b) (model_dist_pure user psi Z b)) bases.
Proof.
  intros H. rewrite kl_bases_pure_value. apply mean_over_ext; intros b Hb.
  rewrite kl_basis_pure_unfold. destruct (H b Hb) as [Hl [Ht Hq]].
  apply single_basis_KL_is_kl_div; assumption.
Qed.

Lemma kl_mixed_is_mean_of_basis_kl user tgt rho Z space bases :
  (forall b, In b bases -> dists_ok (tgt b) (model_dist_mixed user rho Z space b)) ->
  fst (kl_bases_mixed ROps user tgt rho Z space bases) =
  mean_over (fun b => kl_div (tgt b) (model_dist_mixed user rho Z space b)) bases.
Proof.
  intros H. rewrite kl_bases_mixed_value. apply mean_over_ext; intros b Hb.
  rewrite kl_basis_mixed_unfold. destruct (H b Hb) as [Hl [Ht Hq]].
  apply single_basis_KL_is_kl_div; assumption.
Qed.

(* 2b. non-negativity (Gibbs) when both distributions sum to the same total (1) in every requested basis *)
Lemma kl_pure_nonneg user tgt psi Z bases :
  (forall b, In b bases -> dists_ok (target_dist_pure tgt b) (model_dist_pure user psi Z b)) ->
  (forall b, In b bases -> sum ROps (target_dist_pure tgt b) = 1 /\ sum ROps (model_dist_pure user psi Z b) = 1) ->
  0 <= fst (kl_bases_pure ROps user tgt psi Z bases).
Proof.
  intros H Hs. rewrite kl_pure_is_mean_of_basis_kl by exact H.
  apply mean_over_nonneg; intros b Hb. destruct (H b Hb) as [Hl [Ht Hq]]. destruct (Hs b Hb) as [S1 S2].
  apply kl_div_nonneg; try assumption; try (apply Forall_in_range_pos; assumption). lra.
Qed.

Lemma kl_mixed_nonneg user tgt rho Z space bases :
  (forall b, In b bases -> dists_ok (tgt b) (model_dist_mixed user rho Z space b)) ->
  (forall b, In b bases -> sum ROps (tgt b) = 1 /\ sum ROps (model_dist_mixed user rho Z space b) = 1) ->
  0 <= fst (kl_bases_mixed ROps user tgt rho Z space bases).
Proof.
  intros H Hs. rewrite kl_mixed_is_mean_of_basis_kl by exact H.
  apply mean_over_nonneg; intros b Hb. destruct (H b Hb) as [Hl [Ht Hq]]. destruct (Hs b Hb) as [S1 S2].
  apply kl_div_nonneg; try assumption; try (apply Forall_in_range_pos; assumption). lra.
Qed.

(* bases = None *)
Lemma kl_none_pure_is_kl target pr Z space :
  let T := map cn2 target in let Q := map (fun v => pr v / Z) space in
  dists_ok T Q -> fst (kl_none_pure ROps target pr Z space) = kl_div T Q.
Proof.
  cbv zeta. intros [Hl [Ht Hq]]. unfold kl_none_pure; cbn [fst ndiv ROps].
  rewrite (map_ext (abs_sq ROps) cn2 abs_sq_R). apply single_basis_KL_is_kl_div; assumption.
Qed.

Lemma kl_none_mixed_is_kl target pr Z space :
  let T := diag_real ROps target in let Q := map (fun v => pr v / Z) space in
  dists_ok T Q -> fst (kl_none_mixed ROps target pr Z space) = kl_div T Q.
Proof.
  cbv zeta. intros [Hl [Ht Hq]]. unfold kl_none_mixed; cbn [fst ndiv ROps].
  apply single_basis_KL_is_kl_div; assumption.
Qed.

Lemma kl_none_nonneg_pure target pr Z space :
  let T := map cn2 target in let Q := map (fun v => pr v / Z) space in
  dists_ok T Q -> sum ROps T = 1 -> sum ROps Q = 1 -> 0 <= fst (kl_none_pure ROps target pr Z space).
Proof.
  cbv zeta. intros H S1 S2. rewrite kl_none_pure_is_kl by exact H. destruct H as [Hl [Ht Hq]].
  apply kl_div_nonneg; try assumption; try (apply Forall_in_range_pos; assumption). lra.
Qed.

Lemma kl_none_nonneg_mixed target pr Z space :
  let T := diag_real ROps target in let Q := map (fun v => pr v / Z) space in
  dists_ok T Q -> sum ROps T = 1 -> sum ROps Q = 1 -> 0 <= fst (kl_none_mixed ROps target pr Z space).
Proof.
  cbv zeta. intros H S1 S2. rewrite kl_none_mixed_is_kl by exact H. destruct H as [Hl [Ht Hq]].
  apply kl_div_nonneg; try assumption; try (apply Forall_in_range_pos; assumption). lra.
Qed.

(* 2c. self-KL: whenever the target's distribution coincides with the model's in every requested basis *)
Lemma kl_pure_zero_of_equal_dists user tgt psi Z bases :
  (forall b, In b bases -> target_dist_pure tgt b = model_dist_pure user psi Z b) ->
  fst (kl_bases_pure ROps user tgt psi Z bases) = 0.
Proof.
  intros H. rewrite kl_bases_pure_value. apply mean_over_zero; intros b Hb.
  rewrite kl_basis_pure_unfold, (H b Hb). apply single_basis_KL_self.
Qed.

Lemma kl_mixed_zero_of_equal_dists user tgt rho Z space bases :
  (forall b, In b bases -> tgt b = model_dist_mixed user rho Z space b) ->
  fst (kl_bases_mixed ROps user tgt rho Z space bases) = 0.
Proof.
  intros H. rewrite kl_bases_mixed_value. apply mean_over_zero; intros b Hb.
  rewrite kl_basis_mixed_unfold, (H b Hb). apply single_basis_KL_self.
Qed.

(* -------- self-KL, density matrix: target = rho / Z, rotated by the same fast path -------- *)
Lemma sum_map_div {A} (f : A -> R) c l : sum ROps (map (fun a => f a / c) l) = sum ROps (map f l) / c.
Proof.
  induction l as [|a l IH]; cbn [map sum nadd n0 ROps]; [unfold Rdiv; ring|]. rewrite IH. unfold Rdiv; ring.
Qed.

Lemma rho_prob1_scale user b (rho : bits -> bits -> Cx) Z s :
  rho_prob1 ROps user b (fun v v' => rdiv Z (rho v v')) s = rho_prob1 ROps user b rho s / Z.
Proof.
  unfold rho_prob1. rewrite <- sum_map_div. apply sum_map_ext; intros vi _.
  rewrite <- sum_map_div. apply sum_map_ext; intros vj _.
  destruct (rho vi vj) as [r1 r2].
  destruct (cmul ROps (ut_coeff ROps user b s vi) (cconj ROps (ut_coeff ROps user b s vj))) as [w1 w2].
  unfold rdiv, cdivr, cmul; cbn [fst snd nsub nmul ndiv ROps]. unfold Rdiv; ring.
Qed.

Lemma kl_mixed_self_zero user (rho : bits -> bits -> Cx) Z space bases :
  fst (kl_bases_mixed ROps user (tgt_rotate_rho ROps user (fun v v' => rdiv Z (rho v v')) space) rho Z space bases) = 0.
Proof.
  apply kl_mixed_zero_of_equal_dists; intros b _.
  unfold tgt_rotate_rho, model_dist_mixed, rotate_rho_probs. rewrite map_map.
  apply map_ext; intros s. apply rho_prob1_scale.
Qed.

(* -------- self-KL, bases = None -------- *)
Lemma kl_none_pure_self_zero (psi : bits -> Cx) pr Z space :
  0 < Z -> (forall v, In v space -> pr v = cn2 (psi v)) ->
  fst (kl_none_pure ROps (map (fun v => rdiv (sqrt Z) (psi v)) space) pr Z space) = 0.
Proof.
  intros HZ Hpr. unfold kl_none_pure; cbn [fst].
  replace (map (abs_sq ROps) (map (fun v => rdiv (sqrt Z) (psi v)) space))
    with (map (fun v => ndiv ROps (pr v) Z) space); [apply single_basis_KL_self|].
  rewrite map_map. apply map_ext_in; intros v Hv. rewrite abs_sq_R, cn2_rdiv, sqrt_sqrt, (Hpr v Hv); try lra.
  - reflexivity.
  - pose proof (sqrt_lt_R0 Z HZ); lra.
Qed.

Lemma kl_none_mixed_self_zero target pr Z space :
  diag_real ROps target = map (fun v => pr v / Z) space ->
  fst (kl_none_mixed ROps target pr Z space) = 0.
Proof. intros H. unfold kl_none_mixed; cbn [fst ndiv ROps]. rewrite H. apply single_basis_KL_self. Qed.

(* ------------------------------------------------------------------ NLL *)
Lemma letter_eqb_eq a b : letter_eqb a b = true <-> a = b.
Proof.
  destruct a, b; cbn; split; intros H; try reflexivity; try discriminate.
  - apply Nat.eqb_eq in H; subst; reflexivity.
  - inversion H; subst; apply Nat.eqb_refl.
Qed.

Lemma basis_eqb_eq a b : basis_eqb a b = true <-> a = b.
Proof.
  unfold basis_eqb. revert b; induction a as [|x a IH]; intros [|y b]; cbn; split; intros H;
    try reflexivity; try discriminate.
  - apply andb_true_iff in H as [Hl H]. apply andb_true_iff in H as [Hxy H].
    apply letter_eqb_eq in Hxy; subst. f_equal. apply IH. rewrite Hl. exact H.
  - inversion H; subst. destruct (IH b) as [_ IH2]. specialize (IH2 eq_refl).
    apply andb_true_iff in IH2 as [Hl Hf]. rewrite Hl. cbn.
    rewrite (proj2 (letter_eqb_eq y y) eq_refl). exact Hf.
Qed.

Lemma basis_eqb_refl a : basis_eqb a a = true.
Proof. apply basis_eqb_eq; reflexivity. Qed.

(* what the property calls the Born probability of outcome s in basis b: the rotated amplitude /
   rotated diagonal of Unitaries.v (equal to the dense Kronecker form by C04), divided by Z — for EVERY basis *)
Definition born (user : list (umat (T:=R))) (st : state_tab (T:=R)) (Z : R) (b : list letter) (s : bits) : R :=
  match st with
  | PureTab psi => cn2 (inner_prod1 ROps user b psi s) / Z
  | MixedTab rho => rho_prob1 ROps user b rho s / Z
  end.
(* the computational-basis probability the state reports *)
Definition diag_prob (st : state_tab (T:=R)) (s : bits) : R :=
  match st with PureTab psi => cn2 (psi s) | MixedTab rho => fst (rho s s) end.

Lemma expansions_allZ b s : all_Z b = true -> length b = length s -> expansions b s = [s].
Proof.
  revert s; induction b as [|a b IH]; intros [|x s] HZ Hl; try discriminate; [reflexivity|].
  cbn in HZ. apply andb_true_iff in HZ as [Ha Hb]. cbn [expansions]. rewrite Ha.
  rewrite IH by (try assumption; simpl in Hl; lia). reflexivity.
Qed.

Lemma ut_coeff_allZ user b s v : all_Z b = true -> ut_coeff ROps user b s v = c1 ROps.
Proof.
  revert s v; induction b as [|a b IH]; intros [|x s] [|w v] HZ; try reflexivity.
  cbn in HZ. apply andb_true_iff in HZ as [Ha Hb]. cbn [ut_coeff]. rewrite Ha. apply IH, Hb.
Qed.

Lemma born_allZ user st Z b s :
  all_Z b = true -> length b = length s -> born user st Z b s = diag_prob st s / Z.
Proof.
  intros HZ Hl. destruct st as [psi|rho]; unfold born, diag_prob.
  - unfold inner_prod1. rewrite expansions_allZ by assumption. cbn [map csum]. rewrite ut_coeff_allZ by assumption.
    f_equal. destruct (psi s) as [p1 p2]. unfold cn2, cadd, cmul, c1, c0; cbn [fst snd nadd nsub nmul n0 n1 ROps]. ring.
  - unfold rho_prob1. rewrite expansions_allZ by assumption. cbn [map sum]. rewrite ut_coeff_allZ by assumption.
    f_equal. destruct (rho s s) as [p1 p2]. unfold cmul, cconj, c1; cbn [fst snd nadd nsub nmul nopp n0 n1 ROps]. ring.
Qed.

Lemma nll_prob_is_born user st pr Z b s :
  length b = length s -> (all_Z b = true -> pr s = diag_prob st s) ->
  nll_prob ROps user st pr Z b s = born user st Z b s.
Proof.
  intros Hl Hpr. unfold nll_prob. destruct (all_Z b) eqn:HZ.
  - rewrite born_allZ by assumption. rewrite (Hpr eq_refl). reflexivity.
  - destruct st; unfold born; [rewrite abs_sq_R|]; reflexivity.
Qed.

Definition flatten_groups (groups : list (list letter * list bits)) : list (list letter * bits) :=
  flat_map (fun g => map (pair (fst g)) (snd g)) groups.

Lemma sum_groups_flatten (F : list letter -> bits -> R) groups :
  sum ROps (map (fun g => sum ROps (map (F (fst g)) (snd g))) groups) =
  sum ROps (map (fun bs => F (fst bs) (snd bs)) (flatten_groups groups)).
Proof.
  induction groups as [|g groups IH]; [reflexivity|].
  unfold flatten_groups in *; cbn [map sum flat_map nadd ROps]. rewrite map_app, sum_app, <- IH, map_map. reflexivity.
Qed.

Lemma sum_map_perm {A} (f : A -> R) l l' : Permutation l l' -> sum ROps (map f l) = sum ROps (map f l').
Proof.
  induction 1; cbn [map sum nadd ROps]; try lra; try congruence.
Qed.

Definition sample_ok user st pr Z (bs : list letter * bits) : Prop :=
  length (fst bs) = length (snd bs) /\
  (all_Z (fst bs) = true -> pr (snd bs) = diag_prob st (snd bs)) /\
  in_range (born user st Z (fst bs) (snd bs)).

Definition mean_neg_log_born user st Z (samples : list (list letter * bits)) : R :=
  - (sum ROps (map (fun bs => ln (born user st Z (fst bs) (snd bs))) samples)) / INR (length samples).

(* 3. NLL over ANY grouping of the batch (any list of (basis, rows) whose flattening is a permutation of the batch) *)
Lemma nll_groups_is_mean_neg_log_born user st pr Z groups samples :
  Permutation (flatten_groups groups) samples ->
  (forall bs, In bs samples -> sample_ok user st pr Z bs) ->
  fst (nll_groups ROps user st pr Z groups (length samples)) = mean_neg_log_born user st Z samples.
Proof.
  intros HP Hok. unfold nll_groups, mean_neg_log_born; cbn [fst ndiv nopp ROps]. rewrite nofnat_R.
  rewrite (sum_groups_flatten (fun b s => plogit ROps (nll_prob ROps user st pr Z b s))).
  rewrite (sum_map_perm _ _ _ HP). f_equal. f_equal.
  apply sum_map_ext; intros bs Hbs. destruct (Hok bs Hbs) as [Hl [Hpr Hr]].
  rewrite nll_prob_is_born by assumption. apply plogit_in_range, Hr.
Qed.

(* the code's own grouping: one group per unique basis row, rows kept in batch order *)
Definition count_basis (ub : list (list letter)) (b : list letter) : nat :=
  length (filter (fun u => basis_eqb b u) ub).

Lemma sum_filter_indicator {A} (p : A -> bool) (f : A -> R) l :
  sum ROps (map f (filter p l)) = sum ROps (map (fun x => if p x then f x else 0) l).
Proof.
  induction l as [|a l IH]; [reflexivity|]. cbn [filter map]. destruct (p a); cbn [map sum nadd ROps]; rewrite IH; lra.
Qed.

Lemma sum_swap_lists {A B} (g : A -> B -> R) (la : list A) (lb : list B) :
  sum ROps (map (fun a => sum ROps (map (g a) lb)) la) = sum ROps (map (fun b => sum ROps (map (fun a => g a b) la)) lb).
Proof.
  induction la as [|a la IH]; cbn [map sum nadd n0 ROps].
  - induction lb as [|b lb IHb]; cbn [map sum nadd n0 ROps]; [reflexivity | rewrite <- IHb; lra].
  - rewrite IH. rewrite <- (sum_map_plus (g a) (fun b => sum ROps (map (fun a0 => g a0 b) la)) lb). reflexivity.
Qed.

Lemma sum_indicator_count (ub : list (list letter)) b c :
  sum ROps (map (fun u => if basis_eqb b u then c else 0) ub) = INR (count_basis ub b) * c.
Proof.
  unfold count_basis. induction ub as [|u ub IH]; cbn [map sum filter nadd n0 ROps]; [cbn; lra|].
  destruct (basis_eqb b u); rewrite IH; [|lra].
  cbn [length]. rewrite S_INR. lra.
Qed.

Lemma group_by_sum (F : list letter -> bits -> R) ub samples :
  (forall bs, In bs samples -> count_basis ub (fst bs) = 1%nat) ->
  sum ROps (map (fun g => sum ROps (map (F (fst g)) (snd g))) (group_by ub samples)) =
  sum ROps (map (fun bs => F (fst bs) (snd bs)) samples).
Proof.
  intros Hc. unfold group_by. rewrite map_map. cbn [fst snd].
  transitivity (sum ROps (map (fun u => sum ROps (map (fun bs : list letter * bits =>
      if basis_eqb (fst bs) u then F (fst bs) (snd bs) else 0) samples)) ub)).
  - apply sum_map_ext; intros u _. rewrite map_map.
    rewrite (sum_filter_indicator (fun s : list letter * bits => basis_eqb (fst s) u) (fun x => F u (snd x)) samples).
    apply sum_map_ext; intros bs _. destruct (basis_eqb (fst bs) u) eqn:E; [|reflexivity].
    apply basis_eqb_eq in E; subst; reflexivity.
  - rewrite sum_swap_lists. apply sum_map_ext; intros bs Hbs.
    rewrite (sum_indicator_count ub (fst bs) (F (fst bs) (snd bs))), (Hc bs Hbs). cbn; lra.
Qed.

Lemma nll_bases_is_mean_neg_log_born user st pr Z ub samples :
  (forall bs, In bs samples -> count_basis ub (fst bs) = 1%nat) ->
  (forall bs, In bs samples -> sample_ok user st pr Z bs) ->
  fst (nll_bases ROps user st pr Z ub samples) = mean_neg_log_born user st Z samples.
Proof.
  intros Hc Hok. unfold nll_bases, nll_groups, mean_neg_log_born; cbn [fst ndiv nopp ROps]. rewrite nofnat_R.
  rewrite (group_by_sum (fun b s => plogit ROps (nll_prob ROps user st pr Z b s)) ub samples Hc).
  f_equal. f_equal. apply sum_map_ext; intros bs Hbs. destruct (Hok bs Hbs) as [Hl [Hpr Hr]].
  rewrite nll_prob_is_born by assumption. apply plogit_in_range, Hr.
Qed.

(* the de-duplicated list of the batch's own basis rows is such a list of unique rows *)
Lemma filter_filter_comm {A} (p q : A -> bool) l : filter p (filter q l) = filter q (filter p l).
Proof.
  induction l as [|a l IH]; [reflexivity|]. cbn [filter].
  destruct (q a) eqn:Q, (p a) eqn:P; cbn [filter]; rewrite ?Q, ?P, IH; reflexivity.
Qed.

Lemma dedup_count bs b : In b bs -> count_basis (dedup_bases bs) b = 1%nat.
Proof.
  unfold count_basis. induction bs as [|x bs IH]; intros Hin; [contradiction|].
  cbn [dedup_bases filter]. destruct (basis_eqb b x) eqn:E.
  - apply basis_eqb_eq in E; subst x. cbn [length]. f_equal.
    rewrite filter_filter_comm.
    assert (Hnil : forall l, filter (fun x0 => negb (basis_eqb x0 b)) (filter (fun u => basis_eqb b u) l) = []).
    { induction l as [|y l IHl]; [reflexivity|]. cbn [filter]. destruct (basis_eqb b y) eqn:Ey; [|exact IHl].
      apply basis_eqb_eq in Ey; subst y. cbn [filter]. rewrite basis_eqb_refl. cbn. exact IHl. }
    rewrite Hnil. reflexivity.
  - destruct Hin as [->|Hin]; [rewrite basis_eqb_refl in E; discriminate|].
    rewrite filter_filter_comm.
    assert (Hid : forall l, filter (fun x0 => negb (basis_eqb x0 x)) (filter (fun u => basis_eqb b u) l) = filter (fun u => basis_eqb b u) l).
    { induction l as [|y l IHl]; [reflexivity|]. cbn [filter]. destruct (basis_eqb b y) eqn:Ey; [|exact IHl].
      apply basis_eqb_eq in Ey; subst y. cbn [filter]. rewrite E. cbn. rewrite IHl. reflexivity. }
    rewrite Hid. apply IH, Hin.
Qed.

Lemma nll_bases_auto_is_mean_neg_log_born user st pr Z samples :
  (forall bs, In bs samples -> sample_ok user st pr Z bs) ->
  fst (nll_bases_auto ROps user st pr Z samples) = mean_neg_log_born user st Z samples.
Proof.
  intros Hok. apply nll_bases_is_mean_neg_log_born; [|exact Hok].
  intros bs Hbs. apply dedup_count. apply in_map, Hbs.
Qed.

(* without bases: -mean ln(p/Z) *)
Lemma nll_plain_is_mean_neg_log pr Z samples :
  (forall s, In s samples -> in_range (pr s / Z)) ->
  fst (nll_plain ROps pr Z samples) = - (sum ROps (map (fun s => ln (pr s / Z)) samples)) / INR (length samples).
Proof.
  intros H. unfold nll_plain, mean; cbn [fst nopp ndiv ROps]. rewrite nofnat_R, map_length.
  rewrite (sum_map_ext (fun s => plogit ROps (pr s / Z)) (fun s => ln (pr s / Z)) samples)
    by (intros s Hs; apply plogit_in_range, H, Hs).
  unfold Rdiv; ring.
Qed.

(* -------- self-KL, wavefunction: target = psi / sqrt Z, rotated by the same Kronecker sweep -------- *)
Section KronLinear.
  Variable s : Cx -> Cx.
  Hypothesis s_mul : forall a z, s (cmul ROps a z) = cmul ROps a (s z).
  Hypothesis s_add : forall x y, s (cadd ROps x y) = cadd ROps (s x) (s y).

  Lemma cvadd_cvscale_map a b (y0 y1 : list Cx) :
    cvadd ROps (cvscale ROps a (map s y0)) (cvscale ROps b (map s y1)) =
    map s (cvadd ROps (cvscale ROps a y0) (cvscale ROps b y1)).
  Proof.
    unfold cvadd, cvscale. revert y1; induction y0 as [|u y0 IH]; intros [|v y1]; try reflexivity.
    cbn [map combine fst snd]. rewrite s_add, !s_mul. f_equal. apply IH.
  Qed.

  Lemma kron_struct_map us x : kron_struct ROps us (map s x) = map s (kron_struct ROps us x).
  Proof.
    revert x; induction us as [|u us IH]; intros x; [reflexivity|].
    cbn [kron_struct]. rewrite map_length, firstn_map, skipn_map, !IH, map_app, !cvadd_cvscale_map. reflexivity.
  Qed.
End KronLinear.

Lemma rdiv_mul c a z : rdiv c (cmul ROps a z) = cmul ROps a (rdiv c z).
Proof.
  destruct a as [a1 a2], z as [z1 z2]. unfold rdiv, cdivr, cmul; cbn [fst snd nadd nsub nmul ndiv ROps].
  apply (f_equal2 pair); unfold Rdiv; ring.
Qed.
Lemma rdiv_add c x y : rdiv c (cadd ROps x y) = cadd ROps (rdiv c x) (rdiv c y).
Proof.
  destruct x as [x1 x2], y as [y1 y2]. unfold rdiv, cdivr, cadd; cbn [fst snd nadd ndiv ROps].
  apply (f_equal2 pair); unfold Rdiv; ring.
Qed.

Lemma rotate_psi_rdiv user b c psi :
  rotate_psi ROps user b (map (rdiv c) psi) = map (rdiv c) (rotate_psi ROps user b psi).
Proof. unfold rotate_psi. apply kron_struct_map; [apply rdiv_mul | apply rdiv_add]. Qed.

Lemma kl_pure_self_zero user psi Z bases :
  0 < Z ->
  fst (kl_bases_pure ROps user (tgt_rotate_psi ROps user (map (rdiv (sqrt Z)) psi)) psi Z bases) = 0.
Proof.
  intros HZ. apply kl_pure_zero_of_equal_dists; intros b _.
  unfold target_dist_pure, model_dist_pure, tgt_rotate_psi. rewrite rotate_psi_rdiv, map_map.
  apply map_ext; intros z. rewrite cn2_rdiv, sqrt_sqrt; try lra. pose proof (sqrt_lt_R0 Z HZ); lra.
Qed.

(* ------------------------------------------------------------------ result kinds *)
Lemma metrics_return_plain_numbers : forall (T : Type) (O : NumOps T),
  (forall t psi Z, snd (fidelity_pure O t psi Z) = PlainNumber) /\
  (forall eig t rho Z, snd (fidelity_mixed O eig t rho Z) = PlainNumber) /\
  (forall pr Z samples, snd (nll_plain O pr Z samples) = PlainNumber) /\
  (forall user st pr Z groups N, snd (nll_groups O user st pr Z groups N) = PlainNumber) /\
  (forall user st pr Z ub samples, snd (nll_bases O user st pr Z ub samples) = PlainNumber) /\
  (forall user st pr Z samples, snd (nll_bases_auto O user st pr Z samples) = PlainNumber) /\
  (forall t pr Z space, snd (kl_none_pure O t pr Z space) = PlainNumber) /\
  (forall t pr Z space, snd (kl_none_mixed O t pr Z space) = PlainNumber) /\
  (forall user tgt psi Z bases, snd (kl_bases_pure O user tgt psi Z bases) = PlainNumber) /\
  (forall user tgt rho Z space bases, snd (kl_bases_mixed O user tgt rho Z space bases) = PlainNumber).
Proof. intros T O. repeat split. Qed.

(* ------------------------------------------------------------------ fidelity, density matrices (partial) *)
(* what is handed to the eigenvalue oracle, and how the result is formed from its answer *)
Lemma fidelity_mixed_partial (eig : list (list Cx) -> list Cx) target rho Z :
  let M := cmatmul ROps target (map (map (rdiv Z)) rho) in
  let S := sum ROps (map (fun l => sqrt (Rabs (fst l))) (eig M)) in
  fst (fidelity_mixed ROps eig target rho Z) = S * S.
Proof. reflexivity. Qed.

(* entry (i, j) of that matrix is sum_k target[i][k] * rho[k][j] / Z, for a d x d rho *)
Lemma nth_map_seq {A} (f : nat -> A) d j dflt : (j < d)%nat -> nth j (map f (seq 0 d)) dflt = f j.
Proof.
  intros Hj. rewrite (nth_indep _ dflt (f 0%nat)) by (rewrite map_length, seq_length; exact Hj).
  rewrite map_nth. rewrite seq_nth by exact Hj. reflexivity.
Qed.

Lemma nth_map_lt {A B} (f : A -> B) l i d d' : (i < length l)%nat -> nth i (map f l) d = f (nth i l d').
Proof.
  revert i; induction l as [|a l IH]; intros [|i] H; cbn in *; try lia; [reflexivity | apply IH; lia].
Qed.

Lemma cmatmul_entry (a b : list (list Cx)) i j :
  (i < length a)%nat -> (j < length b)%nat ->
  nth j (nth i (cmatmul ROps a b) []) (c0 ROps) =
  cdot ROps (nth i a []) (map (fun row => nth j row (c0 ROps)) b).
Proof.
  intros Hi Hj. unfold cmatmul.
  rewrite (nth_map_lt _ a i [] [] Hi).
  unfold transpose_c. rewrite map_map.
  apply (nth_map_seq (fun x => cdot ROps (nth i a []) (map (fun row => nth x row (c0 ROps)) b)) (length b) j (c0 ROps) Hj).
Qed.

(* ------------------------------------------------------------------ non-vacuity examples *)
Example unit_interval_hyps_satisfiable :
  let t := [(1, 0)] in let psi := [(2, 0)] in
  sum ROps (map cn2 t) = 1 /\ sum ROps (map cn2 psi) = 4 /\ 0 < 4.
Proof. unfold cn2; cbn. repeat split; lra. Qed.

Lemma in_range_mid p : / 4 <= p <= 3 / 4 -> in_range p.
Proof. intros H. unfold in_range. pose proof epsR_bounds. lra. Qed.

Example kl_hyps_satisfiable :
  let T := [/ 2; / 2] in let Q := [/ 4; 3 / 4] in
  dists_ok T Q /\ sum ROps T = 1 /\ sum ROps Q = 1.
Proof.
  cbv zeta. split; [split; [reflexivity|split]|split].
  - apply Forall_cons; [apply in_range_mid; lra | apply Forall_cons; [apply in_range_mid; lra | apply Forall_nil]].
  - apply Forall_cons; [apply in_range_mid; lra | apply Forall_cons; [apply in_range_mid; lra | apply Forall_nil]].
  - cbn; lra.
  - cbn; lra.
Qed.

(* a one-qubit MIXED batch (two X rows, one Z row) of the state psi = (1, i), Z = 2: every hypothesis of the
   NLL theorems holds, and every Born probability is 1/2 *)
Definition psi_ex (v : bits) : Cx := match v with true :: _ => (0, 1) | _ => (1, 0) end.

Lemma born_X_example s : born [] (PureTab psi_ex) 2 [LX] [s] = / 2.
Proof.
  assert (Hs : sqrt (1 + 1) * sqrt (1 + 1) = 1 + 1) by (apply sqrt_sqrt; lra).
  assert (Hp : 0 < sqrt (1 + 1)) by (apply sqrt_lt_R0; lra).
  destruct s; unfold born, inner_prod1, cn2; cbn -[sqrt]; unfold inv_sqrt2, two; cbn -[sqrt]; field_simplify; try lra;
    replace (sqrt (1 + 1) ^ 2) with (sqrt (1 + 1) * sqrt (1 + 1)) by ring; rewrite Hs; lra.
Qed.

Example nll_hyps_satisfiable :
  let st := PureTab psi_ex in let pr := fun _ : bits => 1 in
  let samples := [([LX], [false]); ([LZ], [true]); ([LX], [true])] in
  (forall bs, In bs samples -> sample_ok [] st pr 2 bs) /\
  (forall bs, In bs samples -> count_basis [[LZ]; [LX]] (fst bs) = 1%nat).
Proof.
  cbv zeta. split.
  - intros bs [<-|[<-|[<-|[]]]]; unfold sample_ok; cbn [fst snd length]; (split; [reflexivity|split]).
    + intros H; discriminate H.
    + rewrite born_X_example. apply in_range_mid; lra.
    + intros _. unfold diag_prob, cn2; cbn. lra.
    + rewrite born_allZ by reflexivity. unfold diag_prob, cn2; cbn [fst snd psi_ex]. apply in_range_mid. lra.
    + intros H; discriminate H.
    + rewrite born_X_example. apply in_range_mid; lra.
  - intros bs [<-|[<-|[<-|[]]]]; reflexivity.
Qed.

(* ================================================================================================
   Audit follow-up (b.md M4 / rule 4).  (i) Targets with EXACTLY-ZERO probabilities (basis states, GHZ-like
   states): the clamp makes t * plogit t = 0 for t = 0, so the KL equalities and Gibbs' inequality extend to
   target entries in {0} u [eps, 1 - eps].  Entries in (0, eps) or (1 - eps, 1] (e.g. a target probability that is
   exactly 1) stay OUTSIDE every KL/NLL theorem: there plogit is not the logarithm (plogit 1 = ln (1 - eps)).
   (ii) Guarded restatements: no theorem below relies on x / 0 = 0, on an empty list of bases / samples, or on
   the truncating zip of lists of different lengths.  The unguarded lemmas above are kept (other files use them). *)
Definition zero_or_range (t : R) : Prop := t = 0 \/ in_range t.
Definition dists_ok0 (T Q : list R) : Prop := length T = length Q /\ Forall zero_or_range T /\ Forall in_range Q.

Lemma dists_ok_weaken T Q : dists_ok T Q -> dists_ok0 T Q.
Proof.
  intros [Hl [Ht Hq]]. split; [exact Hl|split; [|exact Hq]].
  eapply Forall_impl; [|exact Ht]. intros a Ha; right; exact Ha.
Qed.

Lemma single_basis_KL_is_kl_div0 t q :
  length t = length q -> Forall zero_or_range t -> Forall in_range q ->
  single_basis_KL ROps t q = kl_div t q.
Proof.
  revert q; induction t as [|a t IH]; intros [|b q] Hlen Ht Hq; try discriminate.
  - rewrite single_basis_KL_nil. reflexivity.
  - inversion Ht as [|? ? Ha Ht']; inversion Hq as [|? ? Hb Hq']; subst.
    rewrite single_basis_KL_cons, IH by (try assumption; simpl in Hlen; lia).
    unfold kl_div; cbn [combine map sum fst snd nadd ROps].
    destruct Ha as [->|Ha]; [ring|].
    rewrite !plogit_in_range by assumption.
    pose proof (in_range_pos a Ha). pose proof (in_range_pos b Hb).
    unfold Rdiv. rewrite ln_mult by (try apply Rinv_0_lt_compat; assumption).
    rewrite ln_Rinv by assumption. ring.
Qed.

Lemma gibbs_general0 t q :
  length t = length q -> Forall (fun x => 0 <= x) t -> Forall (fun x => 0 < x) q ->
  sum ROps t - sum ROps q <= kl_div t q.
Proof.
  revert q; induction t as [|a t IH]; intros [|b q] Hlen Ht Hq; try discriminate.
  - unfold kl_div; cbn. lra.
  - inversion Ht as [|? ? Ha Ht']; inversion Hq as [|? ? Hb Hq']; subst.
    assert (IH' : sum ROps t - sum ROps q <= kl_div t q) by (apply IH; try assumption; simpl in Hlen; lia).
    destruct Ha as [Ha|<-].
    + pose proof (gibbs_general [a] [b] eq_refl (Forall_cons _ Ha (Forall_nil _)) (Forall_cons _ Hb (Forall_nil _))) as H1.
      unfold kl_div in *; cbn [combine map sum fst snd nadd n0 ROps] in *. lra.
    + unfold kl_div in *; cbn [combine map sum fst snd nadd ROps]. lra.
Qed.

Lemma kl_div_nonneg0 t q :
  length t = length q -> Forall (fun x => 0 <= x) t -> Forall (fun x => 0 < x) q ->
  sum ROps t = sum ROps q -> 0 <= kl_div t q.
Proof. intros Hl Ht Hq Hs. pose proof (gibbs_general0 t q Hl Ht Hq). lra. Qed.

Lemma Forall_zero_or_range_nonneg l : Forall zero_or_range l -> Forall (fun x => 0 <= x) l.
Proof. apply Forall_impl. intros a [->|Ha]; [lra | left; apply in_range_pos, Ha]. Qed.

Lemma kl_pure_is_mean_of_basis_kl0 user tgt psi Z bases :
  bases <> [] ->
  (forall b, In b bases -> dists_ok0 (target_dist_pure tgt b) (model_dist_pure user psi Z b)) ->
  fst (kl_bases_pure ROps user tgt psi Z bases) =
  mean_over (fun b => kl_div (target_dist_pure tgt b) (model_dist_pure user psi Z b)) bases.
Proof.
  intros _ H. rewrite kl_bases_pure_value. apply mean_over_ext; intros b Hb.
  rewrite kl_basis_pure_unfold. destruct (H b Hb) as [Hl [Ht Hq]].
  apply single_basis_KL_is_kl_div0; assumption.
Qed.

Lemma kl_mixed_is_mean_of_basis_kl0 user tgt rho Z space bases :
  bases <> [] ->
  (forall b, In b bases -> dists_ok0 (tgt b) (model_dist_mixed user rho Z space b)) ->
  fst (kl_bases_mixed ROps user tgt rho Z space bases) =
  mean_over (fun b => kl_div (tgt b) (model_dist_mixed user rho Z space b)) bases.
Proof.
  intros _ H. rewrite kl_bases_mixed_value. apply mean_over_ext; intros b Hb.
  rewrite kl_basis_mixed_unfold. destruct (H b Hb) as [Hl [Ht Hq]].
  apply single_basis_KL_is_kl_div0; assumption.
Qed.

Lemma kl_pure_nonneg0 user tgt psi Z bases :
  bases <> [] ->
  (forall b, In b bases -> dists_ok0 (target_dist_pure tgt b) (model_dist_pure user psi Z b)) ->
  (forall b, In b bases -> sum ROps (target_dist_pure tgt b) = 1 /\ sum ROps (model_dist_pure user psi Z b) = 1) ->
  0 <= fst (kl_bases_pure ROps user tgt psi Z bases).
Proof.
  intros Hne H Hs. rewrite kl_pure_is_mean_of_basis_kl0 by assumption.
  apply mean_over_nonneg; intros b Hb. destruct (H b Hb) as [Hl [Ht Hq]]. destruct (Hs b Hb) as [S1 S2].
  apply kl_div_nonneg0; try assumption;
    [apply Forall_zero_or_range_nonneg; assumption | apply Forall_in_range_pos; assumption | lra].
Qed.

Lemma kl_mixed_nonneg0 user tgt rho Z space bases :
  bases <> [] ->
  (forall b, In b bases -> dists_ok0 (tgt b) (model_dist_mixed user rho Z space b)) ->
  (forall b, In b bases -> sum ROps (tgt b) = 1 /\ sum ROps (model_dist_mixed user rho Z space b) = 1) ->
  0 <= fst (kl_bases_mixed ROps user tgt rho Z space bases).
Proof.
  intros Hne H Hs. rewrite kl_mixed_is_mean_of_basis_kl0 by assumption.
  apply mean_over_nonneg; intros b Hb. destruct (H b Hb) as [Hl [Ht Hq]]. destruct (Hs b Hb) as [S1 S2].
  apply kl_div_nonneg0; try assumption;
    [apply Forall_zero_or_range_nonneg; assumption | apply Forall_in_range_pos; assumption | lra].
Qed.

Lemma kl_none_pure_is_kl0 target pr Z space :
  let T := map cn2 target in let Q := map (fun v => pr v / Z) space in
  dists_ok0 T Q -> fst (kl_none_pure ROps target pr Z space) = kl_div T Q.
Proof.
  cbv zeta. intros [Hl [Ht Hq]]. unfold kl_none_pure; cbn [fst ndiv ROps].
  rewrite (map_ext (abs_sq ROps) cn2 abs_sq_R). apply single_basis_KL_is_kl_div0; assumption.
Qed.

Lemma kl_none_mixed_is_kl0 target pr Z space :
  let T := diag_real ROps target in let Q := map (fun v => pr v / Z) space in
  dists_ok0 T Q -> fst (kl_none_mixed ROps target pr Z space) = kl_div T Q.
Proof.
  cbv zeta. intros [Hl [Ht Hq]]. unfold kl_none_mixed; cbn [fst ndiv ROps].
  apply single_basis_KL_is_kl_div0; assumption.
Qed.

Lemma kl_none_nonneg_pure0 target pr Z space :
  let T := map cn2 target in let Q := map (fun v => pr v / Z) space in
  dists_ok0 T Q -> sum ROps T = 1 -> sum ROps Q = 1 -> 0 <= fst (kl_none_pure ROps target pr Z space).
Proof.
  cbv zeta. intros H S1 S2. rewrite kl_none_pure_is_kl0 by exact H. destruct H as [Hl [Ht Hq]].
  apply kl_div_nonneg0; try assumption;
    [apply Forall_zero_or_range_nonneg; assumption | apply Forall_in_range_pos; assumption | lra].
Qed.

Lemma kl_none_nonneg_mixed0 target pr Z space :
  let T := diag_real ROps target in let Q := map (fun v => pr v / Z) space in
  dists_ok0 T Q -> sum ROps T = 1 -> sum ROps Q = 1 -> 0 <= fst (kl_none_mixed ROps target pr Z space).
Proof.
  cbv zeta. intros H S1 S2. rewrite kl_none_mixed_is_kl0 by exact H. destruct H as [Hl [Ht Hq]].
  apply kl_div_nonneg0; try assumption;
    [apply Forall_zero_or_range_nonneg; assumption | apply Forall_in_range_pos; assumption | lra].
Qed.

(* guarded restatements *)
Lemma fidelity_pure_is_overlap_g t psi Z :
  length t = length psi -> 0 < Z -> fst (fidelity_pure ROps t psi Z) = cn2 (overlap t psi) / Z.
Proof. intros _. apply fidelity_pure_is_overlap. Qed.

Lemma fidelity_pure_in_unit_interval_g t psi Z :
  length t = length psi -> sum ROps (map cn2 t) = 1 -> sum ROps (map cn2 psi) = Z -> 0 < Z ->
  0 <= fst (fidelity_pure ROps t psi Z) <= 1.
Proof. intros _. apply fidelity_pure_in_unit_interval. Qed.

Lemma fidelity_pure_global_phase_invariant_g theta t psi Z :
  length t = length psi -> 0 < Z ->
  fidelity_pure ROps (map (cmul ROps (cexp_i ROps theta)) t) psi Z = fidelity_pure ROps t psi Z.
Proof. intros _ _. apply fidelity_pure_global_phase_invariant. Qed.

Lemma kl_pure_self_zero_g user psi Z bases :
  bases <> [] -> 0 < Z ->
  fst (kl_bases_pure ROps user (tgt_rotate_psi ROps user (map (rdiv (sqrt Z)) psi)) psi Z bases) = 0.
Proof. intros _. apply kl_pure_self_zero. Qed.

Lemma kl_mixed_self_zero_g user (rho : bits -> bits -> Cx) Z space bases :
  bases <> [] -> 0 < Z ->
  fst (kl_bases_mixed ROps user (tgt_rotate_rho ROps user (fun v v' => rdiv Z (rho v v')) space) rho Z space bases) = 0.
Proof. intros _ _. apply kl_mixed_self_zero. Qed.

Lemma kl_pure_zero_of_equal_dists_g user tgt psi Z bases :
  bases <> [] -> (forall b, In b bases -> target_dist_pure tgt b = model_dist_pure user psi Z b) ->
  fst (kl_bases_pure ROps user tgt psi Z bases) = 0.
Proof. intros _. apply kl_pure_zero_of_equal_dists. Qed.

Lemma kl_mixed_zero_of_equal_dists_g user tgt rho Z space bases :
  bases <> [] -> (forall b, In b bases -> tgt b = model_dist_mixed user rho Z space b) ->
  fst (kl_bases_mixed ROps user tgt rho Z space bases) = 0.
Proof. intros _. apply kl_mixed_zero_of_equal_dists. Qed.

Lemma nll_groups_is_mean_neg_log_born_g user st pr Z groups samples :
  samples <> [] -> 0 < Z ->
  Permutation (flatten_groups groups) samples ->
  (forall bs, In bs samples -> sample_ok user st pr Z bs) ->
  fst (nll_groups ROps user st pr Z groups (length samples)) = mean_neg_log_born user st Z samples.
Proof. intros _ _. apply nll_groups_is_mean_neg_log_born. Qed.

Lemma nll_bases_is_mean_neg_log_born_g user st pr Z ub samples :
  samples <> [] -> 0 < Z ->
  (forall bs, In bs samples -> count_basis ub (fst bs) = 1%nat) ->
  (forall bs, In bs samples -> sample_ok user st pr Z bs) ->
  fst (nll_bases ROps user st pr Z ub samples) = mean_neg_log_born user st Z samples.
Proof. intros _ _. apply nll_bases_is_mean_neg_log_born. Qed.

Lemma nll_bases_auto_is_mean_neg_log_born_g user st pr Z samples :
  samples <> [] -> 0 < Z ->
  (forall bs, In bs samples -> sample_ok user st pr Z bs) ->
  fst (nll_bases_auto ROps user st pr Z samples) = mean_neg_log_born user st Z samples.
Proof. intros _ _. apply nll_bases_auto_is_mean_neg_log_born. Qed.

Lemma nll_plain_is_mean_neg_log_g pr Z samples :
  samples <> [] -> 0 < Z ->
  (forall s, In s samples -> in_range (pr s / Z)) ->
  fst (nll_plain ROps pr Z samples) = - (sum ROps (map (fun s => ln (pr s / Z)) samples)) / INR (length samples).
Proof. intros _ _. apply nll_plain_is_mean_neg_log. Qed.

Lemma born_allZ_g user st Z b s :
  0 < Z -> all_Z b = true -> length b = length s -> born user st Z b s = diag_prob st s / Z.
Proof. intros _. apply born_allZ. Qed.

(* non-vacuity of the zero-extended hypotheses: a basis-state target (1/2-1/2 after an X rotation is covered by
   dists_ok; here the computational-basis distribution of a GHZ-like two-qubit target: (1/2, 0, 0, 1/2)) *)
Example kl_hyps0_satisfiable :
  let T := [/ 2; 0; 0; / 2] in let Q := [/ 4; / 4; / 4; / 4] in
  dists_ok0 T Q /\ sum ROps T = 1 /\ sum ROps Q = 1 /\ ~ dists_ok T Q.
Proof.
  cbv zeta. split; [split; [reflexivity|split]|split; [|split]].
  - repeat (apply Forall_cons; [first [left; reflexivity | right; apply in_range_mid; lra]|]). apply Forall_nil.
  - repeat (apply Forall_cons; [apply in_range_mid; lra|]). apply Forall_nil.
  - cbn; lra.
  - cbn; lra.
  - intros [_ [Ht _]]. inversion Ht as [|? ? _ Ht1]; subst. inversion Ht1 as [|? ? H0 _]; subst.
    pose proof (in_range_pos 0 H0). lra.
Qed.
