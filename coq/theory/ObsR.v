(* ObsR.v — C08: the per-sample values of SigmaX/Y/Z and NeighbourInteraction are unbiased
   estimators of the operators they name.  Complex numbers are pairs of reals with the
   operations of CBase at ROps. *)
From Coq Require Import List ZArith Bool Reals Lra Lia Arith.
From QModel Require Import Num Bits CBase Rbm States Observables.
From QTheory Require Import RInst SumBits Born.
Import ListNotations.
Open Scope R_scope.

Notation C := (R * R)%type (only parsing).

(* ------------------------------------------------------------------ complex pairs at R *)
Lemma pair_eq (a b : C) : fst a = fst b -> snd a = snd b -> a = b.
Proof. destruct a, b; simpl; intros; subst; reflexivity. Qed.

Lemma cmul_R (a b : C) :
  cmul ROps a b = (fst a * fst b - snd a * snd b, fst a * snd b + snd a * fst b).
Proof. reflexivity. Qed.
Lemma cadd_R (a b : C) : cadd ROps a b = (fst a + fst b, snd a + snd b).
Proof. reflexivity. Qed.
Lemma cconj_R (a : C) : cconj ROps a = (fst a, - snd a).
Proof. reflexivity. Qed.
Lemma cscale_R x (a : C) : cscale ROps x a = (x * fst a, x * snd a).
Proof. reflexivity. Qed.
Lemma c0_R : c0 ROps = (0, 0). Proof. reflexivity. Qed.

Ltac cx_simpl :=
  repeat (rewrite ?cmul_R, ?cadd_R, ?cconj_R, ?cscale_R, ?c0_R; cbn [fst snd]).
Ltac cx_ring := apply pair_eq; cx_simpl; try ring.

Lemma cmul_comm (a b : C) : cmul ROps a b = cmul ROps b a.
Proof. cx_ring. Qed.
Lemma cmul_assoc (a b c : C) : cmul ROps a (cmul ROps b c) = cmul ROps (cmul ROps a b) c.
Proof. cx_ring. Qed.
Lemma cadd_comm (a b : C) : cadd ROps a b = cadd ROps b a.
Proof. cx_ring. Qed.
Lemma cadd_assoc (a b c : C) : cadd ROps a (cadd ROps b c) = cadd ROps (cadd ROps a b) c.
Proof. cx_ring. Qed.
Lemma cadd_0_l (a : C) : cadd ROps (0, 0) a = a.
Proof. cx_ring. Qed.
Lemma cadd_0_r (a : C) : cadd ROps a (0, 0) = a.
Proof. cx_ring. Qed.
Lemma cmul_0_r (a : C) : cmul ROps a (0, 0) = (0, 0).
Proof. cx_ring. Qed.
Lemma cmul_0_l (a : C) : cmul ROps (0, 0) a = (0, 0).
Proof. cx_ring. Qed.
Lemma cmul_1_r (a : C) : cmul ROps a (1, 0) = a.
Proof. cx_ring. Qed.
Lemma cmul_cadd_l (a b c : C) : cmul ROps a (cadd ROps b c) = cadd ROps (cmul ROps a b) (cmul ROps a c).
Proof. cx_ring. Qed.
Lemma cmul_cadd_r (a b c : C) : cmul ROps (cadd ROps a b) c = cadd ROps (cmul ROps a c) (cmul ROps b c).
Proof. cx_ring. Qed.

(* finite complex sums over a list *)
Lemma csum_app (xs ys : list C) : csum ROps (xs ++ ys) = cadd ROps (csum ROps xs) (csum ROps ys).
Proof.
  induction xs as [|x xs IH]; cbn [app csum]; [rewrite c0_R, cadd_0_l; reflexivity|].
  rewrite IH, cadd_assoc. reflexivity.
Qed.

Lemma csum_map_cmul_r {A} (f : A -> C) c l :
  csum ROps (map (fun a => cmul ROps (f a) c) l) = cmul ROps (csum ROps (map f l)) c.
Proof.
  induction l as [|a l IH]; cbn [map csum]; [rewrite c0_R, cmul_0_l; reflexivity|].
  rewrite IH, cmul_cadd_r. reflexivity.
Qed.

Lemma csum_map_ext {A} (f g : A -> C) l :
  (forall a, In a l -> f a = g a) -> csum ROps (map f l) = csum ROps (map g l).
Proof.
  induction l as [|a l IH]; cbn [map csum]; intros H; [reflexivity|].
  rewrite (H a (or_introl eq_refl)), IH; [reflexivity | intros; apply H; right; assumption].
Qed.

Lemma csum_fst {A} (f : A -> C) l : fst (csum ROps (map f l)) = sum ROps (map (fun a => fst (f a)) l).
Proof. induction l as [|a l IH]; cbn [map csum sum]; [reflexivity | rewrite cadd_R; cbn [fst]; rewrite IH; reflexivity]. Qed.
Lemma csum_snd {A} (f : A -> C) l : snd (csum ROps (map f l)) = sum ROps (map (fun a => snd (f a)) l).
Proof. induction l as [|a l IH]; cbn [map csum sum]; [reflexivity | rewrite cadd_R; cbn [snd]; rewrite IH; reflexivity]. Qed.

(* the running sum of the code (fold_left from zero) is the list sum *)
Lemma fold_left_cadd {A} (f : A -> C) l acc :
  fold_left (fun a i => cadd ROps a (f i)) l acc = cadd ROps acc (csum ROps (map f l)).
Proof.
  revert acc; induction l as [|i l IH]; intros acc; cbn [fold_left map csum].
  - rewrite c0_R, cadd_0_r. reflexivity.
  - rewrite IH, cadd_assoc. reflexivity.
Qed.

Lemma numer_sum_R term n : numer_sum ROps term n = csum ROps (map term (seq 0 n)).
Proof. unfold numer_sum. rewrite fold_left_cadd, c0_R, cadd_0_l. reflexivity. Qed.

(* ------------------------------------------------------------------ complex sums over bit strings *)
Definition csum_bits (n : nat) (f : bits -> C) : C :=
  (sum_bits n (fun s => fst (f s)), sum_bits n (fun s => snd (f s))).

Lemma csum_bits_ext n f g : (forall s, length s = n -> f s = g s) -> csum_bits n f = csum_bits n g.
Proof. intros H; unfold csum_bits; f_equal; apply sum_bits_ext; intros s Hs; rewrite (H s Hs); reflexivity. Qed.

Lemma csum_bits_S n f :
  csum_bits (S n) f = cadd ROps (csum_bits n (fun s => f (false :: s))) (csum_bits n (fun s => f (true :: s))).
Proof. reflexivity. Qed.

Lemma csum_bits_0 f : csum_bits 0 f = f [].
Proof. unfold csum_bits; simpl. destruct (f []); reflexivity. Qed.

Lemma csum_bits_cadd n f g :
  csum_bits n (fun s => cadd ROps (f s) (g s)) = cadd ROps (csum_bits n f) (csum_bits n g).
Proof.
  unfold csum_bits. rewrite cadd_R. cbn [fst snd]. rewrite <- !sum_bits_plus. reflexivity.
Qed.

Lemma csum_bits_zero n : csum_bits n (fun _ => (0, 0)) = (0, 0).
Proof. unfold csum_bits; cbn [fst snd]. rewrite sum_bits_const0. reflexivity. Qed.

Lemma sum_bits_minus n f g : sum_bits n (fun s => f s - g s) = sum_bits n f - sum_bits n g.
Proof.
  rewrite (sum_bits_ext n _ (fun s => f s + (-1) * g s)) by (intros; ring).
  rewrite sum_bits_plus, sum_bits_scal. ring.
Qed.

Lemma csum_bits_cmul_l n c f : csum_bits n (fun s => cmul ROps c (f s)) = cmul ROps c (csum_bits n f).
Proof.
  unfold csum_bits. rewrite cmul_R. cbn [fst snd]. f_equal.
  - rewrite (sum_bits_ext n _ (fun s => fst c * fst (f s) - snd c * snd (f s))) by reflexivity.
    rewrite sum_bits_minus, !sum_bits_scal. reflexivity.
  - rewrite (sum_bits_ext n _ (fun s => fst c * snd (f s) + snd c * fst (f s))) by reflexivity.
    rewrite sum_bits_plus, !sum_bits_scal. reflexivity.
Qed.

Lemma csum_bits_cmul_r n c f : csum_bits n (fun s => cmul ROps (f s) c) = cmul ROps (csum_bits n f) c.
Proof.
  rewrite (csum_bits_ext n _ (fun s => cmul ROps c (f s))) by (intros; apply cmul_comm).
  rewrite csum_bits_cmul_l. apply cmul_comm.
Qed.

Lemma csum_bits_cscale n x f : csum_bits n (fun s => cscale ROps x (f s)) = cscale ROps x (csum_bits n f).
Proof.
  unfold csum_bits. rewrite cscale_R. cbn [fst snd]. rewrite <- !sum_bits_scal. reflexivity.
Qed.

Lemma csum_bits_swap n m (f : bits -> bits -> C) :
  csum_bits n (fun s => csum_bits m (fun t => f s t)) = csum_bits m (fun t => csum_bits n (fun s => f s t)).
Proof. unfold csum_bits; cbn [fst snd]. f_equal; apply sum_bits_swap. Qed.

Lemma csum_bits_csum {A} n (f : A -> bits -> C) l :
  csum_bits n (fun s => csum ROps (map (fun a => f a s) l)) = csum ROps (map (fun a => csum_bits n (f a)) l).
Proof.
  induction l as [|a l IH]; cbn [map csum].
  - rewrite c0_R. apply csum_bits_zero.
  - rewrite csum_bits_cadd, IH. reflexivity.
Qed.

(* ------------------------------------------------------------------ flip re-indexing *)
Lemma flip_length i s : length (flip i s) = length s.
Proof. revert i; induction s as [|b s IH]; intros [|i]; simpl; auto. Qed.

Lemma flip_involutive i s : flip i (flip i s) = s.
Proof. revert i; induction s as [|b s IH]; intros [|i]; simpl; rewrite ?negb_involutive, ?IH; reflexivity. Qed.

Lemma sum_bits_flip n i f : sum_bits n (fun s => f (flip i s)) = sum_bits n f.
Proof.
  revert i f; induction n as [|n IH]; intros i f; [destruct i; reflexivity|].
  destruct i as [|i]; cbn [sum_bits flip negb].
  - lra.
  - rewrite (IH i (fun s => f (false :: s))), (IH i (fun s => f (true :: s))). reflexivity.
Qed.

Lemma csum_bits_flip n i f : csum_bits n (fun s => f (flip i s)) = csum_bits n f.
Proof. unfold csum_bits; f_equal; apply (sum_bits_flip n i (fun s => _ (f s))). Qed.

(* ------------------------------------------------------------------ operators as matrices *)
(* structural equality of basis states *)
Fixpoint beqb (s t : bits) : bool :=
  match s, t with
  | [], [] => true
  | a :: s', b :: t' => Bool.eqb a b && beqb s' t'
  | _, _ => false
  end.

Lemma beqb_refl s : beqb s s = true.
Proof. induction s as [|a s IH]; simpl; [reflexivity | rewrite eqb_reflx, IH; reflexivity]. Qed.

Lemma beqb_eq s t : beqb s t = true <-> s = t.
Proof.
  split; [|intros ->; apply beqb_refl].
  revert t; induction s as [|a s IH]; intros [|b t]; simpl; try discriminate; [reflexivity|].
  intros H; apply andb_true_iff in H; destruct H as [H1 H2].
  apply eqb_prop in H1; subst; f_equal; apply IH; exact H2.
Qed.

(* Pauli matrices, <a| M |b> with a, b in {0,1} (false = 0 = spin down = -1 for Z) *)
Definition pauliX (a b : bool) : C := if xorb a b then (1, 0) else (0, 0).
Definition pauliY (a b : bool) : C :=
  match a, b with
  | false, true => (0, -1)      (* <0|Y|1> = -i *)
  | true, false => (0, 1)       (* <1|Y|0> = +i *)
  | _, _ => (0, 0)
  end.
Definition zval (b : bool) : R := if b then 1 else -1.   (* = 2 b - 1, the library's to_pm1 *)
Definition pauliZ (a b : bool) : C := if Bool.eqb a b then (zval a, 0) else (0, 0).

(* <s| 1 x ... x M_i x ... x 1 |t> *)
Fixpoint site_op (M : bool -> bool -> C) (i : nat) (s t : bits) : C :=
  match s, t with
  | a :: s', b :: t' =>
      match i with
      | O => if beqb s' t' then M a b else (0, 0)
      | S j => if Bool.eqb a b then site_op M j s' t' else (0, 0)
      end
  | _, _ => (0, 0)
  end.

(* diagonal operator with eigenvalue d(s) on |s> *)
Definition diag_op (d : bits -> R) (s t : bits) : C := if beqb s t then (d t, 0) else (0, 0).

(* tr(rho Op) = sum_{s,s'} rho(s,s') Op(s',s) *)
Definition trace_op (n : nat) (rho : bits -> bits -> C) (Op : bits -> bits -> C) : C :=
  csum_bits n (fun s => csum_bits n (fun s' => cmul ROps (rho s s') (Op s' s))).

(* (1/n) sum_{i<n} M_i *)
Definition mean_site_op (M : bool -> bool -> C) (n : nat) (s t : bits) : C :=
  cscale ROps (/ INR n) (csum ROps (map (fun i => site_op M i s t) (seq 0 n))).

(* delta lemma: summing against a Kronecker delta picks one term *)
Lemma csum_bits_delta n s (f : bits -> C) c :
  length s = n ->
  csum_bits n (fun t => cmul ROps (f t) (if beqb s t then c else (0, 0))) = cmul ROps (f s) c.
Proof.
  revert s f; induction n as [|n IH]; intros s f Hs.
  - destruct s; [|discriminate]. rewrite csum_bits_0. reflexivity.
  - destruct s as [|a s]; [discriminate|]. injection Hs as Hs.
    rewrite csum_bits_S. destruct a; cbn [beqb Bool.eqb andb].
    + rewrite (csum_bits_ext n _ (fun _ => (0, 0))) by (intros; apply cmul_0_r).
      rewrite csum_bits_zero, cadd_0_l. apply (IH s (fun t => f (true :: t)) Hs).
    + rewrite (csum_bits_ext n (fun s0 => cmul ROps (f (true :: s0)) (0, 0)) (fun _ => (0, 0))) by (intros; apply cmul_0_r).
      rewrite csum_bits_zero, cadd_0_r. apply (IH s (fun t => f (false :: t)) Hs).
Qed.

Lemma beqb_sym s t : beqb s t = beqb t s.
Proof.
  revert t; induction s as [|a s IH]; intros [|b t]; simpl; try reflexivity.
  rewrite IH. destruct a, b; reflexivity.
Qed.

Lemma csum_bits_delta_sym n s (f : bits -> C) c :
  length s = n ->
  csum_bits n (fun t => cmul ROps (f t) (if beqb t s then c else (0, 0))) = cmul ROps (f s) c.
Proof.
  intros Hs. rewrite <- (csum_bits_delta n s f c Hs).
  apply csum_bits_ext; intros t _. rewrite (beqb_sym t s). reflexivity.
Qed.

(* sum over the ket index of a one-site operator: the diagonal and the flipped term *)
Lemma site_op_sum_r M n i s (f : bits -> C) :
  length s = n -> (i < n)%nat ->
  csum_bits n (fun t => cmul ROps (f t) (site_op M i s t)) =
  cadd ROps (cmul ROps (f s) (M (nth i s false) (nth i s false)))
            (cmul ROps (f (flip i s)) (M (nth i s false) (negb (nth i s false)))).
Proof.
  revert i s f; induction n as [|n IH]; intros i s f Hs Hi; [lia|].
  destruct s as [|a s]; [discriminate|]. injection Hs as Hs.
  rewrite csum_bits_S. destruct i as [|i]; cbn [site_op nth flip].
  - pose proof (csum_bits_delta n s (fun t => f (false :: t)) (M a false) Hs) as H0.
    pose proof (csum_bits_delta n s (fun t => f (true :: t)) (M a true) Hs) as H1.
    cbv beta in H0, H1. unfold cx in H0, H1. rewrite H0, H1.
    destruct a; cbn [negb]; [apply cadd_comm | reflexivity].
  - assert (Hi' : (i < n)%nat) by lia.
    destruct a; cbn [Bool.eqb].
    + rewrite (csum_bits_ext n _ (fun _ => (0, 0))) by (intros; apply cmul_0_r).
      rewrite csum_bits_zero, cadd_0_l.
      apply (IH i s (fun t => f (true :: t)) Hs Hi').
    + rewrite (csum_bits_ext n (fun s0 => cmul ROps (f (true :: s0)) (0, 0)) (fun _ => (0, 0))) by (intros; apply cmul_0_r).
      rewrite csum_bits_zero, cadd_0_r.
      apply (IH i s (fun t => f (false :: t)) Hs Hi').
Qed.

(* linearity of the trace in the operator *)
Lemma trace_op_ext n rho Op Op' :
  (forall s t, length s = n -> length t = n -> Op s t = Op' s t) -> trace_op n rho Op = trace_op n rho Op'.
Proof.
  intros H; unfold trace_op. apply csum_bits_ext; intros s Hs. apply csum_bits_ext; intros t Ht.
  rewrite H by assumption. reflexivity.
Qed.

Lemma trace_op_csum {A} n rho (Op : A -> bits -> bits -> C) l :
  trace_op n rho (fun s t => csum ROps (map (fun a => Op a s t) l)) =
  csum ROps (map (fun a => trace_op n rho (Op a)) l).
Proof.
  unfold trace_op. induction l as [|a l IH]; cbn [map csum].
  - rewrite c0_R.
    rewrite (csum_bits_ext n _ (fun _ => (0, 0))); [apply csum_bits_zero|].
    intros s _. rewrite (csum_bits_ext n _ (fun _ => (0, 0))); [apply csum_bits_zero|].
    intros; apply cmul_0_r.
  - rewrite <- IH, <- csum_bits_cadd. apply csum_bits_ext; intros s _.
    rewrite <- csum_bits_cadd. apply csum_bits_ext; intros t _. apply cmul_cadd_l.
Qed.

Lemma trace_op_cscale n rho x Op :
  trace_op n rho (fun s t => cscale ROps x (Op s t)) = cscale ROps x (trace_op n rho Op).
Proof.
  unfold trace_op. rewrite <- csum_bits_cscale. apply csum_bits_ext; intros s _.
  rewrite <- csum_bits_cscale. apply csum_bits_ext; intros t _. cx_ring.
Qed.

(* the two terms a one-site operator contributes at basis state s *)
Definition flip_term (M : bool -> bool -> C) (rho : bits -> bits -> C) (i : nat) (s : bits) : C :=
  cadd ROps (cmul ROps (rho s s) (M (nth i s false) (nth i s false)))
            (cmul ROps (rho (flip i s) s) (M (nth i s false) (negb (nth i s false)))).

Lemma trace_site_op M n rho i : (i < n)%nat ->
  trace_op n rho (site_op M i) = csum_bits n (flip_term M rho i).
Proof.
  intros Hi. unfold trace_op. rewrite csum_bits_swap.
  apply csum_bits_ext; intros u Hu.
  apply (site_op_sum_r M n i u (fun s => rho s u) Hu Hi).
Qed.

Lemma trace_mean_site_op M n rho :
  trace_op n rho (mean_site_op M n) =
  cscale ROps (/ INR n) (csum_bits n (fun s => csum ROps (map (fun i => flip_term M rho i s) (seq 0 n)))).
Proof.
  unfold mean_site_op. rewrite trace_op_cscale. f_equal.
  rewrite (trace_op_csum n rho (fun i => site_op M i)).
  rewrite csum_bits_csum. apply csum_map_ext. intros i Hi. apply in_seq in Hi.
  apply trace_site_op. lia.
Qed.

(* the same trace with the flipped index on the ket side: tr(rho X_i) = sum_s rho(s, flip i s) *)
Lemma trace_pauliX_alt n rho i : (i < n)%nat ->
  trace_op n rho (site_op pauliX i) = csum_bits n (fun s => rho s (flip i s)).
Proof.
  intros Hi. rewrite (trace_site_op pauliX n rho i Hi).
  rewrite <- (csum_bits_flip n i (fun s => rho s (flip i s))).
  apply csum_bits_ext; intros s Hs. rewrite flip_involutive. unfold flip_term, pauliX.
  destruct (nth i s false); cbn [xorb negb]; rewrite cmul_0_r, cmul_1_r, cadd_0_l; reflexivity.
Qed.

(* ------------------------------------------------------------------ the division of the code *)
Lemma cabs_e_sq (y : C) : cabs_e ROps y * cabs_e ROps y = fst y * fst y + snd y * snd y.
Proof.
  unfold cabs_e. rewrite cconj_R, cmul_R. cbn [fst snd nsqrt ROps].
  rewrite sqrt_sqrt; [ring|]. nra.
Qed.

Lemma cdiv_e_R (x y : C) :
  cdiv_e ROps x y =
  ((fst x * fst y + snd x * snd y) / (fst y * fst y + snd y * snd y),
   (snd x * fst y - fst x * snd y) / (fst y * fst y + snd y * snd y)).
Proof.
  unfold cdiv_e. cbn [nmul ndiv ROps]. rewrite cabs_e_sq, cconj_R, cmul_R. cbn [fst snd].
  f_equal; f_equal; ring.
Qed.

(* mixed state: p * Re(S / (p,0)) = Re S *)
Lemma weight_div_mixed (S : C) p : p <> 0 -> p * fst (cdiv_e ROps S (p, 0)) = fst S.
Proof. intros Hp. rewrite cdiv_e_R. cbn [fst snd]. field. exact Hp. Qed.

(* pure state: |y|^2 * Re(S / y) = Re(S conj y) *)
Lemma weight_div_pure (S y : C) : y <> (0, 0) ->
  (fst y * fst y + snd y * snd y) * fst (cdiv_e ROps S y) = fst (cmul ROps S (cconj ROps y)).
Proof.
  intros Hy. rewrite cdiv_e_R, cconj_R, cmul_R. cbn [fst snd].
  assert (fst y * fst y + snd y * snd y <> 0).
  { intros H. apply Hy. destruct y as [a b]; cbn [fst snd] in H.
    assert (a = 0) by nra. assert (b = 0) by nra. subst; reflexivity. }
  field. assumption.
Qed.

(* the importance ratio of a pure state is that of its projector:
   psi(s')/psi(s) = rho(s',s)/rho(s,s)  with  rho(s',s) = psi(s') conj(psi(s)) *)
Definition proj (psi : bits -> C) (s t : bits) : C := cmul ROps (psi s) (cconj ROps (psi t)).
Definition pnorm2 (psi : bits -> C) (s : bits) : R := fst (psi s) * fst (psi s) + snd (psi s) * snd (psi s).

Lemma proj_diag psi s : proj psi s s = (pnorm2 psi s, 0).
Proof. unfold proj, pnorm2. cx_ring. Qed.

Lemma pure_weight_is_projector_weight psi vp v :
  psi v <> (0, 0) ->
  is_weight ROps (pure_state psi) vp v =
  is_weight ROps (mixed_state ROps (proj psi) (pnorm2 psi)) vp v.
Proof.
  intros Hy. unfold is_weight, pure_state, mixed_state; cbn [is_num is_den n0 ROps].
  rewrite !cdiv_e_R. unfold proj, pnorm2. cx_simpl.
  destruct (psi v) as [a b] eqn:E. destruct (psi vp) as [c d]. cbn [fst snd].
  assert (a * a + b * b <> 0).
  { intros H. apply Hy. assert (a = 0) by nra. assert (b = 0) by nra. subst; reflexivity. }
  apply pair_eq; cbn [fst snd]; field; nra.
Qed.

(* ------------------------------------------------------------------ estimator values *)
Lemma nofnat_R n : nofnat ROps n = INR n.
Proof. unfold nofnat; cbn [nofZ ROps]. symmetry; apply INR_IZR_INZ. Qed.

Lemma site_avg_mixed rho p term s :
  p s <> 0 ->
  p s * site_avg ROps (mixed_state ROps rho p) term s =
  fst (csum ROps (map term (seq 0 (length s)))) / INR (length s).
Proof.
  intros Hp. unfold site_avg, mixed_state; cbn [is_den n0 ndiv ROps].
  rewrite nofnat_R, numer_sum_R. unfold Rdiv. rewrite <- Rmult_assoc.
  rewrite (weight_div_mixed _ (p s) Hp). reflexivity.
Qed.

Lemma site_avg_pure psi term s :
  psi s <> (0, 0) ->
  pnorm2 psi s * site_avg ROps (pure_state psi) term s =
  fst (csum ROps (map (fun i => cmul ROps (term i) (cconj ROps (psi s))) (seq 0 (length s)))) / INR (length s).
Proof.
  intros Hp. unfold site_avg, pure_state; cbn [is_den ndiv ROps].
  rewrite nofnat_R, numer_sum_R. unfold Rdiv. rewrite <- Rmult_assoc. unfold pnorm2.
  rewrite (weight_div_pure _ (psi s) Hp), csum_map_cmul_r. reflexivity.
Qed.

(* Re of a scaled sum of sums *)
Lemma fst_mean_csum_bits n (g : bits -> C) :
  sum_bits n (fun s => fst (g s) / INR n) = fst (cscale ROps (/ INR n) (csum_bits n g)).
Proof.
  rewrite cscale_R; unfold csum_bits; cbn [fst]. rewrite <- sum_bits_scal.
  apply sum_bits_ext; intros; unfold Rdiv; ring.
Qed.

(* the term each Pauli matrix contributes *)
Lemma flip_term_X rho i s : flip_term pauliX rho i s = rho (flip i s) s.
Proof.
  unfold flip_term, pauliX. destruct (nth i s false); cbn [xorb negb];
  rewrite cmul_0_r, cmul_1_r, cadd_0_l; reflexivity.
Qed.

Lemma spin_R s i : spin ROps s i = zval (nth i s false).
Proof.
  unfold spin, to_pm1. cbn [nsub nmul n1 ROps]. rewrite two_R, b2t_R.
  destruct (nth i s false); unfold zval; lra.
Qed.

Lemma flip_term_Y rho i s : flip_term pauliY rho i s = cmul ROps (rho (flip i s) s) (0, spin ROps s i).
Proof.
  rewrite spin_R. unfold flip_term, pauliY, zval. destruct (nth i s false); cbn [negb];
  rewrite cmul_0_r, cadd_0_l; reflexivity.
Qed.

Lemma flip_term_Z rho i s : flip_term pauliZ rho i s = cmul ROps (rho s s) (zval (nth i s false), 0).
Proof.
  unfold flip_term, pauliZ. destruct (nth i s false); cbn [negb Bool.eqb];
  rewrite cmul_0_r, cadd_0_r; reflexivity.
Qed.

(* ---------- 1. SigmaX ---------- *)
Section Mixed.
  Variable n : nat.
  Variable rho : bits -> bits -> C.
  Variable p : bits -> R.
  Hypothesis p_pos : forall s, length s = n -> 0 < p s.

  Lemma sigma_x_unbiased :
    sum_bits n (fun s => p s * sigma_x ROps false (mixed_state ROps rho p) s) =
    fst (trace_op n rho (mean_site_op pauliX n)).
  Proof.
    rewrite trace_mean_site_op, <- fst_mean_csum_bits.
    apply sum_bits_ext; intros s Hs. unfold sigma_x, finish.
    rewrite site_avg_mixed by (pose proof (p_pos s Hs); lra). rewrite Hs.
    f_equal. f_equal. apply csum_map_ext; intros i _. rewrite flip_term_X. reflexivity.
  Qed.

  Lemma sigma_y_unbiased :
    sum_bits n (fun s => p s * sigma_y ROps false (mixed_state ROps rho p) s) =
    fst (trace_op n rho (mean_site_op pauliY n)).
  Proof.
    rewrite trace_mean_site_op, <- fst_mean_csum_bits.
    apply sum_bits_ext; intros s Hs. unfold sigma_y, finish.
    rewrite site_avg_mixed by (pose proof (p_pos s Hs); lra). rewrite Hs.
    f_equal. f_equal. apply csum_map_ext; intros i _. rewrite flip_term_Y. reflexivity.
  Qed.
End Mixed.

(* ---------- 3. SigmaZ ---------- *)
Lemma sum_map_nth {A} (f : A -> R) l d :
  sum ROps (map f l) = sum ROps (map (fun i => f (nth i l d)) (seq 0 (length l))).
Proof.
  induction l as [|a l IH]; [reflexivity|].
  cbn [length seq map sum nth]. rewrite <- seq_shift, map_map. cbn [nth]. rewrite <- IH. reflexivity.
Qed.

Lemma sum_zval s : sum ROps (map zval s) = 2 * sum ROps (map (b2t ROps) s) - INR (length s).
Proof.
  induction s as [|b s IH]; [simpl; lra|].
  cbn [map sum length nadd ROps]. rewrite S_INR, IH, b2t_R. destruct b; unfold zval; lra.
Qed.

Definition zsite (s : bits) (i : nat) : R := zval (nth i s false).

Lemma sigma_z_value n s : length s = n -> (1 <= n)%nat ->
  sigma_z ROps false s = sum ROps (map (zsite s) (seq 0 n)) / INR n.
Proof.
  intros Hs Hn. unfold sigma_z, finish, to_pm1, mean, zsite. cbn [nsub nmul ndiv n1 ROps].
  rewrite two_R, nofnat_R, map_length, Hs.
  rewrite <- Hs, <- (sum_map_nth zval s false), sum_zval, Hs.
  assert (INR n <> 0) by (apply not_0_INR; lia). field. assumption.
Qed.

Section MixedDiag.
  Variable n : nat.
  Variable rho : bits -> bits -> C.
  Variable p : bits -> R.
  Hypothesis n_pos : (1 <= n)%nat.
  Hypothesis diag_real : forall s, length s = n -> fst (rho s s) = p s.

  Lemma sigma_z_unbiased :
    sum_bits n (fun s => p s * sigma_z ROps false s) =
    fst (trace_op n rho (mean_site_op pauliZ n)).
  Proof.
    rewrite trace_mean_site_op, <- fst_mean_csum_bits.
    apply sum_bits_ext; intros s Hs.
    rewrite (sigma_z_value n s Hs n_pos), csum_fst.
    rewrite (sum_map_ext (fun a => fst (flip_term pauliZ rho a s)) (fun i => p s * zsite s i)).
    - rewrite sum_map_scal. unfold Rdiv; ring.
    - intros i _. rewrite flip_term_Z, cmul_R. cbn [fst snd]. rewrite (diag_real s Hs). unfold zsite. ring.
  Qed.

  (* trace against a diagonal operator *)
  Lemma trace_diag_op d :
    fst (trace_op n rho (diag_op d)) = sum_bits n (fun s => p s * d s).
  Proof.
    unfold trace_op, csum_bits at 1. cbn [fst].
    apply sum_bits_ext; intros s Hs.
    pose proof (csum_bits_delta_sym n s (fun t => rho s t) (d s, 0) Hs) as H. cbv beta in H.
    unfold diag_op. unfold cx in *. rewrite H, cmul_R. cbn [fst snd]. rewrite (diag_real s Hs). ring.
  Qed.
End MixedDiag.

(* ---------- 4. NeighbourInteraction ---------- *)
Definition zz_open (n c : nat) (s : bits) : R :=
  sum ROps (map (fun i => zsite s i * zsite s (i + c)) (seq 0 (n - c))) / INR n.
Definition zz_periodic (n c : nat) (s : bits) : R :=
  sum ROps (map (fun i => zsite s i * zsite s ((i + c) mod n)) (seq 0 n)) / INR n.

Lemma pm1_length s : length (pm1 ROps s) = length s.
Proof. unfold pm1; apply map_length. Qed.

Lemma nth_pm1 s i : (i < length s)%nat -> nth i (pm1 ROps s) 0 = zsite s i.
Proof.
  intros Hi. unfold pm1, zsite.
  rewrite (nth_indep _ 0 (to_pm1 ROps (b2t ROps false))) by (rewrite map_length; exact Hi).
  rewrite (map_nth (fun b => to_pm1 ROps (b2t ROps b)) s false i).
  unfold to_pm1. cbn [nsub nmul n1 ROps]. rewrite two_R, b2t_R.
  destruct (nth i s false); unfold zval; lra.
Qed.

Lemma map_combine_nth {A B X} (g : A * B -> X) (a : list A) (b : list B) da db :
  map g (combine a b) = map (fun i => g (nth i a da, nth i b db)) (seq 0 (Nat.min (length a) (length b))).
Proof.
  revert b; induction a as [|x a IH]; intros [|y b]; try reflexivity.
  cbn [combine map length Nat.min seq nth]. f_equal.
  rewrite <- seq_shift, map_map. cbn [nth]. apply IH.
Qed.

Lemma nth_firstn_lt {A} (l : list A) k i d : (i < k)%nat -> nth i (firstn k l) d = nth i l d.
Proof.
  revert k i; induction l as [|x l IH]; intros k i H; [destruct k, i; reflexivity|].
  destruct k; [lia|]. destruct i; [reflexivity|]. cbn [firstn nth]. apply IH. lia.
Qed.

Lemma nth_skipn_add {A} (l : list A) c i d : nth i (skipn c l) d = nth (i + c) l d.
Proof.
  revert l; induction c as [|c IH]; intros l; [rewrite Nat.add_0_r; reflexivity|].
  destruct l as [|x l]; [destruct i; reflexivity|].
  cbn [skipn]. rewrite IH. rewrite Nat.add_succ_r. reflexivity.
Qed.

Lemma neighbour_open_value n c s : length s = n -> (1 <= c)%nat ->
  neighbour ROps false c s = zz_open n c s.
Proof.
  intros Hs Hc. unfold neighbour, zz_open, drop_last. cbn [ndiv ROps].
  destruct (Nat.eqb_spec c 0) as [E|_]; [lia|].
  rewrite nofnat_R, pm1_length, Hs. f_equal. f_equal.
  rewrite (map_combine_nth _ _ _ 0 0).
  rewrite firstn_length, skipn_length, pm1_length, Hs.
  replace (Nat.min (Nat.min (n - c) n) (n - c)) with (n - c)%nat by lia.
  apply map_ext_in. intros i Hi. apply in_seq in Hi. cbn [fst snd nmul ROps].
  rewrite nth_firstn_lt by lia. rewrite nth_skipn_add.
  rewrite !nth_pm1 by lia. reflexivity.
Qed.

Lemma neighbour_periodic_value n c s : length s = n ->
  neighbour ROps true c s = zz_periodic n c s.
Proof.
  intros Hs. unfold neighbour, zz_periodic. cbn [ndiv ROps].
  rewrite nofnat_R, Hs. f_equal. f_equal.
  apply map_ext_in. intros i Hi. apply in_seq in Hi. cbn [nmul ROps].
  assert ((i + c) mod n < n)%nat by (apply Nat.mod_upper_bound; lia).
  rewrite !nth_pm1 by lia. reflexivity.
Qed.

Section Neighbour.
  Variable n : nat.
  Variable rho : bits -> bits -> C.
  Variable p : bits -> R.
  Hypothesis diag_real : forall s, length s = n -> fst (rho s s) = p s.

  Lemma neighbour_open_unbiased c : (1 <= c)%nat ->
    sum_bits n (fun s => p s * neighbour ROps false c s) = fst (trace_op n rho (diag_op (zz_open n c))).
  Proof.
    intros Hc. rewrite (trace_diag_op n rho p diag_real).
    apply sum_bits_ext; intros s Hs. rewrite (neighbour_open_value n c s Hs Hc). reflexivity.
  Qed.

  Lemma neighbour_periodic_unbiased c :
    sum_bits n (fun s => p s * neighbour ROps true c s) = fst (trace_op n rho (diag_op (zz_periodic n c))).
  Proof.
    rewrite (trace_diag_op n rho p diag_real).
    apply sum_bits_ext; intros s Hs. rewrite (neighbour_periodic_value n c s Hs). reflexivity.
  Qed.
End Neighbour.

(* Z_i Z_j as a matrix product of the one-site operators is the diagonal operator z_i z_j *)
Lemma site_op_Z_diag i s t : length s = length t -> (i < length t)%nat ->
  site_op pauliZ i s t = diag_op (fun u => zsite u i) s t.
Proof.
  revert i t; induction s as [|a s IH]; intros i [|b t] Hl Hi; try discriminate; [simpl in Hi; lia|].
  injection Hl as Hl. unfold diag_op, zsite. destruct i as [|i]; cbn [site_op beqb nth].
  - unfold pauliZ. destruct a, b; cbn [Bool.eqb andb]; try reflexivity;
    destruct (beqb s t); reflexivity.
  - cbn [length] in Hi. assert (Hi' : (i < length t)%nat) by lia.
    rewrite (IH i t Hl Hi'). unfold diag_op, zsite.
    destruct a, b; cbn [Bool.eqb andb]; reflexivity.
Qed.

Lemma site_op_sum_mid M n j (t : bits) (f : bits -> C) :
  length t = n -> (j < n)%nat ->
  (forall a b, a <> b -> M a b = (0, 0)) ->
  csum_bits n (fun u => cmul ROps (f u) (site_op M j u t)) =
  cmul ROps (f t) (M (nth j t false) (nth j t false)).
Proof.
  revert j t f; induction n as [|n IH]; intros j t f Ht Hj Hoff; [lia|].
  destruct t as [|b t]; [discriminate|]. injection Ht as Ht.
  rewrite csum_bits_S. destruct j as [|j]; cbn [site_op nth].
  - pose proof (csum_bits_delta_sym n t (fun u => f (false :: u)) (M false b) Ht) as H0.
    pose proof (csum_bits_delta_sym n t (fun u => f (true :: u)) (M true b) Ht) as H1.
    cbv beta in H0, H1. unfold cx in *. rewrite H0, H1.
    destruct b.
    + rewrite (Hoff false true) by discriminate. rewrite cmul_0_r, cadd_0_l. reflexivity.
    + rewrite (Hoff true false) by discriminate. rewrite cmul_0_r, cadd_0_r. reflexivity.
  - assert (Hj' : (j < n)%nat) by lia.
    destruct b; cbn [Bool.eqb].
    + rewrite (csum_bits_ext n _ (fun _ => (0, 0))) by (intros; apply cmul_0_r).
      rewrite csum_bits_zero, cadd_0_l.
      apply (IH j t (fun u => f (true :: u)) Ht Hj' Hoff).
    + rewrite (csum_bits_ext n (fun s0 => cmul ROps (f (true :: s0)) (0, 0)) (fun _ => (0, 0))) by (intros; apply cmul_0_r).
      rewrite csum_bits_zero, cadd_0_r.
      apply (IH j t (fun u => f (false :: u)) Ht Hj' Hoff).
Qed.

Lemma ZZ_is_product_of_site_ops n i j s t :
  length s = n -> length t = n -> (i < n)%nat -> (j < n)%nat ->
  csum_bits n (fun u => cmul ROps (site_op pauliZ i s u) (site_op pauliZ j u t)) =
  diag_op (fun u => zsite u i * zsite u j) s t.
Proof.
  intros Hs Ht Hi Hj.
  rewrite (site_op_sum_mid pauliZ n j t (fun u => site_op pauliZ i s u) Ht Hj).
  - rewrite site_op_Z_diag by lia. unfold diag_op, pauliZ, zsite.
    rewrite eqb_reflx. destruct (beqb s t); cx_ring.
  - intros a b Hab. unfold pauliZ. destruct a, b; try reflexivity; congruence.
Qed.

(* ---------- 5. absolute = True is the pointwise absolute value ---------- *)
Lemma absolute_is_pointwise_abs st s c pbc :
  sigma_x ROps true st s = Rabs (sigma_x ROps false st s) /\
  sigma_y ROps true st s = Rabs (sigma_y ROps false st s) /\
  sigma_z ROps true s = Rabs (sigma_z ROps false s) /\
  neighbour ROps pbc c s = neighbour ROps pbc c s.
Proof. repeat split; reflexivity. Qed.

(* ---------- pure states: rho = |psi><psi| ---------- *)
Section Pure.
  Variable n : nat.
  Variable psi : bits -> C.
  Hypothesis psi_nz : forall s, length s = n -> psi s <> (0, 0).

  Lemma sigma_x_unbiased_pure :
    sum_bits n (fun s => pnorm2 psi s * sigma_x ROps false (pure_state psi) s) =
    fst (trace_op n (proj psi) (mean_site_op pauliX n)).
  Proof.
    rewrite trace_mean_site_op, <- fst_mean_csum_bits.
    apply sum_bits_ext; intros s Hs. unfold sigma_x, finish.
    rewrite site_avg_pure by (apply psi_nz; exact Hs). rewrite Hs.
    f_equal. f_equal. apply csum_map_ext; intros i _. rewrite flip_term_X. reflexivity.
  Qed.

  Lemma sigma_y_unbiased_pure :
    sum_bits n (fun s => pnorm2 psi s * sigma_y ROps false (pure_state psi) s) =
    fst (trace_op n (proj psi) (mean_site_op pauliY n)).
  Proof.
    rewrite trace_mean_site_op, <- fst_mean_csum_bits.
    apply sum_bits_ext; intros s Hs. unfold sigma_y, finish.
    rewrite site_avg_pure by (apply psi_nz; exact Hs). rewrite Hs.
    f_equal. f_equal. apply csum_map_ext; intros i _. rewrite flip_term_Y.
    unfold sigma_y_term, pure_state, proj; cbn [is_num n0 ROps]. cx_ring.
  Qed.

  Lemma proj_diag_fst : forall s, length s = n -> fst (proj psi s s) = pnorm2 psi s.
  Proof. intros s _. rewrite proj_diag. reflexivity. Qed.
End Pure.

(* the hypotheses are satisfiable (non-vacuity) *)
Example mixed_hypotheses_satisfiable :
  exists (rho : bits -> bits -> C) (p : bits -> R),
    (forall s, length s = 2%nat -> 0 < p s) /\ (forall s, length s = 2%nat -> fst (rho s s) = p s)
    /\ rho [true; false] [false; false] <> rho [false; false] [true; false].
Proof.
  exists (fun s t => if beqb s t then (1, 0) else if hd false s then (0, 1) else (0, -1)), (fun _ => 1).
  repeat split.
  - intros; lra.
  - intros s _. rewrite beqb_refl. reflexivity.
  - simpl. intros H. injection H. lra.
Qed.

Example pure_hypotheses_satisfiable :
  exists psi : bits -> C, forall s, length s = 2%nat -> psi s <> (0, 0).
Proof. exists (fun s => (1, if hd false s then 1 else 0)). intros s _ H. injection H. lra. Qed.

(* ---------- instantiation at the RBM states of States.v (the objects the correspondence check feeds in) ---------- *)
Lemma probability_pos am v : 0 < probability ROps am v 1.
Proof. unfold probability; cbn [ndiv nexp nopp ROps]. unfold Rdiv. rewrite Rinv_1, Rmult_1_r. apply exp_pos. Qed.

Lemma dm_probability_pos am v : 0 < dm_probability ROps am v 1.
Proof. unfold dm_probability; cbn [ndiv nexp nopp ROps]. unfold Rdiv. rewrite Rinv_1, Rmult_1_r. apply exp_pos. Qed.

Lemma pnorm2_cplx am ph v : pnorm2 (cplx_psi ROps am ph) v = probability ROps am v 1.
Proof. exact (cplx_psi_sq am ph v). Qed.
Lemma pnorm2_pos_psi am v : pnorm2 (pos_psi ROps am) v = probability ROps am v 1.
Proof. exact (pos_psi_sq am v). Qed.

Lemma cplx_psi_nz am ph v : cplx_psi ROps am ph v <> (0, 0).
Proof.
  intros H. pose proof (pnorm2_cplx am ph v) as Q. unfold pnorm2 in Q. rewrite H in Q. cbn [fst snd] in Q.
  pose proof (probability_pos am v). lra.
Qed.
Lemma pos_psi_nz am v : pos_psi ROps am v <> (0, 0).
Proof.
  intros H. pose proof (pnorm2_pos_psi am v) as Q. unfold pnorm2 in Q. rewrite H in Q. cbn [fst snd] in Q.
  pose proof (probability_pos am v). lra.
Qed.

Lemma sigma_xy_unbiased_complex_wavefunction am ph n :
  sum_bits n (fun s => probability ROps am s 1 * sigma_x ROps false (pure_state (cplx_psi ROps am ph)) s) =
    fst (trace_op n (proj (cplx_psi ROps am ph)) (mean_site_op pauliX n)) /\
  sum_bits n (fun s => probability ROps am s 1 * sigma_y ROps false (pure_state (cplx_psi ROps am ph)) s) =
    fst (trace_op n (proj (cplx_psi ROps am ph)) (mean_site_op pauliY n)).
Proof.
  split.
  - rewrite <- (sigma_x_unbiased_pure n (cplx_psi ROps am ph)) by (intros; apply cplx_psi_nz).
    apply sum_bits_ext; intros s _. rewrite pnorm2_cplx. reflexivity.
  - rewrite <- (sigma_y_unbiased_pure n (cplx_psi ROps am ph)) by (intros; apply cplx_psi_nz).
    apply sum_bits_ext; intros s _. rewrite pnorm2_cplx. reflexivity.
Qed.

Lemma sigma_xy_unbiased_positive_wavefunction am n :
  sum_bits n (fun s => probability ROps am s 1 * sigma_x ROps false (pure_state (pos_psi ROps am)) s) =
    fst (trace_op n (proj (pos_psi ROps am)) (mean_site_op pauliX n)) /\
  sum_bits n (fun s => probability ROps am s 1 * sigma_y ROps false (pure_state (pos_psi ROps am)) s) =
    fst (trace_op n (proj (pos_psi ROps am)) (mean_site_op pauliY n)).
Proof.
  split.
  - rewrite <- (sigma_x_unbiased_pure n (pos_psi ROps am)) by (intros; apply pos_psi_nz).
    apply sum_bits_ext; intros s _. rewrite pnorm2_pos_psi. reflexivity.
  - rewrite <- (sigma_y_unbiased_pure n (pos_psi ROps am)) by (intros; apply pos_psi_nz).
    apply sum_bits_ext; intros s _. rewrite pnorm2_pos_psi. reflexivity.
Qed.

Lemma sigma_xy_unbiased_density_matrix am ph n :
  let st := mixed_state ROps (dm_rho ROps am ph) (fun v => dm_probability ROps am v 1) in
  sum_bits n (fun s => dm_probability ROps am s 1 * sigma_x ROps false st s) =
    fst (trace_op n (dm_rho ROps am ph) (mean_site_op pauliX n)) /\
  sum_bits n (fun s => dm_probability ROps am s 1 * sigma_y ROps false st s) =
    fst (trace_op n (dm_rho ROps am ph) (mean_site_op pauliY n)).
Proof.
  cbv zeta. split.
  - apply (sigma_x_unbiased n (dm_rho ROps am ph) (fun v => dm_probability ROps am v 1)). intros; apply dm_probability_pos.
  - apply (sigma_y_unbiased n (dm_rho ROps am ph) (fun v => dm_probability ROps am v 1)). intros; apply dm_probability_pos.
Qed.
