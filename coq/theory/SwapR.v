(* SwapR.v — C09: the SWAP estimator measures the purity tr(rho_A^2) of the reduced state. *)
From Coq Require Import List ZArith Bool Reals Lra Lia Arith Permutation.
From QModel Require Import Num Bits CBase Rbm States Observables.
From QTheory Require Import RInst SumBits Born ObsR.
Import ListNotations.
Open Scope R_scope.

(* ------------------------------------------------------------------ regions as masks *)
Fixpoint nin (A : list bool) : nat :=      (* number of sites inside the region *)
  match A with [] => O | a :: A' => ((if a then 1 else 0) + nin A')%nat end.
Definition nout (A : list bool) : nat := nin (map negb A).

(* the basis state that looks like [a] on the region and like [b] on the complement *)
Fixpoint merge (A : list bool) (a b : bits) : bits :=
  match A with
  | [] => []
  | true :: A' => match a with x :: a' => x :: merge A' a' b | [] => false :: merge A' [] b end
  | false :: A' => match b with y :: b' => y :: merge A' a b' | [] => false :: merge A' a [] end
  end.

Lemma merge_length A a b : length (merge A a b) = length A.
Proof.
  revert a b; induction A as [|x A IH]; intros a b; [reflexivity|].
  destruct x; [destruct a | destruct b]; simpl; rewrite IH; reflexivity.
Qed.

Lemma nin_nout A : (nin A + nout A = length A)%nat.
Proof. unfold nout. induction A as [|a A IH]; [reflexivity|]. destruct a; simpl in *; lia. Qed.

Lemma nout_negb A : nout (map negb A) = nin A.
Proof.
  unfold nout. rewrite map_map. f_equal. rewrite <- (map_id A) at 2. apply map_ext. apply negb_involutive.
Qed.

Lemma merge_negb A a b : merge (map negb A) b a = merge A a b.
Proof.
  revert a b; induction A as [|x A IH]; intros a b; [reflexivity|].
  destruct x; cbn [map negb merge]; [destruct a | destruct b]; rewrite IH; reflexivity.
Qed.

(* 1. a sum over all basis states is a sum over the region and over the complement *)
Lemma sum_bits_split A (f : bits -> R) :
  sum_bits (length A) f =
  sum_bits (nin A) (fun a => sum_bits (nout A) (fun b => f (merge A a b))).
Proof.
  unfold nout. revert f; induction A as [|x A IH]; intros f; [reflexivity|].
  destruct x; cbn [length map negb nin Nat.add sum_bits merge].
  - rewrite (IH (fun s => f (false :: s))), (IH (fun s => f (true :: s))). reflexivity.
  - rewrite (IH (fun s => f (false :: s))), (IH (fun s => f (true :: s))).
    rewrite <- sum_bits_plus. reflexivity.
Qed.

Lemma csum_bits_split A (f : bits -> C) :
  csum_bits (length A) f =
  csum_bits (nin A) (fun a => csum_bits (nout A) (fun b => f (merge A a b))).
Proof.
  unfold csum_bits at 1 2. cbn [fst snd].
  rewrite (sum_bits_split A (fun s => fst (f s))), (sum_bits_split A (fun s => snd (f s))). reflexivity.
Qed.

(* swapping the region between two replicas *)
Lemma swap_mask_merge A a1 b1 a2 b2 :
  length a1 = nin A -> length a2 = nin A -> length b1 = nout A -> length b2 = nout A ->
  swap_mask A (merge A a1 b1) (merge A a2 b2) = (merge A a2 b1, merge A a1 b2).
Proof.
  unfold nout. revert a1 b1 a2 b2; induction A as [|x A IH]; intros a1 b1 a2 b2 H1 H2 H3 H4; [reflexivity|].
  destruct x; cbn [map negb nin Nat.add] in *.
  - destruct a1 as [|x1 a1]; [discriminate|]. destruct a2 as [|x2 a2]; [discriminate|].
    injection H1 as H1. injection H2 as H2. cbn [merge swap_mask].
    rewrite (IH a1 b1 a2 b2 H1 H2 H3 H4). reflexivity.
  - destruct b1 as [|y1 b1]; [discriminate|]. destruct b2 as [|y2 b2]; [discriminate|].
    injection H3 as H3. injection H4 as H4. cbn [merge swap_mask].
    rewrite (IH a1 b1 a2 b2 H1 H2 H3 H4). reflexivity.
Qed.

(* the mask of a list of site indices *)
Lemma mask_of_sites_length n A : length (mask_of_sites n A) = n.
Proof. unfold mask_of_sites. rewrite map_length, seq_length. reflexivity. Qed.

Lemma mask_of_sites_spec n A j : (j < n)%nat ->
  (nth j (mask_of_sites n A) false = true <-> In j A).
Proof.
  intros Hj. unfold mask_of_sites.
  rewrite (nth_indep _ false ((fun j => existsb (Nat.eqb j) A) O)) by (rewrite map_length, seq_length; exact Hj).
  rewrite (map_nth (fun j => existsb (Nat.eqb j) A) (seq 0 n) O j), seq_nth by exact Hj. cbn [Nat.add].
  rewrite existsb_exists. split.
  - intros [x [Hx E]]. apply Nat.eqb_eq in E. subst. exact Hx.
  - intros H. exists j. split; [exact H | apply Nat.eqb_refl].
Qed.

(* ------------------------------------------------------------------ reduced matrix and purity *)
Definition rhoA (A : list bool) (rho : bits -> bits -> C) (a a' : bits) : C :=
  csum_bits (nout A) (fun b => rho (merge A a b) (merge A a' b)).
(* tr(rho_A^2) = sum_{a,a'} rho_A(a,a') rho_A(a',a) *)
Definition purity (A : list bool) (rho : bits -> bits -> C) : C :=
  csum_bits (nin A) (fun a => csum_bits (nin A) (fun a' => cmul ROps (rhoA A rho a a') (rhoA A rho a' a))).

(* four-fold form of the purity *)
Lemma purity_fourfold A rho :
  purity A rho =
  csum_bits (nin A) (fun a => csum_bits (nin A) (fun a' =>
    csum_bits (nout A) (fun b => csum_bits (nout A) (fun b' =>
      cmul ROps (rho (merge A a b) (merge A a' b)) (rho (merge A a' b') (merge A a b')))))).
Proof.
  unfold purity. apply csum_bits_ext; intros a _. apply csum_bits_ext; intros a' _.
  unfold rhoA. rewrite <- csum_bits_cmul_r. apply csum_bits_ext; intros b _.
  rewrite <- csum_bits_cmul_l. reflexivity.
Qed.

(* value of the estimator times the two sampling weights *)
Lemma swap_value_weighted rho p A s1 s2 :
  p s1 <> 0 -> p s2 <> 0 ->
  p s1 * p s2 * swap_value ROps (mixed_state ROps rho p) A s1 s2 =
  fst (cmul ROps (rho (fst (swap_mask A s1 s2)) s1) (rho (snd (swap_mask A s1 s2)) s2)).
Proof.
  intros H1 H2. unfold swap_value, is_weight, mixed_state; cbn [is_num is_den n0 ROps].
  rewrite !cdiv_e_R, !cmul_R. cbn [fst snd]. field. split; assumption.
Qed.

Section SwapMixed.
  Variable rho : bits -> bits -> C.
  Variable p : bits -> R.
  Variable A : list bool.
  Hypothesis p_pos : forall s, length s = length A -> 0 < p s.

  (* 2. averaged over independent pairs drawn with weights p, the estimator gives Re tr(rho_A^2) *)
  Lemma swap_estimates_purity :
    sum_bits (length A) (fun s1 => sum_bits (length A) (fun s2 =>
      p s1 * p s2 * swap_value ROps (mixed_state ROps rho p) A s1 s2)) =
    fst (purity A rho).
  Proof.
    set (F := fun s1 s2 => cmul ROps (rho (fst (swap_mask A s1 s2)) s1) (rho (snd (swap_mask A s1 s2)) s2)).
    transitivity (fst (csum_bits (length A) (fun s1 => csum_bits (length A) (fun s2 => F s1 s2)))).
    { unfold csum_bits; cbn [fst]. apply sum_bits_ext; intros s1 H1. apply sum_bits_ext; intros s2 H2.
      apply swap_value_weighted; [pose proof (p_pos s1 H1) | pose proof (p_pos s2 H2)]; lra. }
    f_equal. rewrite purity_fourfold.
    rewrite csum_bits_split.
    (* sum_{a1} sum_{b1} sum_{s2} F  ->  sum_{a1} sum_{b1} sum_{a2} sum_{b2} G *)
    rewrite (csum_bits_ext (nin A) _
      (fun a1 => csum_bits (nin A) (fun a2 => csum_bits (nout A) (fun b1 => csum_bits (nout A) (fun b2 =>
         cmul ROps (rho (merge A a2 b1) (merge A a1 b1)) (rho (merge A a1 b2) (merge A a2 b2))))))).
    - (* now exchange the roles a1 <-> a2 *)
      rewrite csum_bits_swap. reflexivity.
    - intros a1 Ha1.
      transitivity (csum_bits (nout A) (fun b1 => csum_bits (nin A) (fun a2 => csum_bits (nout A) (fun b2 =>
         cmul ROps (rho (merge A a2 b1) (merge A a1 b1)) (rho (merge A a1 b2) (merge A a2 b2)))))).
      2: { apply (csum_bits_swap (nout A) (nin A)
             (fun b1 a2 => csum_bits (nout A) (fun b2 =>
                cmul ROps (rho (merge A a2 b1) (merge A a1 b1)) (rho (merge A a1 b2) (merge A a2 b2))))). }
      apply csum_bits_ext; intros b1 Hb1.
      rewrite csum_bits_split. apply csum_bits_ext; intros a2 Ha2. apply csum_bits_ext; intros b2 Hb2.
      unfold F. rewrite (swap_mask_merge A a1 b1 a2 b2 Ha1 Ha2 Hb1 Hb2). reflexivity.
  Qed.
End SwapMixed.

(* pure states: the estimator of |psi> is the estimator of the projector |psi><psi| *)
Lemma swap_value_pure psi A s1 s2 :
  psi s1 <> (0, 0) -> psi s2 <> (0, 0) ->
  swap_value ROps (pure_state psi) A s1 s2 =
  swap_value ROps (mixed_state ROps (proj psi) (pnorm2 psi)) A s1 s2.
Proof.
  intros H1 H2. unfold swap_value.
  rewrite (pure_weight_is_projector_weight psi _ s1 H1), (pure_weight_is_projector_weight psi _ s2 H2).
  reflexivity.
Qed.

Lemma pnorm2_pos psi s : psi s <> (0, 0) -> 0 < pnorm2 psi s.
Proof.
  intros H. unfold pnorm2. destruct (psi s) as [a b]; cbn [fst snd].
  assert (a <> 0 \/ b <> 0).
  { destruct (Req_dec a 0) as [->|]; [|left; assumption]. destruct (Req_dec b 0) as [->|]; [|right; assumption].
    exfalso; apply H; reflexivity. }
  destruct H0; nra.
Qed.

Lemma swap_estimates_purity_pure psi A :
  (forall s, length s = length A -> psi s <> (0, 0)) ->
  sum_bits (length A) (fun s1 => sum_bits (length A) (fun s2 =>
    pnorm2 psi s1 * pnorm2 psi s2 * swap_value ROps (pure_state psi) A s1 s2)) =
  fst (purity A (proj psi)).
Proof.
  intros Hnz.
  rewrite <- (swap_estimates_purity (proj psi) (pnorm2 psi) A) by (intros s Hs; apply pnorm2_pos, Hnz, Hs).
  apply sum_bits_ext; intros s1 H1. apply sum_bits_ext; intros s2 H2.
  rewrite (swap_value_pure psi A s1 s2 (Hnz s1 H1) (Hnz s2 H2)). reflexivity.
Qed.

(* ------------------------------------------------------------------ 3. pure states: region vs complement *)
Lemma csum4_exchange n m (G : bits -> bits -> bits -> bits -> C) :
  csum_bits n (fun a => csum_bits n (fun a' => csum_bits m (fun b => csum_bits m (fun b' => G a a' b b')))) =
  csum_bits m (fun b => csum_bits m (fun b' => csum_bits n (fun a => csum_bits n (fun a' => G a a' b b')))).
Proof.
  (* a a' b b' -> a b a' b' *)
  rewrite (csum_bits_ext n _ (fun a => csum_bits m (fun b => csum_bits n (fun a' => csum_bits m (fun b' => G a a' b b')))))
    by (intros a _; apply (csum_bits_swap n m (fun a' b => csum_bits m (fun b' => G a a' b b')))).
  (* -> b a a' b' *)
  rewrite (csum_bits_swap n m (fun a b => csum_bits n (fun a' => csum_bits m (fun b' => G a a' b b')))).
  apply csum_bits_ext; intros b _.
  (* a a' b' -> a b' a' -> b' a a' *)
  rewrite (csum_bits_ext n _ (fun a => csum_bits m (fun b' => csum_bits n (fun a' => G a a' b b'))))
    by (intros a _; apply (csum_bits_swap n m (fun a' b' => G a a' b b'))).
  apply (csum_bits_swap n m (fun a b' => csum_bits n (fun a' => G a a' b b'))).
Qed.

Lemma pure_region_complement_symmetric psi A :
  purity A (proj psi) = purity (map negb A) (proj psi).
Proof.
  rewrite !purity_fourfold. rewrite nout_negb. change (nin (map negb A)) with (nout A).
  rewrite (csum4_exchange (nin A) (nout A)
    (fun a a' b b' => cmul ROps (proj psi (merge A a b) (merge A a' b)) (proj psi (merge A a' b') (merge A a b')))).
  apply csum_bits_ext; intros b _. apply csum_bits_ext; intros b' _.
  (* here the complement's "a, a'" are b, b' and its traced-out indices are a, a' *)
  apply csum_bits_ext; intros a _. apply csum_bits_ext; intros a' _.
  rewrite !merge_negb. unfold proj. cx_ring.
Qed.

Lemma csum_bits_real n (f : bits -> R) : csum_bits n (fun s => (f s, 0)) = (sum_bits n f, 0).
Proof. unfold csum_bits; cbn [fst snd]. rewrite sum_bits_const0. reflexivity. Qed.

Lemma nin_repeat_false n : nin (repeat false n) = O.
Proof. induction n; simpl; auto. Qed.
Lemma nout_repeat_false n : nout (repeat false n) = n.
Proof. unfold nout. induction n; simpl; auto. Qed.
Lemma merge_repeat_false n b : length b = n -> merge (repeat false n) [] b = b.
Proof.
  revert b; induction n as [|n IH]; intros [|y b] H; try discriminate; [reflexivity|].
  injection H as H. cbn [repeat merge]. rewrite IH by exact H. reflexivity.
Qed.
Lemma map_negb_repeat b n : map negb (repeat b n) = repeat (negb b) n.
Proof. induction n; simpl; [reflexivity | rewrite IHn; reflexivity]. Qed.

Lemma pure_empty_region psi n :
  purity (repeat false n) (proj psi) = (sum_bits n (pnorm2 psi) * sum_bits n (pnorm2 psi), 0).
Proof.
  unfold purity, rhoA. rewrite nin_repeat_false, nout_repeat_false, !csum_bits_0.
  rewrite (csum_bits_ext n _ (fun b => (pnorm2 psi b, 0))).
  - rewrite csum_bits_real. cx_ring.
  - intros b Hb. rewrite (merge_repeat_false n b Hb). apply proj_diag.
Qed.

Lemma pure_full_region psi n :
  purity (repeat true n) (proj psi) = (sum_bits n (pnorm2 psi) * sum_bits n (pnorm2 psi), 0).
Proof.
  rewrite pure_region_complement_symmetric, map_negb_repeat. apply pure_empty_region.
Qed.

(* ------------------------------------------------------------------ 4. tr rho_A^2 <= (tr rho)^2 for pure states *)
Lemma sum_bits_le n f g : (forall s, length s = n -> f s <= g s) -> sum_bits n f <= sum_bits n g.
Proof.
  intros H. assert (0 <= sum_bits n (fun s => g s - f s)).
  { apply sum_bits_nonneg; intros s Hs; pose proof (H s Hs); lra. }
  rewrite sum_bits_minus in H0. lra.
Qed.

Lemma quad_cs (a b P Q : R) :
  0 <= b -> (forall t s, 0 <= a - 2 * t * P - 2 * s * Q + (t * t + s * s) * b) -> P * P + Q * Q <= a * b.
Proof.
  intros Hb H. destruct (Req_dec b 0) as [Hb0|Hb0].
  - subst b. rewrite Rmult_0_r.
    destruct (Rle_dec (P * P + Q * Q) 0) as [|Hn]; [assumption|exfalso].
    assert (Hpos : 0 < P * P + Q * Q) by lra.
    pose proof (H (P * ((a + 1) / (2 * (P * P + Q * Q)))) (Q * ((a + 1) / (2 * (P * P + Q * Q))))) as H1.
    replace (a - 2 * (P * ((a + 1) / (2 * (P * P + Q * Q)))) * P - 2 * (Q * ((a + 1) / (2 * (P * P + Q * Q)))) * Q
             + (P * ((a + 1) / (2 * (P * P + Q * Q))) * (P * ((a + 1) / (2 * (P * P + Q * Q))))
                + Q * ((a + 1) / (2 * (P * P + Q * Q))) * (Q * ((a + 1) / (2 * (P * P + Q * Q))))) * 0)
      with (-1) in H1 by (field; lra).
    lra.
  - assert (Hbp : 0 < b) by lra.
    pose proof (H (P / b) (Q / b)) as H1.
    replace (a - 2 * (P / b) * P - 2 * (Q / b) * Q + (P / b * (P / b) + Q / b * (Q / b)) * b)
      with ((a * b - (P * P + Q * Q)) / b) in H1 by (field; lra).
    assert (0 <= (a * b - (P * P + Q * Q)) / b * b) by (apply Rmult_le_pos; lra).
    replace ((a * b - (P * P + Q * Q)) / b * b) with (a * b - (P * P + Q * Q)) in H0 by (field; lra).
    lra.
Qed.

(* finite Cauchy-Schwarz for complex vectors indexed by bit strings: |<x,y>|^2 <= |x|^2 |y|^2 *)
Lemma cauchy_schwarz_bits n (x y : bits -> C) :
  let ip := csum_bits n (fun s => cmul ROps (x s) (cconj ROps (y s))) in
  fst ip * fst ip + snd ip * snd ip <= sum_bits n (pnorm2 x) * sum_bits n (pnorm2 y).
Proof.
  cbv zeta. unfold csum_bits; cbn [fst snd].
  apply quad_cs.
  - apply sum_bits_nonneg; intros s _. unfold pnorm2. nra.
  - intros t u.
    rewrite <- !sum_bits_scal, <- !sum_bits_minus, <- sum_bits_plus.
    apply sum_bits_nonneg; intros s _. unfold pnorm2. rewrite cconj_R, cmul_R. cbn [fst snd].
    destruct (x s) as [a b]; destruct (y s) as [c d]; cbn [fst snd].
    replace (a * a + b * b - 2 * t * (a * c - b * - d) - 2 * u * (a * - d + b * c) + (t * t + u * u) * (c * c + d * d))
      with ((a - t * c + u * d) * (a - t * c + u * d) + (b - t * d - u * c) * (b - t * d - u * c)) by ring.
    pose proof (Rle_0_sqr (a - t * c + u * d)) as H1. pose proof (Rle_0_sqr (b - t * d - u * c)) as H2.
    unfold Rsqr in H1, H2. lra.
Qed.

Lemma csum_bits_cconj n f : csum_bits n (fun s => cconj ROps (f s)) = cconj ROps (csum_bits n f).
Proof.
  unfold csum_bits. rewrite cconj_R. cbn [fst snd]. f_equal.
  rewrite (sum_bits_ext n _ (fun s => (-1) * snd (f s))) by (intros; rewrite cconj_R; cbn [snd]; ring).
  rewrite sum_bits_scal. ring.
Qed.

Lemma rhoA_proj_hermitian psi A a a' : rhoA A (proj psi) a' a = cconj ROps (rhoA A (proj psi) a a').
Proof.
  unfold rhoA. rewrite <- csum_bits_cconj. apply csum_bits_ext; intros b _. unfold proj. cx_ring.
Qed.

Lemma renyi_nonneg_pure psi A :
  fst (purity A (proj psi)) <= sum_bits (length A) (pnorm2 psi) * sum_bits (length A) (pnorm2 psi).
Proof.
  set (N := fun a => sum_bits (nout A) (fun b => pnorm2 psi (merge A a b))).
  assert (Htot : sum_bits (length A) (pnorm2 psi) = sum_bits (nin A) N) by apply sum_bits_split.
  rewrite Htot.
  apply Rle_trans with (sum_bits (nin A) (fun a => sum_bits (nin A) (fun a' => N a * N a'))).
  - unfold purity, csum_bits at 1. cbn [fst].
    apply sum_bits_le; intros a _. unfold csum_bits at 1. cbn [fst].
    apply sum_bits_le; intros a' _.
    rewrite rhoA_proj_hermitian, cconj_R, cmul_R. cbn [fst snd].
    pose proof (cauchy_schwarz_bits (nout A) (fun b => psi (merge A a' b)) (fun b => psi (merge A a b))) as H.
    cbv zeta beta in H. unfold rhoA, proj.
    set (X := csum_bits (nout A) (fun b => cmul ROps (psi (merge A a' b)) (cconj ROps (psi (merge A a b))))) in *.
    rewrite (Rmult_comm (N a)).
    apply Rle_trans with (fst X * fst X + snd X * snd X); [apply Req_le; ring | exact H].
  - apply Req_le.
    rewrite (sum_bits_ext (nin A) _ (fun a => N a * sum_bits (nin A) N)) by (intros; apply sum_bits_scal).
    rewrite sum_bits_scal_r. reflexivity.
Qed.

(* the purity of a projector is real *)
Lemma purity_pure_real psi A : snd (purity A (proj psi)) = 0.
Proof.
  unfold purity, csum_bits at 1. cbn [snd].
  rewrite (sum_bits_ext (nin A) _ (fun _ => 0)); [apply sum_bits_const0|].
  intros a _. unfold csum_bits at 1. cbn [snd].
  rewrite (sum_bits_ext (nin A) _ (fun _ => 0)); [apply sum_bits_const0|].
  intros a' _. rewrite rhoA_proj_hermitian, cconj_R, cmul_R. cbn [fst snd]. ring.
Qed.

(* ------------------------------------------------------------------ 5. pairing inside a batch *)
Lemma roll1_snoc {X} (l : list X) x : roll1 (l ++ [x]) = x :: l.
Proof. unfold roll1. rewrite rev_app_distr. cbn [rev app]. rewrite rev_involutive. reflexivity. Qed.

Lemma roll1_length {X} (l : list X) : length (roll1 l) = length l.
Proof.
  destruct (rev l) as [|x r] eqn:E; unfold roll1; rewrite E.
  - rewrite <- (rev_involutive l), E. reflexivity.
  - rewrite <- (rev_involutive l), E. cbn [rev length]. rewrite app_length, !rev_length. simpl. lia.
Qed.

Lemma roll1_perm {X} (l : list X) : Permutation (roll1 l) l.
Proof.
  destruct l as [|y l'] using rev_ind; [reflexivity|].
  rewrite roll1_snoc. apply Permutation_cons_append.
Qed.

Lemma roll1_nth {X} (l : list X) d i : (i < length l)%nat ->
  nth i (roll1 l) d = nth ((i + length l - 1) mod length l) l d.
Proof.
  destruct l as [|y l'] using rev_ind; [simpl; lia|].
  clear IHl'. intros Hi. rewrite roll1_snoc, app_length in *. cbn [length] in *.
  replace (length l' + 1)%nat with (S (length l')) in * by lia.
  destruct i as [|i]; cbn [nth].
  - rewrite Nat.add_0_l. replace (S (length l') - 1)%nat with (length l') by lia.
    rewrite Nat.mod_small by lia. rewrite app_nth2 by lia. rewrite Nat.sub_diag. reflexivity.
  - replace (S i + S (length l') - 1)%nat with (i + 1 * S (length l'))%nat by lia.
    rewrite Nat.mod_add by lia. rewrite Nat.mod_small by lia. rewrite app_nth1 by lia. reflexivity.
Qed.

Lemma swap_apply_length st A rows : length (swap_apply ROps st A rows) = length rows.
Proof. unfold swap_apply. rewrite map_length, combine_length, roll1_length. apply Nat.min_id. Qed.

Lemma pairing_is_cyclic st A rows i : (i < length rows)%nat ->
  nth i (swap_apply ROps st A rows) 0 =
  swap_value ROps st (mask_of_sites (length (nth i rows [])) A)
    (nth i rows []) (nth ((i + length rows - 1) mod length rows) rows []).
Proof.
  intros Hi. unfold swap_apply.
  rewrite (map_combine_nth _ rows (roll1 rows) [] []). rewrite roll1_length, Nat.min_id.
  rewrite (nth_indep _ 0 ((fun i => swap_value ROps st (mask_of_sites (length (fst (nth i rows [], nth i (roll1 rows) []))) A)
      (fst (nth i rows [], nth i (roll1 rows) [])) (snd (nth i rows [], nth i (roll1 rows) []))) O))
    by (rewrite map_length, seq_length; exact Hi).
  rewrite (map_nth (fun i => swap_value ROps st (mask_of_sites (length (fst (nth i rows [], nth i (roll1 rows) []))) A)
      (fst (nth i rows [], nth i (roll1 rows) [])) (snd (nth i rows [], nth i (roll1 rows) []))) (seq 0 (length rows)) O i).
  rewrite seq_nth by exact Hi. cbn [Nat.add fst snd]. rewrite (roll1_nth rows [] i Hi). reflexivity.
Qed.

(* the region given as a list of site indices: the estimator theorem applies to its mask *)
Lemma swap_sites_is_mask s1 s2 A : swap_sites s1 s2 A = swap_mask (mask_of_sites (length s1) A) s1 s2.
Proof. reflexivity. Qed.

(* non-vacuity *)
Example swap_hypotheses_satisfiable :
  exists (rho : bits -> bits -> C) (p : bits -> R) (A : list bool),
    (forall s, length s = length A -> 0 < p s) /\ nin A = 1%nat /\ nout A = 1%nat.
Proof. exists (fun _ _ => (1, 0)), (fun _ => 1), [true; false]. repeat split. intros; lra. Qed.

(* ------------------------------------------------------------------ 4'. Gram-form (mixed) matrices
   rho(s,t) = sum_{k in bits m} Psi(s ++ k) conj(Psi(t ++ k)): the reduced state of a pure state on n + m sites.
   Its region purity is the purity of the pure state for the region padded with the m traced-out sites. *)
Definition gram (m : nat) (Psi : bits -> C) (s t : bits) : C :=
  csum_bits m (fun k => cmul ROps (Psi (s ++ k)) (cconj ROps (Psi (t ++ k)))).

Lemma sum_bits_app n m (f : bits -> R) :
  sum_bits (n + m) f = sum_bits n (fun s => sum_bits m (fun k => f (s ++ k))).
Proof.
  revert f; induction n as [|n IH]; intros f; [reflexivity|].
  cbn [Nat.add sum_bits]. rewrite (IH (fun s => f (false :: s))), (IH (fun s => f (true :: s))). reflexivity.
Qed.

Lemma csum_bits_app n m (f : bits -> C) :
  csum_bits (n + m) f = csum_bits n (fun s => csum_bits m (fun k => f (s ++ k))).
Proof.
  unfold csum_bits at 1 2. cbn [fst snd].
  rewrite (sum_bits_app n m (fun s => fst (f s))), (sum_bits_app n m (fun s => snd (f s))). reflexivity.
Qed.

Lemma nin_app A B : nin (A ++ B) = (nin A + nin B)%nat.
Proof. induction A as [|a A IH]; [reflexivity|]. destruct a; simpl; rewrite IH; reflexivity. Qed.

Lemma nin_pad A m : nin (A ++ repeat false m) = nin A.
Proof. rewrite nin_app, nin_repeat_false. lia. Qed.

Lemma nout_pad A m : nout (A ++ repeat false m) = (nout A + m)%nat.
Proof.
  unfold nout. rewrite map_app, nin_app, map_negb_repeat. cbn [negb]. f_equal.
  induction m as [|m IH]; [reflexivity|]. simpl. rewrite IH. reflexivity.
Qed.

Lemma merge_pad A m a b k :
  length a = nin A -> length b = nout A -> length k = m ->
  merge (A ++ repeat false m) a (b ++ k) = merge A a b ++ k.
Proof.
  unfold nout. revert a b; induction A as [|x A IH]; intros a b Ha Hb Hk.
  - destruct a; [|discriminate]. destruct b; [|discriminate]. cbn [app merge].
    subst m. clear. induction k as [|y k IH]; [reflexivity|]. cbn [length repeat merge]. rewrite IH. reflexivity.
  - destruct x; cbn [map negb nin Nat.add app merge] in *.
    + destruct a as [|x a]; [discriminate|]. injection Ha as Ha. rewrite (IH a b Ha Hb Hk). reflexivity.
    + destruct b as [|y b]; [discriminate|]. injection Hb as Hb. cbn [app]. rewrite (IH a b Ha Hb Hk). reflexivity.
Qed.

Lemma rhoA_gram A m Psi a a' : length a = nin A -> length a' = nin A ->
  rhoA A (gram m Psi) a a' = rhoA (A ++ repeat false m) (proj Psi) a a'.
Proof.
  intros Ha Ha'. unfold rhoA, gram. rewrite nout_pad, csum_bits_app.
  apply csum_bits_ext; intros b Hb. apply csum_bits_ext; intros k Hk.
  rewrite !merge_pad by assumption. reflexivity.
Qed.

Lemma purity_gram A m Psi : purity A (gram m Psi) = purity (A ++ repeat false m) (proj Psi).
Proof.
  unfold purity. rewrite nin_pad.
  apply csum_bits_ext; intros a Ha. apply csum_bits_ext; intros a' Ha'.
  rewrite !rhoA_gram by assumption. reflexivity.
Qed.

Lemma gram_trace n m Psi :
  sum_bits n (fun s => fst (gram m Psi s s)) = sum_bits (n + m) (pnorm2 Psi).
Proof.
  rewrite sum_bits_app. apply sum_bits_ext; intros s _.
  unfold gram, csum_bits; cbn [fst]. apply sum_bits_ext; intros k _.
  change (cmul ROps (Psi (s ++ k)) (cconj ROps (Psi (s ++ k)))) with (proj Psi (s ++ k) (s ++ k)).
  rewrite proj_diag. reflexivity.
Qed.

(* tr rho_A^2 <= (tr rho)^2 for every Gram-form matrix *)
Lemma renyi_nonneg_gram A m Psi :
  fst (purity A (gram m Psi)) <=
  sum_bits (length A) (fun s => fst (gram m Psi s s)) * sum_bits (length A) (fun s => fst (gram m Psi s s)).
Proof.
  rewrite purity_gram, gram_trace.
  pose proof (renyi_nonneg_pure Psi (A ++ repeat false m)) as H.
  rewrite app_length, repeat_length in H. exact H.
Qed.

(* ------------------------------------------------------------------ instantiation at the RBM states of States.v *)
Lemma swap_estimates_purity_complex_wavefunction am ph A :
  sum_bits (length A) (fun s1 => sum_bits (length A) (fun s2 =>
    probability ROps am s1 1 * probability ROps am s2 1 * swap_value ROps (pure_state (cplx_psi ROps am ph)) A s1 s2)) =
  fst (purity A (proj (cplx_psi ROps am ph))).
Proof.
  rewrite <- (swap_estimates_purity_pure (cplx_psi ROps am ph) A) by (intros; apply cplx_psi_nz).
  apply sum_bits_ext; intros s1 _. apply sum_bits_ext; intros s2 _. rewrite !pnorm2_cplx. reflexivity.
Qed.

Lemma swap_estimates_purity_positive_wavefunction am A :
  sum_bits (length A) (fun s1 => sum_bits (length A) (fun s2 =>
    probability ROps am s1 1 * probability ROps am s2 1 * swap_value ROps (pure_state (pos_psi ROps am)) A s1 s2)) =
  fst (purity A (proj (pos_psi ROps am))).
Proof.
  rewrite <- (swap_estimates_purity_pure (pos_psi ROps am) A) by (intros; apply pos_psi_nz).
  apply sum_bits_ext; intros s1 _. apply sum_bits_ext; intros s2 _. rewrite !pnorm2_pos_psi. reflexivity.
Qed.

Lemma swap_estimates_purity_density_matrix am ph A :
  sum_bits (length A) (fun s1 => sum_bits (length A) (fun s2 =>
    dm_probability ROps am s1 1 * dm_probability ROps am s2 1 *
    swap_value ROps (mixed_state ROps (dm_rho ROps am ph) (fun v => dm_probability ROps am v 1)) A s1 s2)) =
  fst (purity A (dm_rho ROps am ph)).
Proof.
  apply (swap_estimates_purity (dm_rho ROps am ph) (fun v => dm_probability ROps am v 1) A).
  intros; apply dm_probability_pos.
Qed.
