(* Rho.v — C02: the density matrix of the model (States.dm_rho, the code's
   exp(Gamma+ + Re Pi) (cos,sin)(Gamma- + Im Pi)) is the partial trace over the auxiliary
   units of the purified two-network state; hence Hermitian, positive semidefinite, with the
   reported probabilities on the diagonal and the reported normalisation as trace.
   Specification side: Coquelicot's C = R * R (Cplus, Cmult, Cconj). *)
From Coq Require Import List ZArith Bool Reals Lra Lia.
From Coquelicot Require Import Complex.
From QModel Require Import Num Bits Rbm States.
From QTheory Require Import RInst SumBits Born Atan2.
Import ListNotations.
Open Scope R_scope.

(* ------------------------------------------------------------------ complex layer *)
Definition polar (r t : R) : C := (r * cos t, r * sin t).
Definition cexp (z : C) : C := polar (exp (fst z)) (snd z).
Definition cnorm2 (z : C) : R := fst z * fst z + snd z * snd z.

Fixpoint csum_bits (n : nat) (f : bits -> C) : C :=
  match n with
  | O => f []
  | S m => Cplus (csum_bits m (fun s => f (false :: s))) (csum_bits m (fun s => f (true :: s)))
  end.

Fixpoint cprod (l : list C) : C :=
  match l with [] => RtoC 1 | z :: r => Cmult z (cprod r) end.

Lemma C_eq (a b : C) : fst a = fst b -> snd a = snd b -> a = b.
Proof. destruct a, b; simpl; intros -> ->; reflexivity. Qed.

Lemma polar_mult r1 t1 r2 t2 :
  Cmult (polar r1 t1) (polar r2 t2) = polar (r1 * r2) (t1 + t2).
Proof. unfold polar, Cmult; cbn [fst snd]. rewrite cos_plus, sin_plus. apply C_eq; cbn [fst snd]; ring. Qed.

Lemma polar_conj r t : Cconj (polar r t) = polar r (- t).
Proof. unfold polar, Cconj; cbn [fst snd]. rewrite cos_neg, sin_neg. apply C_eq; cbn [fst snd]; ring. Qed.

Lemma polar_1_0 : polar 1 0 = RtoC 1.
Proof. unfold polar, RtoC. rewrite cos_0, sin_0. apply C_eq; cbn [fst snd]; ring. Qed.

Lemma cexp_0 : cexp (0, 0) = RtoC 1.
Proof. unfold cexp; cbn [fst snd]. rewrite exp_0. apply polar_1_0. Qed.

Lemma cexp_plus a b c d : cexp (a + b, c + d) = Cmult (cexp (a, c)) (cexp (b, d)).
Proof. unfold cexp; cbn [fst snd]. rewrite polar_mult, exp_plus. reflexivity. Qed.

Lemma Cmult_conj_norm2 z : Cmult z (Cconj z) = (cnorm2 z, 0).
Proof. destruct z as [a b]. unfold Cmult, Cconj, cnorm2; cbn [fst snd]. apply C_eq; cbn [fst snd]; ring. Qed.

Lemma Cconj_mult a b : Cconj (Cmult a b) = Cmult (Cconj a) (Cconj b).
Proof. destruct a, b. unfold Cmult, Cconj; cbn [fst snd]. apply C_eq; cbn [fst snd]; ring. Qed.

Lemma Cconj_plus a b : Cconj (Cplus a b) = Cplus (Cconj a) (Cconj b).
Proof. destruct a, b. unfold Cplus, Cconj; cbn [fst snd]. apply C_eq; cbn [fst snd]; ring. Qed.

Lemma Cconj_invol a : Cconj (Cconj a) = a.
Proof. destruct a. unfold Cconj; cbn [fst snd]. apply C_eq; cbn [fst snd]; ring. Qed.

Lemma csum_bits_ext n f g : (forall s, length s = n -> f s = g s) -> csum_bits n f = csum_bits n g.
Proof.
  revert f g; induction n as [|n IH]; simpl; intros f g H; [apply H; reflexivity|].
  f_equal; apply IH; intros s Hs; apply H; simpl; congruence.
Qed.

Lemma csum_bits_plus n f g :
  csum_bits n (fun s => Cplus (f s) (g s)) = Cplus (csum_bits n f) (csum_bits n g).
Proof. revert f g; induction n as [|n IH]; simpl; intros; [reflexivity | rewrite !IH; ring]. Qed.

Lemma csum_bits_scal n c f : csum_bits n (fun s => Cmult c (f s)) = Cmult c (csum_bits n f).
Proof. revert f; induction n as [|n IH]; simpl; intros; [reflexivity | rewrite !IH; ring]. Qed.

Lemma csum_bits_scal_r n c f : csum_bits n (fun s => Cmult (f s) c) = Cmult (csum_bits n f) c.
Proof. revert f; induction n as [|n IH]; simpl; intros; [reflexivity | rewrite !IH; ring]. Qed.

Lemma csum_bits_conj n f : Cconj (csum_bits n f) = csum_bits n (fun s => Cconj (f s)).
Proof. revert f; induction n as [|n IH]; simpl; intros; [reflexivity | rewrite Cconj_plus, !IH; reflexivity]. Qed.

Lemma csum_bits_swap n m (f : bits -> bits -> C) :
  csum_bits n (fun s => csum_bits m (fun t => f s t)) = csum_bits m (fun t => csum_bits n (fun s => f s t)).
Proof.
  revert f; induction n as [|n IH]; simpl; intros f; [reflexivity|].
  rewrite !IH, <- csum_bits_plus. reflexivity.
Qed.

Lemma csum_bits_fst n f : fst (csum_bits n f) = sum_bits n (fun s => fst (f s)).
Proof. revert f; induction n as [|n IH]; simpl; intros; [reflexivity | rewrite !IH; reflexivity]. Qed.

Lemma csum_bits_snd n f : snd (csum_bits n f) = sum_bits n (fun s => snd (f s)).
Proof. revert f; induction n as [|n IH]; simpl; intros; [reflexivity | rewrite !IH; reflexivity]. Qed.

(* exp(sum R) cis(sum I) = prod_k exp(R_k) cis(I_k) *)
Lemma polar_sum_list {A} (l : list A) (fr fi : A -> R) :
  polar (exp (sum ROps (map fr l))) (sum ROps (map fi l)) =
  cprod (map (fun a => polar (exp (fr a)) (fi a)) l).
Proof.
  induction l as [|a l IH]; cbn [map sum cprod n0 nadd ROps].
  - rewrite exp_0. apply polar_1_0.
  - rewrite exp_plus, <- polar_mult, IH. reflexivity.
Qed.

(* complex marginalisation: prod_k (1 + exp z_k) = sum_{a in bits} exp(sum_k a_k z_k) *)
Lemma cmarginal (l : list (R * R)) :
  cprod (map (fun xy => Cplus (RtoC 1) (cexp xy)) l) =
  csum_bits (length l) (fun a => cexp (dotb ROps (map fst l) a, dotb ROps (map snd l) a)).
Proof.
  induction l as [|[x y] l IH].
  - cbn [map cprod length csum_bits dotb n0 ROps]. symmetry; apply cexp_0.
  - cbn [map cprod length csum_bits dotb fst snd n0 nadd ROps]. rewrite IH.
    rewrite (csum_bits_ext _
      (fun s => cexp (0 + dotb ROps (map fst l) s, 0 + dotb ROps (map snd l) s))
      (fun s => cexp (dotb ROps (map fst l) s, dotb ROps (map snd l) s)))
      by (intros; rewrite !Rplus_0_l; reflexivity).
    rewrite (csum_bits_ext _
      (fun s => cexp (x + dotb ROps (map fst l) s, y + dotb ROps (map snd l) s))
      (fun s => Cmult (cexp (x, y)) (cexp (dotb ROps (map fst l) s, dotb ROps (map snd l) s))))
      by (intros; apply cexp_plus).
    rewrite csum_bits_scal. ring.
Qed.

(* ------------------------------------------------------------------ one auxiliary unit *)
(* the pair (1 + e^x cos y, e^x sin y) = 1 + exp(x + i y) is not the origin *)
Definition pi_guard (xy : R * R) : Prop :=
  1 + exp (fst xy) * cos (snd xy) <> 0 \/ exp (fst xy) * sin (snd xy) <> 0.

(* the singular points are exactly x = 0, cos y = -1 (y = pi mod 2 pi) *)
Lemma pi_guard_iff xy : pi_guard xy <-> ~ (fst xy = 0 /\ cos (snd xy) = -1).
Proof.
  destruct xy as [x y]; unfold pi_guard; cbn [fst snd].
  pose proof (sin2_cos2 y) as H; unfold Rsqr in H. pose proof (exp_pos x) as Hx.
  split.
  - intros Hg [-> Hc]. rewrite exp_0, Hc in Hg.
    assert (sin y = 0) by nra. destruct Hg as [Hg|Hg]; apply Hg; [lra | rewrite H0; ring].
  - intros Hn.
    destruct (Req_dec (sin y) 0) as [Hs|Hs].
    + left. intros Hc. apply Hn.
      assert (Hcc : cos y = 1 \/ cos y = -1) by (rewrite Hs in H; assert (Hq : (cos y - 1) * (cos y + 1) = 0) by lra; apply Rmult_integral in Hq; lra).
      destruct Hcc as [Hcc|Hcc]; rewrite Hcc in Hc; [lra|].
      split; [|exact Hcc]. assert (He : exp x = 1) by lra.
      rewrite <- exp_0 in He. apply exp_inv in He. exact He.
    + right. apply Rmult_integral_contrapositive_currified; lra.
Qed.

Lemma pi_guard_x_nonzero xy : fst xy <> 0 -> pi_guard xy.
Proof. intros H. apply pi_guard_iff. intros [H0 _]. contradiction. Qed.

Lemma pi_guard_y_zero x : pi_guard (x, 0).
Proof. apply pi_guard_iff. cbn [fst snd]. rewrite cos_0. intros [_ H]. lra. Qed.

(* the guard is symmetric under (v,vp) -> (vp,v), i.e. y -> -y *)
Lemma pi_guard_neg x y : pi_guard (x, y) -> pi_guard (x, - y).
Proof. rewrite !pi_guard_iff. cbn [fst snd]. rewrite cos_neg. tauto. Qed.

Lemma sqrt_exp a : sqrt (exp a) = exp (a / 2).
Proof.
  apply sqrt_lem_1; [left; apply exp_pos | left; apply exp_pos |].
  rewrite <- exp_plus. f_equal. field.
Qed.

Lemma pi_modulus_sq x y :
  1 + 2 * exp x * cos y + exp (2 * x) =
  (1 + exp x * cos y) * (1 + exp x * cos y) + (exp x * sin y) * (exp x * sin y).
Proof.
  pose proof (sin2_cos2 y) as H; unfold Rsqr in H.
  replace (2 * x) with (x + x) by ring. rewrite exp_plus.
  replace ((1 + exp x * cos y) * (1 + exp x * cos y) + exp x * sin y * (exp x * sin y))
    with (1 + 2 * exp x * cos y + exp x * exp x * (sin y * sin y + cos y * cos y)) by ring.
  rewrite H. ring.
Qed.

(* KEY IDENTITY per auxiliary unit:  exp(pi_real1 + i pi_imag1) = 1 + exp(x + i y) *)
Lemma pi_unit xy : pi_guard xy ->
  polar (exp (pi_real1 ROps xy)) (pi_imag1 ROps xy) = Cplus (RtoC 1) (cexp xy).
Proof.
  destruct xy as [x y]. unfold pi_guard, pi_real1, pi_imag1. cbn [fst snd].
  cbn [nln nsqrt nadd nmul nexp ncos nsin natan2 n1 ROps]. rewrite two_R.
  intros Hg. rewrite pi_modulus_sq.
  set (X := 1 + exp x * cos y) in *. set (Y := exp x * sin y) in *.
  assert (Hpos : 0 < X * X + Y * Y) by (destruct Hg; nra).
  rewrite exp_ln by (apply sqrt_lt_R0; exact Hpos).
  destruct (Ratan2_polar X Y Hg) as [Hc Hs].
  unfold cexp, polar, Cplus, RtoC; cbn [fst snd]. rewrite Hc, Hs.
  apply C_eq; cbn [fst snd]; unfold X, Y; ring.
Qed.

(* under y -> -y the modulus part is unchanged and the unit vector is conjugated: no guard *)
Lemma pi_real1_neg x y : pi_real1 ROps (x, - y) = pi_real1 ROps (x, y).
Proof. unfold pi_real1. cbn [ncos ROps]. rewrite cos_neg. reflexivity. Qed.

Lemma pi_imag1_neg x y :
  cos (pi_imag1 ROps (x, - y)) = cos (pi_imag1 ROps (x, y)) /\
  sin (pi_imag1 ROps (x, - y)) = - sin (pi_imag1 ROps (x, y)).
Proof.
  unfold pi_imag1. cbn [natan2 nmul nadd nexp ncos nsin n1 ROps]. rewrite cos_neg, sin_neg.
  replace (exp x * - sin y) with (- (exp x * sin y)) by ring. apply Ratan2_neg_cis.
Qed.

(* ------------------------------------------------------------------ list facts *)
Lemma map_fst_combine {A B} (l : list A) (l' : list B) :
  length l = length l' -> map fst (combine l l') = l.
Proof. revert l'; induction l as [|a l IH]; intros [|b l'] H; try discriminate; [reflexivity|]. simpl. f_equal. apply IH. simpl in H; lia. Qed.

Lemma map_snd_combine {A B} (l : list A) (l' : list B) :
  length l = length l' -> map snd (combine l l') = l'.
Proof. revert l'; induction l as [|a l IH]; intros [|b l'] H; try discriminate; [reflexivity|]. simpl. f_equal. apply IH. simpl in H; lia. Qed.

Lemma vadd_length (xs ys : list R) : length (vadd ROps xs ys) = Nat.min (length xs) (length ys).
Proof. unfold vadd. rewrite map_length, combine_length. reflexivity. Qed.

Lemma vsub_length (xs ys : list R) : length (vsub ROps xs ys) = Nat.min (length xs) (length ys).
Proof. unfold vsub. rewrite map_length, combine_length. reflexivity. Qed.

Lemma matvecb_length (U : list (list R)) v : length (matvecb ROps U v) = length U.
Proof. unfold matvecb. apply map_length. Qed.

Lemma linearb_length' (W : list (list R)) c v :
  length (linearb ROps W c v) = Nat.min (length W) (length c).
Proof. unfold linearb. rewrite map_length, combine_length. reflexivity. Qed.

Lemma vadd_comm (xs ys : list R) : vadd ROps xs ys = vadd ROps ys xs.
Proof.
  unfold vadd. revert ys; induction xs as [|x xs IH]; intros [|y ys]; cbn [combine map fst snd]; try reflexivity.
  rewrite IH. f_equal. cbn [nadd ROps]. ring.
Qed.

Lemma vsub_anti (xs ys : list R) : vsub ROps xs ys = map Ropp (vsub ROps ys xs).
Proof.
  unfold vsub. revert ys; induction xs as [|x xs IH]; intros [|y ys]; cbn [combine map fst snd]; try reflexivity.
  rewrite IH. f_equal. cbn [nsub ROps]. ring.
Qed.

Lemma map_half_opp (l : list R) : map (half ROps) (map Ropp l) = map Ropp (map (half ROps) l).
Proof. rewrite !map_map. apply map_ext. intros a. rewrite !half_R. field. Qed.

Lemma combine_map_opp_r (l l' : list R) :
  combine l (map Ropp l') = map (fun xy => (fst xy, - snd xy)) (combine l l').
Proof. revert l'; induction l as [|a l IH]; intros [|b l']; cbn [combine map fst snd]; try reflexivity. rewrite IH. reflexivity. Qed.

(* pi_args (vp, v) = pi_args (v, vp) with every y negated *)
Lemma pi_args_swap am ph v vp :
  pi_args ROps am ph vp v = map (fun xy => (fst xy, - snd xy)) (pi_args ROps am ph v vp).
Proof.
  unfold pi_args.
  rewrite (vadd_comm (linearb ROps (pU am) (pd am) vp)).
  rewrite (vsub_anti (matvecb ROps (pU ph) vp)), map_half_opp.
  apply combine_map_opp_r.
Qed.

Lemma pi_args_length am ph v vp :
  length (pU am) = length (pd am) -> length (pU ph) = length (pU am) ->
  length (pi_args ROps am ph v vp) = length (pd am).
Proof.
  intros H1 H2. unfold pi_args.
  rewrite combine_length, !map_length, vadd_length, vsub_length, !linearb_length', !matvecb_length.
  lia.
Qed.

Lemma pi_args_fst am ph v vp :
  length (pU am) = length (pd am) -> length (pU ph) = length (pU am) ->
  map fst (pi_args ROps am ph v vp) =
  map (half ROps) (vadd ROps (linearb ROps (pU am) (pd am) v) (linearb ROps (pU am) (pd am) vp)).
Proof.
  intros H1 H2. unfold pi_args. apply map_fst_combine.
  rewrite !map_length, vadd_length, vsub_length, !linearb_length', !matvecb_length. lia.
Qed.

Lemma pi_args_snd am ph v vp :
  length (pU am) = length (pd am) -> length (pU ph) = length (pU am) ->
  map snd (pi_args ROps am ph v vp) =
  map (half ROps) (vsub ROps (matvecb ROps (pU ph) v) (matvecb ROps (pU ph) vp)).
Proof.
  intros H1 H2. unfold pi_args. apply map_snd_combine.
  rewrite !map_length, vadd_length, vsub_length, !linearb_length', !matvecb_length. lia.
Qed.

(* sum_k a_k x_k with x = (U v + d + U vp + d)/2 *)
Lemma dotb_xs (U : list (list R)) d v vp a : length U = length d ->
  dotb ROps (map (half ROps) (vadd ROps (linearb ROps U d v) (linearb ROps U d vp))) a =
  dotb ROps d a + (dotb ROps (matvecb ROps U v) a + dotb ROps (matvecb ROps U vp) a) / 2.
Proof.
  unfold vadd, linearb, matvecb.
  revert d a; induction U as [|u U IH]; intros [|d0 d] a H; try discriminate.
  - destruct a; cbn [combine map dotb n0 ROps]; lra.
  - destruct a as [|b a]; [cbn [combine map dotb n0 ROps]; lra|].
    cbn [combine map fst snd dotb]. rewrite IH by (simpl in H; lia).
    cbn [nadd n0 ROps]. rewrite half_R. destruct b; lra.
Qed.

(* sum_k a_k y_k with y = (U v - U vp)/2 *)
Lemma dotb_ys (U : list (list R)) v vp a :
  dotb ROps (map (half ROps) (vsub ROps (matvecb ROps U v) (matvecb ROps U vp))) a =
  (dotb ROps (matvecb ROps U v) a - dotb ROps (matvecb ROps U vp) a) / 2.
Proof.
  unfold vsub, matvecb.
  revert a; induction U as [|u U IH]; intros a.
  - destruct a; cbn [combine map dotb n0 ROps]; lra.
  - destruct a as [|b a]; [cbn [combine map dotb n0 ROps]; lra|].
    cbn [combine map fst snd dotb]. rewrite IH.
    cbn [nadd nsub n0 ROps]. rewrite half_R. destruct b; lra.
Qed.

(* ------------------------------------------------------------------ the purified state *)
(* Psi(sigma, a) = sqrt(p_lambda(sigma,a)) exp(i phi_mu(sigma,a)),
   p_lambda = exp(-E_lambda(sigma,a)) (hidden units traced), phi_mu = -E_mu(sigma,a)/2 *)
Definition Psi (am ph : prbm (T:=R)) (v a : bits) : C :=
  polar (sqrt (exp (- p_eff_energy_va ROps am v a))) (- p_eff_energy_va ROps ph v a / 2).

Definition partial_trace (am ph : prbm (T:=R)) (v vp : bits) : C :=
  csum_bits (length (pd am)) (fun a => Cmult (Psi am ph v a) (Cconj (Psi am ph vp a))).

Lemma rho_polar am ph v vp :
  dm_rho ROps am ph v vp =
  polar (exp (p_gamma ROps am true v vp + sum ROps (map (pi_real1 ROps) (pi_args ROps am ph v vp))))
        (p_gamma ROps ph false v vp + sum ROps (map (pi_imag1 ROps) (pi_args ROps am ph v vp))).
Proof. reflexivity. Qed.

Lemma neg_energy_va (r : prbm) v a :
  - p_eff_energy_va ROps r v a =
  p_vis_term ROps r v + dotb ROps (pd r) a + dotb ROps (matvecb ROps (pU r) v) a.
Proof. unfold p_eff_energy_va, p_vis_term. cbn [nopp nadd ROps]. ring. Qed.

Lemma gamma_R (r : prbm) plus v vp :
  p_gamma ROps r plus v vp =
  (p_vis_term ROps r v + (if plus then p_vis_term ROps r vp else - p_vis_term ROps r vp)) / 2.
Proof. unfold p_gamma. rewrite half_R. cbn [nadd nopp ROps]. destruct plus; reflexivity. Qed.

(* rho = Gamma-part times the product over auxiliary units of (1 + exp z_k) *)
Lemma rho_is_product am ph v vp :
  Forall pi_guard (pi_args ROps am ph v vp) ->
  dm_rho ROps am ph v vp =
  Cmult (polar (exp (p_gamma ROps am true v vp)) (p_gamma ROps ph false v vp))
        (cprod (map (fun xy => Cplus (RtoC 1) (cexp xy)) (pi_args ROps am ph v vp))).
Proof.
  intros Hg. rewrite rho_polar, exp_plus, <- polar_mult, polar_sum_list. f_equal.
  induction Hg as [|xy l Hxy Hl IH]; [reflexivity|].
  cbn [map cprod]. rewrite IH, pi_unit by exact Hxy. reflexivity.
Qed.

(* 2. rho is the partial trace over the auxiliary units of |Psi><Psi| *)
Theorem rho_is_partial_trace am ph v vp :
  length (pU am) = length (pd am) -> length (pU ph) = length (pU am) ->
  Forall pi_guard (pi_args ROps am ph v vp) ->
  dm_rho ROps am ph v vp = partial_trace am ph v vp.
Proof.
  intros H1 H2 Hg. rewrite (rho_is_product am ph v vp Hg), cmarginal.
  rewrite (pi_args_length am ph v vp H1 H2), (pi_args_fst am ph v vp H1 H2), (pi_args_snd am ph v vp H1 H2).
  rewrite <- csum_bits_scal. unfold partial_trace. apply csum_bits_ext. intros a _.
  unfold Psi. rewrite polar_conj, !polar_mult, !sqrt_exp, <- !exp_plus.
  unfold cexp; cbn [fst snd]. rewrite polar_mult, <- exp_plus.
  rewrite (dotb_xs _ _ _ _ _ H1), dotb_ys, !neg_energy_va, !gamma_R.
  f_equal; [f_equal|]; field.
Qed.

(* ------------------------------------------------------------------ 3. Hermiticity (unconditional) *)
Lemma cis_sum_conj {A} (l : list A) (f g : A -> R) :
  (forall a, cos (g a) = cos (f a) /\ sin (g a) = - sin (f a)) ->
  cos (sum ROps (map g l)) = cos (sum ROps (map f l)) /\
  sin (sum ROps (map g l)) = - sin (sum ROps (map f l)).
Proof.
  intros H. induction l as [|a l [IHc IHs]]; cbn [map sum n0 nadd ROps].
  - rewrite sin_0. split; [reflexivity | ring].
  - destruct (H a) as [Hc Hs]. rewrite !cos_plus, !sin_plus, Hc, Hs, IHc, IHs. split; ring.
Qed.

Theorem rho_hermitian am ph v vp :
  dm_rho ROps am ph vp v = Cconj (dm_rho ROps am ph v vp).
Proof.
  rewrite !rho_polar, polar_conj, pi_args_swap, !map_map.
  set (l := pi_args ROps am ph v vp).
  assert (HR : sum ROps (map (fun x => pi_real1 ROps (fst x, - snd x)) l) = sum ROps (map (pi_real1 ROps) l)).
  { apply sum_map_ext. intros [x y] _. apply pi_real1_neg. }
  rewrite HR.
  destruct (cis_sum_conj l (pi_imag1 ROps) (fun x => pi_imag1 ROps (fst x, - snd x))) as [Hc Hs].
  { intros [x y]. apply pi_imag1_neg. }
  assert (HGp : p_gamma ROps am true vp v = p_gamma ROps am true v vp) by (rewrite !gamma_R; field).
  assert (HGm : p_gamma ROps ph false vp v = - p_gamma ROps ph false v vp) by (rewrite !gamma_R; field).
  rewrite HGp, HGm. unfold polar.
  rewrite !cos_plus, !sin_plus, Hc, Hs, !cos_neg, !sin_neg, cos_plus, sin_plus.
  apply C_eq; cbn [fst snd]; ring.
Qed.

(* ------------------------------------------------------------------ 5. diagonal *)
Lemma pi_real1_y0 x : pi_real1 ROps (x, 0) = softplus ROps x.
Proof.
  unfold pi_real1. cbn [nln nsqrt nadd nmul nexp ncos n1 ROps]. rewrite two_R, softplus_R, cos_0.
  replace (2 * x) with (x + x) by ring. rewrite exp_plus.
  replace (1 + 2 * exp x * 1 + exp x * exp x) with ((1 + exp x) * (1 + exp x)) by ring.
  rewrite sqrt_square; [reflexivity | left; apply one_plus_exp_pos].
Qed.

Lemma pi_imag1_y0 x : pi_imag1 ROps (x, 0) = 0.
Proof.
  unfold pi_imag1. cbn [natan2 nadd nmul nexp ncos nsin n1 ROps]. rewrite sin_0, cos_0, Rmult_0_r, Rmult_1_r.
  apply Ratan2_0_pos, one_plus_exp_pos.
Qed.

Lemma half_vadd_self (m : list R) : map (half ROps) (vadd ROps m m) = m.
Proof.
  unfold vadd. induction m as [|x m IH]; [reflexivity|].
  cbn [combine map fst snd]. rewrite IH. f_equal. rewrite half_R. cbn [nadd ROps]. field.
Qed.

Lemma half_vsub_self (q : list R) : map (half ROps) (vsub ROps q q) = map (fun _ => 0) q.
Proof.
  unfold vsub. induction q as [|x q IH]; [reflexivity|].
  cbn [combine map fst snd]. rewrite IH. f_equal. rewrite half_R. cbn [nsub ROps]. field.
Qed.

Lemma diag_sums (m q : list R) : length m = length q ->
  sum ROps (map (pi_real1 ROps) (combine m (map (fun _ => 0) q))) = sum ROps (map (softplus ROps) m) /\
  sum ROps (map (pi_imag1 ROps) (combine m (map (fun _ => 0) q))) = 0.
Proof.
  revert q; induction m as [|x m IH]; intros [|y q] H; try discriminate.
  - split; reflexivity.
  - destruct (IH q) as [IH1 IH2]; [simpl in H; lia|].
    cbn [map combine sum]. rewrite IH1, IH2, pi_real1_y0, pi_imag1_y0. cbn [nadd ROps]. split; [reflexivity | ring].
Qed.

Theorem rho_diag_is_probability (am ph : prbm (T:=R)) v :
  length (pU am) = length (pd am) -> length (pU ph) = length (pU am) ->
  dm_rho ROps am ph v v = dm_rho_diag ROps am v /\
  dm_rho_diag ROps am v = (exp (- p_eff_energy ROps am v), 0).
Proof.
  intros H1 H2.
  assert (Hd : dm_rho_diag ROps am v = (exp (- p_eff_energy ROps am v), 0)).
  { unfold dm_rho_diag, dm_probability. cbn [ndiv nexp nopp n1 n0 ROps]. f_equal. field. }
  split; [|exact Hd]. rewrite Hd, rho_polar.
  unfold pi_args. rewrite half_vadd_self, half_vsub_self.
  destruct (diag_sums (linearb ROps (pU am) (pd am) v) (matvecb ROps (pU ph) v)) as [HR HI].
  { rewrite linearb_length', matvecb_length. lia. }
  rewrite HR, HI, !gamma_R. unfold polar.
  replace ((p_vis_term ROps ph v + - p_vis_term ROps ph v) / 2 + 0) with 0 by field.
  rewrite cos_0, sin_0. unfold p_eff_energy, p_vis_term. cbn [nopp nadd ROps].
  apply C_eq; cbn [fst snd]; [|ring]. rewrite Rmult_1_r. f_equal. field.
Qed.

(* the reported probability is the auxiliary-unit marginal of p_lambda(sigma, a) *)
Corollary probability_is_aux_marginal (am ph : prbm (T:=R)) v :
  length (pU am) = length (pd am) -> length (pU ph) = length (pU am) ->
  dm_probability ROps am v 1 =
  sum_bits (length (pd am)) (fun a => exp (- p_eff_energy_va ROps am v a)).
Proof.
  intros H1 H2.
  assert (Hg : Forall pi_guard (pi_args ROps am ph v v)).
  { unfold pi_args. rewrite half_vadd_self, half_vsub_self.
    generalize (linearb ROps (pU am) (pd am) v) as m. generalize (matvecb ROps (pU ph) v) as q.
    intros q m; revert q; induction m as [|x m IH]; intros [|y q]; cbn [map combine]; constructor.
    - apply pi_guard_y_zero.
    - apply IH. }
  pose proof (rho_is_partial_trace am ph v v H1 H2 Hg) as Hpt.
  destruct (rho_diag_is_probability am ph v H1 H2) as [Hd _]. rewrite Hd in Hpt.
  apply (f_equal fst) in Hpt. unfold dm_rho_diag in Hpt. cbn [fst] in Hpt.
  change (dm_probability ROps am v (n1 ROps)) with (dm_probability ROps am v 1) in Hpt. rewrite Hpt.
  unfold partial_trace. rewrite csum_bits_fst. apply sum_bits_ext. intros a _.
  rewrite Cmult_conj_norm2. cbn [fst]. unfold Psi, polar, cnorm2; cbn [fst snd].
  set (r := sqrt (exp (- p_eff_energy_va ROps am v a))). set (t := - p_eff_energy_va ROps ph v a / 2).
  pose proof (sin2_cos2 t) as Ht; unfold Rsqr in Ht.
  replace (r * cos t * (r * cos t) + r * sin t * (r * sin t)) with (r * r * (sin t * sin t + cos t * cos t)) by ring.
  rewrite Ht, Rmult_1_r. unfold r. apply sqrt_sqrt. left; apply exp_pos.
Qed.

(* ------------------------------------------------------------------ 6. trace *)
Theorem rho_trace_is_normalization (am ph : prbm (T:=R)) n :
  length (pU am) = length (pd am) -> length (pU ph) = length (pU am) ->
  dm_normalization ROps am (all_bits n) = sum_bits n (fun v => fst (dm_rho ROps am ph v v)) /\
  dm_normalization ROps am (all_bits n) = sum_bits n (fun v => dm_probability ROps am v 1) /\
  0 < dm_normalization ROps am (all_bits n).
Proof.
  intros H1 H2. unfold dm_normalization, p_partition. cbn [nexp nln nopp ROps].
  rewrite (sum_all_bits n (fun v => exp (- p_eff_energy ROps am v))).
  assert (Hp : 0 < sum_bits n (fun v => exp (- p_eff_energy ROps am v))) by (apply sum_bits_pos; intros; apply exp_pos).
  rewrite exp_ln by exact Hp. repeat split; [| |exact Hp].
  - apply sum_bits_ext. intros v _.
    destruct (rho_diag_is_probability am ph v H1 H2) as [-> ->]. reflexivity.
  - apply sum_bits_ext. intros v _. unfold dm_probability. cbn [ndiv nexp nopp n1 ROps]. field.
Qed.

(* the normalised density matrix rho / Z has unit trace *)
Corollary rho_normalized_trace_one (am ph : prbm (T:=R)) n :
  length (pU am) = length (pd am) -> length (pU ph) = length (pU am) ->
  sum_bits n (fun v => fst (dm_rho ROps am ph v v) / dm_normalization ROps am (all_bits n)) = 1.
Proof.
  intros H1 H2. destruct (rho_trace_is_normalization am ph n H1 H2) as [Ht [_ Hpos]].
  set (Z := dm_normalization ROps am (all_bits n)) in *.
  rewrite (sum_bits_ext _ _ (fun v => fst (dm_rho ROps am ph v v) * / Z)) by (intros; reflexivity).
  rewrite sum_bits_scal_r, <- Ht. field. lra.
Qed.

(* ------------------------------------------------------------------ 4. positive semidefiniteness *)
(* any matrix of the form sum_a Psi(s,a) conj Psi(s',a) is positive semidefinite *)
Lemma gram_quadratic_form (Ps : bits -> bits -> C) n na (x : bits -> C) :
  csum_bits n (fun s => csum_bits n (fun s' =>
    Cmult (Cmult (Cconj (x s)) (csum_bits na (fun a => Cmult (Ps s a) (Cconj (Ps s' a))))) (x s'))) =
  csum_bits na (fun a =>
    let S := csum_bits n (fun s => Cmult (Cconj (x s)) (Ps s a)) in (cnorm2 S, 0)).
Proof.
  cbv zeta.
  rewrite (csum_bits_ext n _ (fun s => csum_bits na (fun a =>
      Cmult (Cmult (Cconj (x s)) (Ps s a)) (csum_bits n (fun s' => Cmult (Cconj (Ps s' a)) (x s')))))).
  2:{ intros s _.
      rewrite (csum_bits_ext n _ (fun s' => csum_bits na (fun a =>
          Cmult (Cmult (Cconj (x s)) (Ps s a)) (Cmult (Cconj (Ps s' a)) (x s'))))).
      2:{ intros s' _. rewrite <- csum_bits_scal, <- csum_bits_scal_r.
          apply csum_bits_ext. intros a _. ring. }
      rewrite csum_bits_swap. apply csum_bits_ext. intros a _. apply csum_bits_scal. }
  rewrite csum_bits_swap. apply csum_bits_ext. intros a _.
  rewrite csum_bits_scal_r, <- Cmult_conj_norm2. f_equal.
  rewrite csum_bits_conj. apply csum_bits_ext. intros s _.
  rewrite Cconj_mult, Cconj_invol. ring.
Qed.

Definition quad_form n (M : bits -> bits -> C) (x : bits -> C) : C :=
  csum_bits n (fun s => csum_bits n (fun s' => Cmult (Cmult (Cconj (x s)) (M s s')) (x s'))).

Lemma cnorm2_nonneg z : 0 <= cnorm2 z.
Proof. unfold cnorm2. nra. Qed.

Theorem partial_trace_psd am ph n (x : bits -> C) :
  0 <= fst (quad_form n (partial_trace am ph) x) /\ snd (quad_form n (partial_trace am ph) x) = 0.
Proof.
  unfold quad_form, partial_trace. rewrite gram_quadratic_form. cbv zeta.
  rewrite csum_bits_fst, csum_bits_snd. cbn [fst snd]. split.
  - apply sum_bits_nonneg. intros; apply cnorm2_nonneg.
  - apply sum_bits_const0.
Qed.

Theorem rho_psd (am ph : prbm (T:=R)) n (x : bits -> C) :
  length (pU am) = length (pd am) -> length (pU ph) = length (pU am) ->
  (forall v vp, length v = n -> length vp = n -> Forall pi_guard (pi_args ROps am ph v vp)) ->
  0 <= fst (quad_form n (dm_rho ROps am ph) x) /\ snd (quad_form n (dm_rho ROps am ph) x) = 0.
Proof.
  intros H1 H2 Hg.
  replace (quad_form n (dm_rho ROps am ph) x) with (quad_form n (partial_trace am ph) x).
  - apply partial_trace_psd.
  - unfold quad_form. apply csum_bits_ext. intros s Hs. apply csum_bits_ext. intros s' Hs'.
    rewrite (rho_is_partial_trace am ph s s' H1 H2 (Hg s s' Hs Hs')). reflexivity.
Qed.

(* ------------------------------------------------------------------ 7. call forms *)
Theorem rho_matrix_entry am ph (space : list bits) i j :
  (i < length space)%nat -> (j < length space)%nat ->
  nth j (nth i (dm_rho_matrix ROps am ph space) []) (0, 0) =
  dm_rho ROps am ph (nth i space []) (nth j space []).
Proof.
  intros Hi Hj. unfold dm_rho_matrix.
  rewrite (nth_indep _ [] (map (fun vp => dm_rho ROps am ph [] vp) space)) by (rewrite map_length; exact Hi).
  rewrite (map_nth (fun v => map (fun vp => dm_rho ROps am ph v vp) space) space [] i).
  rewrite (nth_indep _ (0, 0) (dm_rho ROps am ph (nth i space []) [])) by (rewrite map_length; exact Hj).
  rewrite (map_nth (fun vp => dm_rho ROps am ph (nth i space []) vp) space [] j). reflexivity.
Qed.

Theorem rho_matrix_shape am ph (space : list bits) :
  length (dm_rho_matrix ROps am ph space) = length space /\
  Forall (fun row => length row = length space) (dm_rho_matrix ROps am ph space).
Proof.
  unfold dm_rho_matrix. split; [apply map_length|].
  apply Forall_forall. intros row Hin. apply in_map_iff in Hin. destruct Hin as [v [<- _]]. apply map_length.
Qed.

(* the diagonal shortcut rho(v, expand=False) agrees with the full formula *)
Theorem rho_diag_shortcut (am ph : prbm (T:=R)) v :
  length (pU am) = length (pd am) -> length (pU ph) = length (pU am) ->
  dm_rho_diag ROps am v = dm_rho ROps am ph v v.
Proof. intros H1 H2. symmetry. apply (rho_diag_is_probability am ph v H1 H2). Qed.

(* ------------------------------------------------------------------ non-vacuity *)
(* a 1-1-1 network with every bias non-zero (phase aux bias 0) and a non-zero phase coupling
   U_mu meets the shape guards and the non-singularity guard on all pairs of basis states *)
Example rho_guards_nonvacuous :
  let am := mkP [[1]] [[1]] [0.3] [-0.2] [0.5] in
  let ph := mkP [[0.7]] [[2]] [0.1] [0.4] [0] in
  length (pU am) = length (pd am) /\ length (pU ph) = length (pU am) /\
  forall v vp, length v = 1%nat -> length vp = 1%nat -> Forall pi_guard (pi_args ROps am ph v vp).
Proof.
  cbv zeta. repeat split.
  intros [|b [|? ?]] [|b' [|? ?]] Hv Hvp; try discriminate.
  unfold pi_args, linearb, matvecb, vadd, vsub. cbn [pU pd combine map fst snd dotb].
  constructor; [|constructor]. apply pi_guard_x_nonzero. cbn [fst]. rewrite half_R.
  cbn [nadd n0 ROps]. destruct b, b'; lra.
Qed.
