(* CplxOutR.v — C15: scalar_mult(x, y, out=<fresh buffer>) for EVERY pair of broadcastable operands of
   rank 0..4 (closes the TARGET left open by CplxR.scalar_mult_out_fresh_partial).

   No shape calculus is needed.  The four real products that [scalar_mult_out] writes into the buffer and
   the complex product that [scalar_mult] returns are all computed by the same traversal
   [tzip_bcast] (rank promotion + the nested [bzip] tower), which FACTORS THROUGH THE PAIRING:
       tzip_bcast f (tmap p x) (tmap q y) = option_map (tmap (fun ab => f (p (fst ab)) (q (snd ab)))) (tzip_bcast pair x y)
   ([tzip_bcast_factor], same structural recursion on every level of the tower).  Hence with
   Q := tzip_bcast pair X Y (the broadcast tensor of operand pairs), every product is a [tmap] of Q.  A
   buffer of the shape of Q is [tmap snd c] for a tensor c of (pair, old entry) with Q = tmap fst c
   ([tshape_split]), and a strict zip of two [tmap]s of the same tensor is a [tmap] ([tzip_strict_same]); so
   each of the four writes is a [tmap] over c and the last one is entrywise Cmult.

   Results:
     scalar_mult_out_fresh            fresh buffer of the broadcast shape: out ends up holding
                                      [scalar_mult x y] (= pointwise Cmult with broadcasting, CplxR.scalar_mult_is),
                                      every other storage is unchanged
     scalar_mult_out_fails_with_scalar_mult   operands that do not broadcast: RuntimeErr, whatever the buffer
     scalar_mult_out_fresh_wrong_shape        buffer of another shape: RuntimeErr in the MODEL (outside the
                                      correspondence-tested domain; not cited in props/C15.v)
     scalar_mult_out_fresh_g etc.     the same for every NumOps T (closed under the global context)
     scalar_mult_out_fresh_vectors    the equal-length-vector statement of CplxR.v as an instance
     fresh_broadcast_hypotheses_satisfiable   a rank-1 (size-1) against rank-2 instance of the hypotheses *)
From Coq Require Import List ZArith Bool Reals Lra Lia.
From Coquelicot Require Import Coquelicot.
From QModel Require Import Num CBase Cplx.
From QTheory Require Import RInst CplxR.
Import ListNotations.
Open Scope R_scope.

(* ------------------------------------------------------------------ tmap *)
Lemma map_id_ext {A} (f : A -> A) l : (forall a, f a = a) -> map f l = l.
Proof. intros H. induction l as [|a l IH]; [reflexivity|]. cbn [map]. rewrite H, IH. reflexivity. Qed.

Lemma tmap_id {A} (x : tens A) : tmap (fun a => a) x = x.
Proof.
  destruct x; cbn [tmap]; f_equal; repeat (apply map_id_ext; intros); reflexivity.
Qed.

Lemma tmap_tmap {A B X} (f : A -> B) (g : B -> X) (x : tens A) : tmap g (tmap f x) = tmap (fun a => g (f a)) x.
Proof.
  destruct x; cbn [tmap]; f_equal; rewrite ?map_map; try reflexivity;
    repeat (apply map_ext; intros; rewrite ?map_map); reflexivity.
Qed.

Lemma trank_tmap {A B} (f : A -> B) x : trank (tmap f x) = trank x.
Proof. destruct x; reflexivity. Qed.
Lemma tlift_tmap {A B} (f : A -> B) x : tlift (tmap f x) = tmap f (tlift x).
Proof. destruct x; reflexivity. Qed.
Lemma tpromote_tmap {A B} (f : A -> B) n k : forall x, tpromote n k (tmap f x) = tmap f (tpromote n k x).
Proof.
  induction n as [|n IH]; intros x; cbn [tpromote]; [reflexivity|].
  rewrite trank_tmap. destruct (Nat.ltb (trank x) k); [rewrite tlift_tmap; apply IH | reflexivity].
Qed.

(* ------------------------------------------------------------------ the traversals factor through the pairing *)
Definition pairf {A B A' B' X} (f : A' -> B' -> X) (p : A -> A') (q : B -> B') (ab : A * B) : X :=
  f (p (fst ab)) (q (snd ab)).

Lemma seq_opt_factor {A A' X Y} (G : A' -> option Y) (G' : A -> option X) (q : A -> A') (phi : X -> Y) l :
  (forall a, G (q a) = option_map phi (G' a)) ->
  seq_opt (map G (map q l)) = option_map (map phi) (seq_opt (map G' l)).
Proof.
  intros H. induction l as [|a l IH]; [reflexivity|]. cbn [map seq_opt]. rewrite H, IH.
  destruct (G' a), (seq_opt (map G' l)); reflexivity.
Qed.

Section Factor.
  Context {A B A' B' X Y : Type}.
  Variables (g : A' -> B' -> option Y) (g' : A -> B -> option X) (p : A -> A') (q : B -> B') (phi : X -> Y).
  Hypothesis H : forall a b, g (p a) (q b) = option_map phi (g' a b).

  Lemma zip_opt_factor xs ys : zip_opt g (map p xs) (map q ys) = option_map (map phi) (zip_opt g' xs ys).
  Proof.
    revert ys; induction xs as [|a xs IH]; intros [|b ys]; try reflexivity.
    cbn [map zip_opt]. rewrite H, IH. destruct (g' a b), (zip_opt g' xs ys); reflexivity.
  Qed.

  (* one level of torch broadcasting: the same three-way case split on both sides *)
  Lemma bzip_factor xs ys : bzip g (map p xs) (map q ys) = option_map (map phi) (bzip g' xs ys).
  Proof.
    destruct xs as [|a [|a2 xs]].
    - destruct ys as [|b [|b2 ys]]; reflexivity.
    - change (bzip g (map p [a]) (map q ys)) with (seq_opt (map (g (p a)) (map q ys))).
      change (bzip g' [a] ys) with (seq_opt (map (g' a) ys)).
      apply seq_opt_factor. intros b; apply H.
    - destruct ys as [|b [|b2 ys]].
      + reflexivity.
      + change (bzip g (map p (a :: a2 :: xs)) (map q [b]))
          with (seq_opt (map (fun x => g x (q b)) (map p (a :: a2 :: xs)))).
        change (bzip g' (a :: a2 :: xs) [b]) with (seq_opt (map (fun x => g' x b) (a :: a2 :: xs))).
        apply (seq_opt_factor (fun x => g x (q b)) (fun x => g' x b)). intros a0; apply H.
      + change (bzip g (map p (a :: a2 :: xs)) (map q (b :: b2 :: ys)))
          with (zip_opt g (map p (a :: a2 :: xs)) (map q (b :: b2 :: ys))).
        change (bzip g' (a :: a2 :: xs) (b :: b2 :: ys)) with (zip_opt g' (a :: a2 :: xs) (b :: b2 :: ys)).
        apply zip_opt_factor.
  Qed.
End Factor.

Section TensFactor.
  Context {A B A' B' X : Type}.
  Variables (f : A' -> B' -> X) (p : A -> A') (q : B -> B').

  Lemma tzip_bcast_same_factor (x : tens A) (y : tens B) :
    tzip_bcast_same f (tmap p x) (tmap q y) = option_map (tmap (pairf f p q)) (tzip_bcast_same pair x y).
  Proof.
    assert (H1 : forall xs ys,
      bzip (fun a b => Some (f a b)) (map p xs) (map q ys)
      = option_map (map (pairf f p q)) (bzip (fun a b => Some (a, b)) xs ys))
      by (intros; apply bzip_factor; intros; reflexivity).
    pose proof (fun xs ys => bzip_factor _ _ (map p) (map q) (map (pairf f p q)) H1 xs ys) as H2.
    pose proof (fun xs ys => bzip_factor _ _ (map (map p)) (map (map q)) (map (map (pairf f p q))) H2 xs ys) as H3.
    pose proof (fun xs ys => bzip_factor _ _ (map (map (map p))) (map (map (map q))) (map (map (map (pairf f p q)))) H3 xs ys) as H4.
    destruct x, y; cbn [tmap tzip_bcast_same]; try reflexivity.
    - rewrite H1. destruct (bzip _ v v0); reflexivity.
    - rewrite H2. destruct (bzip _ m m0); reflexivity.
    - rewrite H3. destruct (bzip _ t t0); reflexivity.
    - rewrite H4. destruct (bzip _ t t0); reflexivity.
  Qed.

  Theorem tzip_bcast_factor (x : tens A) (y : tens B) :
    tzip_bcast f (tmap p x) (tmap q y) = option_map (tmap (pairf f p q)) (tzip_bcast pair x y).
  Proof. unfold tzip_bcast. rewrite !trank_tmap, !tpromote_tmap. apply tzip_bcast_same_factor. Qed.
End TensFactor.

Corollary tzip_bcast_factor0 {A B X} (f : A -> B -> X) (x : tens A) (y : tens B) :
  tzip_bcast f x y = option_map (tmap (pairf f (fun a => a) (fun b => b))) (tzip_bcast pair x y).
Proof. pose proof (tzip_bcast_factor f (fun a => a) (fun b => b) x y) as H. rewrite !tmap_id in H. exact H. Qed.

(* ------------------------------------------------------------------ shapes *)
Definition tshape {A} (x : tens A) : tens unit := tmap (fun _ => tt) x.

Lemma tshape_tmap {A B} (f : A -> B) x : tshape (tmap f x) = tshape x.
Proof. unfold tshape. apply tmap_tmap. Qed.

Lemma map_split {A B U P} (u : A -> U) (v : B -> U) (p : P -> A) (q : P -> B) :
  (forall a b, u a = v b -> exists c, a = p c /\ b = q c) ->
  forall xs ys, map u xs = map v ys -> exists zs, xs = map p zs /\ ys = map q zs.
Proof.
  intros H. induction xs as [|a xs IH]; intros [|b ys] E; cbn [map] in E; try discriminate.
  - exists []. split; reflexivity.
  - injection E as E1 E2. destruct (H _ _ E1) as [c [-> ->]]. destruct (IH _ E2) as [zs [-> ->]].
    exists (c :: zs). split; reflexivity.
Qed.

(* two tensors of the same shape are the two projections of one tensor of pairs *)
Lemma tshape_split {A B} (a : tens A) (b : tens B) :
  tshape a = tshape b -> exists c : tens (A * B), a = tmap fst c /\ b = tmap snd c.
Proof.
  assert (H0 : forall (a : A) (b : B), (fun _ : A => tt) a = (fun _ : B => tt) b ->
                 exists c : A * B, a = fst c /\ b = snd c) by (intros a0 b0 _; exists (a0, b0); split; reflexivity).
  pose proof (map_split _ _ fst snd H0) as H1.
  pose proof (map_split _ _ (map fst) (map snd) H1) as H2.
  pose proof (map_split _ _ (map (map fst)) (map (map snd)) H2) as H3.
  pose proof (map_split _ _ (map (map (map fst))) (map (map (map snd))) H3) as H4.
  unfold tshape. destruct a, b; cbn [tmap]; intros E; try discriminate;
    [exists (T0 (a, a0)); split; reflexivity | | | |]; injection E as E.
  - destruct (H1 _ _ E) as [c [-> ->]]. exists (T1 c). split; reflexivity.
  - destruct (H2 _ _ E) as [c [-> ->]]. exists (T2 c). split; reflexivity.
  - destruct (H3 _ _ E) as [c [-> ->]]. exists (T3 c). split; reflexivity.
  - destruct (H4 _ _ E) as [c [-> ->]]. exists (T4 c). split; reflexivity.
Qed.

Lemma zip_opt_same {P A B X} (g : A -> B -> option X) (u : P -> A) (v : P -> B) (phi : P -> X) l :
  (forall e, g (u e) (v e) = Some (phi e)) -> zip_opt g (map u l) (map v l) = Some (map phi l).
Proof. intros H. induction l as [|e l IH]; [reflexivity|]. cbn [map zip_opt]. rewrite H, IH. reflexivity. Qed.

(* a strict zip of two tmaps of the same tensor is a tmap *)
Lemma tzip_strict_same {P A B X} (f : A -> B -> X) (u : P -> A) (v : P -> B) (c : tens P) :
  tzip_strict f (tmap u c) (tmap v c) = Some (tmap (fun e => f (u e) (v e)) c).
Proof.
  pose proof (fun l => zip_opt_same (fun a b => Some (f a b)) u v (fun e => f (u e) (v e)) l (fun e => eq_refl)) as H1.
  pose proof (fun l => zip_opt_same _ (map u) (map v) _ l H1) as H2.
  pose proof (fun l => zip_opt_same _ (map (map u)) (map (map v)) _ l H2) as H3.
  pose proof (fun l => zip_opt_same _ (map (map (map u))) (map (map (map v))) _ l H3) as H4.
  destruct c; cbn [tmap tzip_strict]; [reflexivity | rewrite H1 | rewrite H2 | rewrite H3 | rewrite H4]; reflexivity.
Qed.

(* a strict zip of tensors of different shapes fails *)
Lemma zip_opt_shape {A B X U} (g : A -> B -> option X) (u : A -> U) (v : B -> U) :
  (forall a b, g a b <> None -> u a = v b) ->
  forall xs ys, zip_opt g xs ys <> None -> map u xs = map v ys.
Proof.
  intros H. induction xs as [|a xs IH]; intros [|b ys] E; cbn [zip_opt map] in *; try reflexivity;
    try (exfalso; apply E; reflexivity).
  destruct (g a b) eqn:Eg; [|exfalso; apply E; reflexivity].
  destruct (zip_opt g xs ys) eqn:Ez; [|exfalso; apply E; reflexivity].
  f_equal; [apply H; rewrite Eg; discriminate | apply IH; rewrite Ez; discriminate].
Qed.

Lemma tzip_strict_shape {A B X} (f : A -> B -> X) (a : tens A) (b : tens B) :
  tzip_strict f a b <> None -> tshape a = tshape b.
Proof.
  assert (H0 : forall (a : A) (b : B), (fun a b => Some (f a b)) a b <> None -> (fun _ : A => tt) a = (fun _ : B => tt) b)
    by reflexivity.
  pose proof (zip_opt_shape _ _ _ H0) as H1.
  pose proof (zip_opt_shape _ _ _ H1) as H2.
  pose proof (zip_opt_shape _ _ _ H2) as H3.
  pose proof (zip_opt_shape _ _ _ H3) as H4.
  unfold tshape. destruct a, b; cbn [tzip_strict tmap]; intros E; try (exfalso; apply E; reflexivity); f_equal.
  - apply H1. intros E'. apply E. rewrite E'. reflexivity.
  - apply H2. intros E'. apply E. rewrite E'. reflexivity.
  - apply H3. intros E'. apply E. rewrite E'. reflexivity.
  - apply H4. intros E'. apply E. rewrite E'. reflexivity.
Qed.

(* ------------------------------------------------------------------ one write into the buffer *)
(* Everything below is proved for an ARBITRARY number structure [O : NumOps T] (so it also holds, verbatim,
   for the floating-point instance the extracted model runs on) and then instantiated at ROps. *)
Section Generic.
  Context {T : Type} (O : NumOps T).
  Notation cxT := (@cx T).

  Lemma upd_same_g (h : @heap T) s v : upd h s v s = v.
  Proof. unfold upd. rewrite Nat.eqb_refl. reflexivity. Qed.
  Lemma upd_other_g (h : @heap T) s v s' : s' <> s -> upd h s v s' = h s'.
  Proof. intros H. unfold upd. apply Nat.eqb_neq in H. rewrite H. reflexivity. Qed.

  Section OutStep.
    Variables (h : @heap T) (out : bufref) (X Y : tens cxT) (Q : tens (cxT * cxT)) (c : tens ((cxT * cxT) * cxT)).
    Variable v : (cxT * cxT) * cxT -> cxT.
    Hypothesis HQ : tzip_bcast pair X Y = Some Q.
    Hypothesis Hc : Q = tmap fst c.
    Hypothesis Ho : h (b_store out) = tmap v c.

    Lemma out_step_re (f : T -> T -> T) (pa pb : cxT -> T) :
      out_step O h out (wr_re f) (tmap pa X) (tmap pb Y) =
      Some (upd h (b_store out)
                (tmap (fun e => (f (fst (v e)) (nmul O (pa (fst (fst e))) (pb (snd (fst e)))), snd (v e))) c)).
    Proof.
      unfold out_step. rewrite tzip_bcast_factor, HQ. cbn [option_map]. rewrite Hc, tmap_tmap, Ho.
      unfold wr_re. rewrite tzip_strict_same. reflexivity.
    Qed.

    Lemma out_step_im (f : T -> T -> T) (pa pb : cxT -> T) :
      out_step O h out (wr_im f) (tmap pa X) (tmap pb Y) =
      Some (upd h (b_store out)
                (tmap (fun e => (fst (v e), f (snd (v e)) (nmul O (pa (fst (fst e))) (pb (snd (fst e)))))) c)).
    Proof.
      unfold out_step. rewrite tzip_bcast_factor, HQ. cbn [option_map]. rewrite Hc, tmap_tmap, Ho.
      unfold wr_im. rewrite tzip_strict_same. reflexivity.
    Qed.
  End OutStep.

  (* ---------------------------------------------------------------- the theorem *)
  Theorem scalar_mult_out_fresh_g (h : @heap T) x y out (P : tens cxT) :
    b_id out <> b_id x -> b_id out <> b_id y -> b_store out <> b_store x -> b_store out <> b_store y ->
    scalar_mult O (h (b_store x)) (h (b_store y)) = Ok P ->
    tshape (h (b_store out)) = tshape P ->
    exists h', scalar_mult_out O h x y out = Ok (h', out)
               /\ h' (b_store out) = P
               /\ (forall s, s <> b_store out -> h' s = h s).
  Proof.
    intros Ix Iy Sx Sy HP Hsh.
    assert (Sx' : b_store x <> b_store out) by congruence. assert (Sy' : b_store y <> b_store out) by congruence.
    remember (h (b_store x)) as X eqn:HX. remember (h (b_store y)) as Y eqn:HY.
    unfold scalar_mult in HP. rewrite tzip_bcast_factor0 in HP.
    destruct (tzip_bcast pair X Y) as [Q|] eqn:EQ; cbn [option_map of_opt] in HP; [|discriminate HP].
    injection HP as <-. rewrite tshape_tmap in Hsh. symmetry in Hsh.
    destruct (tshape_split Q (h (b_store out)) Hsh) as [c [Hc Ho]].
    unfold scalar_mult_out. apply Nat.eqb_neq in Ix, Iy. rewrite Ix, Iy. cbn [orb]. cbv zeta. unfold treal, timag.
    (* write 1: re := xr*yr *)
    rewrite <- HX, <- HY.
    rewrite (out_step_re h out X Y Q c snd EQ Hc Ho).
    match goal with |- context [upd h (b_store out) ?t] => set (h1 := upd h (b_store out) t) end.
    assert (H1x : h1 (b_store x) = X) by (unfold h1; rewrite upd_other_g by exact Sx'; symmetry; exact HX).
    assert (H1y : h1 (b_store y) = Y) by (unfold h1; rewrite upd_other_g by exact Sy'; symmetry; exact HY).
    (* write 2: re -= xi*yi *)
    rewrite H1x, H1y.
    erewrite (out_step_re h1 out X Y Q c _ EQ Hc); [|apply upd_same_g].
    match goal with |- context [upd h1 (b_store out) ?t] => set (h2 := upd h1 (b_store out) t) end.
    assert (H2x : h2 (b_store x) = X) by (unfold h2; rewrite upd_other_g by exact Sx'; exact H1x).
    assert (H2y : h2 (b_store y) = Y) by (unfold h2; rewrite upd_other_g by exact Sy'; exact H1y).
    (* write 3: im := xr*yi *)
    rewrite H2x, H2y.
    erewrite (out_step_im h2 out X Y Q c _ EQ Hc); [|apply upd_same_g].
    match goal with |- context [upd h2 (b_store out) ?t] => set (h3 := upd h2 (b_store out) t) end.
    assert (H3x : h3 (b_store x) = X) by (unfold h3; rewrite upd_other_g by exact Sx'; exact H2x).
    assert (H3y : h3 (b_store y) = Y) by (unfold h3; rewrite upd_other_g by exact Sy'; exact H2y).
    (* write 4: im += xi*yr *)
    rewrite H3x, H3y.
    erewrite (out_step_im h3 out X Y Q c _ EQ Hc); [|apply upd_same_g].
    eexists. split; [reflexivity|]. split.
    - rewrite upd_same_g, Hc, tmap_tmap. apply tmap_ext. intros [[a b] o]. reflexivity.
    - intros s Hs. rewrite upd_other_g by exact Hs. unfold h3. rewrite upd_other_g by exact Hs.
      unfold h2. rewrite upd_other_g by exact Hs. unfold h1. apply upd_other_g, Hs.
  Qed.

  (* operands that do not broadcast: the first write already fails, whatever the buffer *)
  Theorem scalar_mult_out_fails_with_scalar_mult_g (h : @heap T) x y out :
    scalar_mult O (h (b_store x)) (h (b_store y)) = RuntimeErr ->
    scalar_mult_out O h x y out = RuntimeErr.
  Proof.
    intros HP. unfold scalar_mult in HP. rewrite tzip_bcast_factor0 in HP.
    destruct (tzip_bcast pair (h (b_store x)) (h (b_store y))) as [Q|] eqn:EQ; cbn [option_map of_opt] in HP; [discriminate HP|].
    unfold scalar_mult_out. destruct (_ || _); [reflexivity|]. cbv zeta. unfold treal, timag, out_step.
    rewrite tzip_bcast_factor. unfold cx in *. rewrite EQ. reflexivity.
  Qed.

  (* A buffer whose shape is not the broadcast shape is rejected — whatever it aliases — and nothing is written:
     the code's check [out.shape != (2, *broadcast shape)] -> RuntimeError (/repo d718730). *)
  Theorem scalar_mult_out_fresh_wrong_shape_g (h : @heap T) x y out (P : tens cxT) :
    scalar_mult O (h (b_store x)) (h (b_store y)) = Ok P ->
    tshape (h (b_store out)) <> tshape P ->
    scalar_mult_out O h x y out = RuntimeErr.
  Proof.
    intros HP Hsh. unfold scalar_mult in HP. rewrite tzip_bcast_factor0 in HP.
    destruct (tzip_bcast pair (h (b_store x)) (h (b_store y))) as [Q|] eqn:EQ; cbn [option_map of_opt] in HP; [|discriminate HP].
    injection HP as <-. rewrite tshape_tmap in Hsh.
    unfold scalar_mult_out. destruct (_ || _); [reflexivity|]. cbv zeta. unfold treal, timag, out_step.
    rewrite tzip_bcast_factor. unfold cx in *. rewrite EQ. cbn [option_map]. unfold wr_re.
    match goal with |- context [tzip_strict ?f ?a ?b] => destruct (tzip_strict f a b) eqn:Ez end; [|reflexivity].
    exfalso. apply Hsh. symmetry.
    match type of Ez with tzip_strict ?f ?a ?b = _ =>
      assert (Hs : tshape a = tshape b) by (apply (tzip_strict_shape f); rewrite Ez; discriminate) end.
    rewrite tshape_tmap in Hs. exact Hs.
  Qed.
End Generic.

(* ------------------------------------------------------------------ at T := R, against Coquelicot's C *)
Theorem scalar_mult_out_fresh (h : @heap R) x y out (P : tens C) :
  b_id out <> b_id x -> b_id out <> b_id y -> b_store out <> b_store x -> b_store out <> b_store y ->
  scalar_mult ROps (h (b_store x)) (h (b_store y)) = Ok P ->
  tshape (h (b_store out)) = tshape P ->
  exists h', scalar_mult_out ROps h x y out = Ok (h', out)
             /\ h' (b_store out) = P
             /\ (forall s, s <> b_store out -> h' s = h s).
Proof. exact (scalar_mult_out_fresh_g ROps h x y out P). Qed.

(* the same, with the product spelled out as pointwise Cmult with torch broadcasting (CplxR.scalar_mult_is) *)
Corollary scalar_mult_out_fresh_Cmult (h : @heap R) x y out (P : tens C) :
  b_id out <> b_id x -> b_id out <> b_id y -> b_store out <> b_store x -> b_store out <> b_store y ->
  tzip_bcast Cmult (h (b_store x)) (h (b_store y)) = Some P ->
  tshape (h (b_store out)) = tshape P ->
  exists h', scalar_mult_out ROps h x y out = Ok (h', out)
             /\ h' (b_store out) = P
             /\ (forall s, s <> b_store out -> h' s = h s).
Proof.
  intros Ix Iy Sx Sy HP. apply scalar_mult_out_fresh; try assumption.
  rewrite scalar_mult_is. change (@cx R) with C. rewrite HP. reflexivity.
Qed.

Theorem scalar_mult_out_fails_with_scalar_mult (h : @heap R) x y out :
  scalar_mult ROps (h (b_store x)) (h (b_store y)) = RuntimeErr ->
  scalar_mult_out ROps h x y out = RuntimeErr.
Proof. exact (scalar_mult_out_fails_with_scalar_mult_g ROps h x y out). Qed.

Theorem scalar_mult_out_fresh_wrong_shape (h : @heap R) x y out (P : tens C) :
  scalar_mult ROps (h (b_store x)) (h (b_store y)) = Ok P ->
  tshape (h (b_store out)) <> tshape P ->
  scalar_mult_out ROps h x y out = RuntimeErr.
Proof. exact (scalar_mult_out_fresh_wrong_shape_g ROps h x y out P). Qed.

(* the equal-length-vector case of CplxR.v is an instance *)
Corollary scalar_mult_out_fresh_vectors (h : @heap R) x y out (xs ys os : list C) :
  b_id out <> b_id x -> b_id out <> b_id y -> b_store out <> b_store x -> b_store out <> b_store y ->
  h (b_store x) = T1 xs -> h (b_store y) = T1 ys -> h (b_store out) = T1 os ->
  length xs = length ys -> length os = length xs ->
  exists h', scalar_mult_out ROps h x y out = Ok (h', out)
             /\ h' (b_store out) = T1 (zipw Cmult xs ys)
             /\ (forall s, s <> b_store out -> h' s = h s).
Proof.
  intros Ix Iy Sx Sy Hx Hy Ho Lxy Los. apply scalar_mult_out_fresh; try assumption.
  - rewrite Hx, Hy. apply scalar_mult_vectors, Lxy.
  - rewrite Ho. unfold tshape. cbn [tmap]. f_equal.
    assert (Hl : length os = length (zipw Cmult xs ys)) by (rewrite zipw_length; lia).
    clear - Hl. revert Hl. generalize (zipw Cmult xs ys). induction os as [|o os IH]; intros [|z zs] Hl; try discriminate; [reflexivity|].
    cbn [map]. f_equal. apply IH. simpl in Hl; lia.
Qed.

(* the hypotheses are satisfiable with genuine broadcasting across ranks: a length-1 vector against a
   2 x 2 matrix, written into a fresh 2 x 2 buffer *)
Example fresh_broadcast_hypotheses_satisfiable :
  exists (h : @heap R) x y out P,
    b_id out <> b_id x /\ b_id out <> b_id y /\ b_store out <> b_store x /\ b_store out <> b_store y /\
    trank (h (b_store x)) <> trank (h (b_store y)) /\
    scalar_mult ROps (h (b_store x)) (h (b_store y)) = Ok P /\ tshape (h (b_store out)) = tshape P /\
    P = T2 [[Cmult (1, 2) (1, 0); Cmult (1, 2) (0, 1)]; [Cmult (1, 2) (2, 0); Cmult (1, 2) (0, 2)]].
Proof.
  exists (fun s => match s with
                   | O => T1 [(1, 2)]
                   | S O => T2 [[(1, 0); (0, 1)]; [(2, 0); (0, 2)]]
                   | _ => T2 [[(0, 0); (0, 0)]; [(0, 0); (0, 0)]]
                   end), (mkBuf 0 0), (mkBuf 1 1), (mkBuf 2 2).
  eexists. cbn [b_id b_store].
  split; [lia|]. split; [lia|]. split; [lia|]. split; [lia|]. split; [cbn; lia|].
  split; [reflexivity|]. split; reflexivity.
Qed.

Print Assumptions scalar_mult_out_fresh_g.
Print Assumptions scalar_mult_out_fresh.
