(* GibbsSkelT.v — the canonical Gibbs skeletons, interpreted, ARE the samplers of Gibbs.v, for every network, every
   number of steps, every start state and every sequence of recorded draws. *)
From Coq Require Import List ZArith Bool Lia.
From QModel Require Import Num Bits Rbm Gibbs GibbsSkel.
Import ListNotations.

Lemma gbody_eqb_eq a b : gbody_eqb a b = true ->
  forall T (ph pa pvh : bits -> list T) pvha k v h0 a0 draws,
  run_gibbs ph pa pvh pvha a k v h0 a0 draws = run_gibbs ph pa pvh pvha b k v h0 a0 draws.
Proof.
  intros H T ph pa pvh pvha.
  assert (Hb : forall rs draws, run_body ph pa pvh pvha a rs draws = run_body ph pa pvh pvha b rs draws).
  { revert b H; induction a as [|x a IH]; intros [|y b] H rs draws; cbn in H; try discriminate; [reflexivity|].
    apply andb_prop in H as [Hxy Hab]. cbn [run_body]. destruct draws as [|d ds]; [reflexivity|].
    unfold gstep_eqb in Hxy.
    repeat match goal with H : _ && _ = true |- _ => apply andb_prop in H as [? ?] end.
    destruct x as [xd xc x1 x2], y as [yd yc y1 y2]; cbn [g_dst g_cond g_src1 g_src2] in *.
    assert (xd = yd) by (destruct xd, yd; cbn in *; congruence).
    assert (xc = yc) by (destruct xc, yc; cbn in *; congruence).
    assert (x1 = y1) by (destruct x1, y1; cbn in *; congruence).
    subst yd yc y1.
    assert (Hp : cprobs ph pa pvh pvha xc (rget rs x1) (rget rs x2) = cprobs ph pa pvh pvha xc (rget rs x1) (rget rs y2)).
    { destruct xc; cbn; try reflexivity. assert (x2 = y2) by (destruct x2, y2; cbn in *; congruence). subst; reflexivity. }
    rewrite Hp, (IH b Hab). reflexivity. }
  intros k; unfold run_gibbs.
  assert (Hl : forall rs draws, run_loop ph pa pvh pvha a k rs draws = run_loop ph pa pvh pvha b k rs draws).
  { induction k as [|k IHk]; intros rs draws; [reflexivity|]. cbn [run_loop]. rewrite Hb.
    destruct (run_body ph pa pvh pvha b rs draws) as [[[rs' reqs] ds']|]; [rewrite IHk; reflexivity | reflexivity]. }
  intros; rewrite Hl; reflexivity.
Qed.

Section R.
  Context {T : Type} (O : NumOps T).

  Lemma canonical_b_loop (r : brbm) k : forall v h0 a0 x0 draws,
    (let res := run_loop (b_prob_h_given_v O r) (fun _ => []) (b_prob_v_given_h O r) (fun _ _ => []) canonical_b k (v, h0, a0, x0) draws in
     (rget (fst res) RV, snd res)) = b_gibbs_steps O r k v draws.
  Proof.
    induction k as [|k IH]; intros v h0 a0 x0 draws; [reflexivity|].
    cbn [run_loop b_gibbs_steps canonical_b run_body g_cond g_src1 g_src2 g_dst].
    destruct draws as [|h [|v' rest]]; try reflexivity.
    cbn [rset rget cprobs fst snd app].
    rewrite <- (IH v' h a0 x0 rest). reflexivity.
  Qed.
  Theorem canonical_b_is_sampler (r : brbm) k v h0 a0 draws :
    run_gibbs (b_prob_h_given_v O r) (fun _ => []) (b_prob_v_given_h O r) (fun _ _ => []) canonical_b k v h0 a0 draws
    = b_gibbs_steps O r k v draws.
  Proof. unfold run_gibbs. apply canonical_b_loop. Qed.

  Lemma canonical_p_loop (r : prbm) k : forall v h0 a0 x0 draws,
    (let res := run_loop (p_prob_h_given_v O r) (p_prob_a_given_v O r) (fun _ => []) (p_prob_v_given_ha O r) canonical_p k (v, h0, a0, x0) draws in
     (rget (fst res) RV, snd res)) = p_gibbs_steps O r k v draws.
  Proof.
    induction k as [|k IH]; intros v h0 a0 x0 draws; [reflexivity|].
    cbn [run_loop p_gibbs_steps canonical_p run_body g_cond g_src1 g_src2 g_dst].
    destruct draws as [|h [|a [|v' rest]]]; try reflexivity.
    cbn [rset rget cprobs fst snd app].
    rewrite <- (IH v' h a x0 rest). reflexivity.
  Qed.
  Theorem canonical_p_is_sampler (r : prbm) k v h0 a0 draws :
    run_gibbs (p_prob_h_given_v O r) (p_prob_a_given_v O r) (fun _ => []) (p_prob_v_given_ha O r) canonical_p k v h0 a0 draws
    = p_gibbs_steps O r k v draws.
  Proof. unfold run_gibbs. apply canonical_p_loop. Qed.

  Corollary skeleton_b_is_sampler body : gbody_eqb body canonical_b = true ->
    forall (r : brbm) k v h0 a0 draws,
    run_gibbs (b_prob_h_given_v O r) (fun _ => []) (b_prob_v_given_h O r) (fun _ _ => []) body k v h0 a0 draws
    = b_gibbs_steps O r k v draws.
  Proof. intros H r k v h0 a0 draws. rewrite (gbody_eqb_eq _ _ H). apply canonical_b_is_sampler. Qed.

  Corollary skeleton_p_is_sampler body : gbody_eqb body canonical_p = true ->
    forall (r : prbm) k v h0 a0 draws,
    run_gibbs (p_prob_h_given_v O r) (p_prob_a_given_v O r) (fun _ => []) (p_prob_v_given_ha O r) body k v h0 a0 draws
    = p_gibbs_steps O r k v draws.
  Proof. intros H r k v h0 a0 draws. rewrite (gbody_eqb_eq _ _ H). apply canonical_p_is_sampler. Qed.
End R.
