(* StatsR.v — C13: the streaming merge of (mean, variance, count) triples equals the one-pass
   statistics of the concatenation; schedule and System theorems.
   Numeric theorems are at T := R (ROps); schedule / System theorems are for every number
   type and every sampler (no axioms). *)
From Coq Require Import List ZArith Bool Arith Reals Lra Lia.
From QModel Require Import Num Stats.
From QTheory Require Import RInst.
Import ListNotations.

(* ====================================================================================== *)
(* Part 1: discrete facts (any number type, any sampler)                                   *)
(* ====================================================================================== *)
Section Discrete.
  Context {T : Type} (O : NumOps T).

  Lemma update_count (a b : stat) :
    snd (update_statistics O a b) = (snd a + snd b)%nat.
  Proof.
    destruct a as [[ma va] la], b as [[mb vb] lb]. unfold update_statistics.
    destruct ((la =? lb)%nat && (lb =? 0)%nat) eqn:E; cbn [snd]; [|reflexivity].
    apply andb_true_iff in E. destruct E as [E1 E2].
    apply Nat.eqb_eq in E1, E2. lia.
  Qed.

  (* ---- ceil division and the number of chains / draws ---- *)
  Lemma ceil_div_ge a b : (0 < b)%nat -> (a <= b * ceil_div a b)%nat.
  Proof.
    intros Hb. unfold ceil_div.
    pose proof (Nat.div_mod_eq (a + (b - 1)) b) as E.
    pose proof (Nat.mod_upper_bound (a + (b - 1)) b ltac:(lia)) as U.
    lia.
  Qed.

  Lemma ceil_div_minimal a b : (0 < b)%nat -> (0 < a)%nat -> (b * (ceil_div a b - 1) < a)%nat.
  Proof.
    intros Hb Ha. unfold ceil_div.
    pose proof (Nat.div_mod_eq (a + (b - 1)) b) as E.
    rewrite Nat.mul_sub_distr_l. lia.
  Qed.

  Lemma ceil_div_pos a b : (0 < b)%nat -> (0 < a)%nat -> (0 < ceil_div a b)%nat.
  Proof.
    intros Hb Ha. pose proof (ceil_div_ge a b Hb).
    destruct (ceil_div a b); [lia | lia].
  Qed.

  Lemma ceil_div_exact c d : (0 < c)%nat -> ceil_div (c * d) c = d.
  Proof.
    intros Hc. unfold ceil_div.
    rewrite (Nat.mul_comm c d), Nat.div_add_l by lia.
    rewrite Nat.div_small by lia. lia.
  Qed.

  Lemma num_chains_eff_spec init_len nc S :
    num_chains_eff init_len nc S =
    match init_len with
    | Some l => l
    | None => if ((nc =? 0)%nat || (S <? nc)%nat) then S else nc
    end.
  Proof.
    unfold num_chains_eff. destruct init_len; [reflexivity|].
    destruct (nc =? 0)%nat eqn:E0; cbn [orb]; [reflexivity|].
    destruct (S <? nc)%nat eqn:E1.
    - apply Nat.ltb_lt in E1. lia.
    - apply Nat.ltb_ge in E1. lia.
  Qed.

  Lemma num_chains_eff_bounds nc S :
    (1 <= S)%nat -> (1 <= num_chains_eff None nc S <= S)%nat.
  Proof.
    intros HS. unfold num_chains_eff. destruct (nc =? 0)%nat eqn:E; [lia|].
    apply Nat.eqb_neq in E. lia.
  Qed.

  (* ---- the k schedule ---- *)
  Lemma k_schedule_shape burn steps d :
    k_schedule burn steps (S d) = burn :: repeat steps d.
  Proof.
    unfold k_schedule. cbn [seq map k_at Nat.eqb]. f_equal.
    generalize 0%nat. induction d as [|d IH]; intros i; cbn [seq map repeat]; [reflexivity|].
    rewrite IH. reflexivity.
  Qed.

  Section Run.
    Context {C : Type} (clen : C -> nat) (samp : nat -> nat -> nat -> option C -> C).

    Local Notation draw_loop := (@draw_loop C samp).
    Local Notation trace := (@trace C clen samp).

    Lemma draw_loop_length n : forall i burn steps chains cur,
      length (draw_loop n i burn steps chains cur) = n.
    Proof. induction n as [|n IH]; intros; cbn [Stats.draw_loop length]; [reflexivity | rewrite IH; reflexivity]. Qed.

    Lemma draw_loop_k n : forall i burn steps chains cur,
      map (@c_k C) (draw_loop n i burn steps chains cur) = map (k_at burn steps) (seq i n).
    Proof.
      induction n as [|n IH]; intros; cbn [Stats.draw_loop map seq c_k]; [reflexivity|].
      rewrite IH. reflexivity.
    Qed.

    Lemma draw_loop_n n : forall i burn steps chains cur,
      map (@c_n C) (draw_loop n i burn steps chains cur) = repeat chains n.
    Proof.
      induction n as [|n IH]; intros; cbn [Stats.draw_loop map repeat c_n]; [reflexivity|].
      rewrite IH. reflexivity.
    Qed.

    (* chain continuity: each call's initial_state is the previous call's result *)
    Fixpoint chained (prev : option C) (tr : list (@call C)) : Prop :=
      match tr with
      | [] => True
      | cl :: r => c_init cl = prev /\ chained (Some (c_ret cl)) r
      end.

    Lemma draw_loop_chained n : forall i burn steps chains cur,
      chained cur (draw_loop n i burn steps chains cur).
    Proof.
      induction n as [|n IH]; intros; cbn [Stats.draw_loop chained c_init c_ret]; [exact I|].
      split; [reflexivity | apply IH].
    Qed.

    (* every recorded call is what the sampler returns for that draw index, k, chain count
       and the initial state recorded *)
    Fixpoint genuine (i : nat) (tr : list (@call C)) : Prop :=
      match tr with
      | [] => True
      | cl :: r => c_ret cl = samp i (c_k cl) (c_n cl) (c_init cl) /\ genuine (S i) r
      end.

    Lemma draw_loop_genuine n : forall i burn steps chains cur,
      genuine i (draw_loop n i burn steps chains cur).
    Proof.
      induction n as [|n IH]; intros; cbn [Stats.draw_loop genuine c_init c_ret c_k c_n]; [exact I|].
      split; [reflexivity | apply IH].
    Qed.

    Lemma chained_nth prev tr : chained prev tr ->
      forall j cl cl', nth_error tr j = Some cl -> nth_error tr (S j) = Some cl' ->
                       c_init cl' = Some (c_ret cl).
    Proof.
      revert prev. induction tr as [|x r IH]; intros prev H j cl cl' H1 H2.
      - destruct j; discriminate.
      - destruct H as [_ H]. destruct j as [|j].
        + cbn in H1, H2. injection H1 as <-. destruct r as [|y r']; [discriminate|].
          cbn in H2. injection H2 as <-. destruct H as [H _]. exact H.
        + cbn in H1. apply (IH _ H j cl cl' H1). exact H2.
    Qed.

    Lemma chained_head prev tr cl : chained prev tr -> nth_error tr 0 = Some cl -> c_init cl = prev.
    Proof. destruct tr as [|x r]; [discriminate|]. intros [H _] E. cbn in E. injection E as <-. exact H. Qed.

    Lemma trace_length init S nc burn steps :
      length (trace init S nc burn steps) = num_draws S (chains_of clen init nc S).
    Proof. unfold Stats.trace. apply draw_loop_length. Qed.

    Lemma trace_k init S nc burn steps :
      map (@c_k C) (trace init S nc burn steps) =
      k_schedule burn steps (num_draws S (chains_of clen init nc S)).
    Proof. unfold Stats.trace, k_schedule. apply draw_loop_k. Qed.

    Lemma trace_n init S nc burn steps :
      map (@c_n C) (trace init S nc burn steps) =
      repeat (chains_of clen init nc S) (num_draws S (chains_of clen init nc S)).
    Proof. unfold Stats.trace. apply draw_loop_n. Qed.

    Lemma trace_chained init S nc burn steps : chained init (trace init S nc burn steps).
    Proof. unfold Stats.trace. apply draw_loop_chained. Qed.

    Lemma trace_genuine init S nc burn steps : genuine 0 (trace init S nc burn steps).
    Proof. unfold Stats.trace. apply draw_loop_genuine. Qed.

    (* ---- running count ---- *)
    Lemma running_app obs chains tr (cl : @call C) :
      running O obs chains (tr ++ [cl]) =
      update_statistics O (running O obs chains tr) (chunk_of O obs chains (c_ret cl)).
    Proof. unfold running. rewrite fold_left_app. reflexivity. Qed.

    Lemma running_count obs chains (tr : list (@call C)) :
      snd (running O obs chains tr) = (length tr * chains)%nat.
    Proof.
      induction tr as [|cl tr IH] using rev_ind; [reflexivity|].
      rewrite running_app, update_count, IH, app_length. cbn [chunk_of snd length]. lia.
    Qed.

    Lemma finish_count (s : stat) : snd (finish O s) = snd s.
    Proof. destruct s as [[m v] n]. reflexivity. Qed.

    Lemma statistics_count obs init S nc burn steps :
      snd (statistics O clen samp obs init S nc burn steps) =
      (chains_of clen init nc S * num_draws S (chains_of clen init nc S))%nat.
    Proof.
      unfold statistics. rewrite finish_count, running_count, trace_length. lia.
    Qed.

    Lemma statistics_count_ge obs init S nc burn steps :
      (0 < chains_of clen init nc S)%nat ->
      (S <= snd (statistics O clen samp obs init S nc burn steps))%nat.
    Proof. intros H. rewrite statistics_count. apply ceil_div_ge, H. Qed.

    (* ---- System.statistics gives each observable what it gets alone ---- *)
    Definition strip (s : stat) : T * option T := (fst (fst s), snd (fst s)).

    Lemma map_combine_self {A B D} (F : A * B -> D) (g : A -> B) (l : list A) :
      map F (combine l (map g l)) = map (fun x => F (x, g x)) l.
    Proof. induction l as [|x l IH]; cbn [map combine]; [reflexivity | rewrite IH; reflexivity]. Qed.

    Lemma sys_running_app obss chains tr (cl : @call C) :
      sys_running O obss chains (tr ++ [cl]) = sys_step O obss chains (sys_running O obss chains tr) cl.
    Proof. unfold sys_running. rewrite fold_left_app. reflexivity. Qed.

    Lemma sys_running_spec obss chains (tr : list (@call C)) :
      sys_running O obss chains tr =
      (map (fun obs => strip (running O obs chains tr)) obss, (length tr * chains)%nat).
    Proof.
      induction tr as [|cl tr IH] using rev_ind.
      - unfold sys_running. cbn [fold_left length Nat.mul]. f_equal.
      - rewrite sys_running_app, IH. unfold sys_step.
        rewrite map_combine_self. f_equal.
        + apply map_ext. intros obs. rewrite running_app.
          pose proof (running_count obs chains tr) as Hc.
          destruct (running O obs chains tr) as [[m v] n] eqn:E. cbn [snd] in Hc. subst n.
          unfold strip at 1. cbn [fst snd].
          destruct (update_statistics O (m, v, (length tr * chains)%nat)
                      (chunk_of O obs chains (c_ret cl))) as [[m' v'] n'].
          reflexivity.
        + rewrite app_length. cbn [length]. lia.
    Qed.

    Lemma system_equals_individual obss init S nc burn steps :
      system_statistics O clen samp obss init S nc burn steps =
      map (fun obs => statistics O clen samp obs init S nc burn steps) obss.
    Proof.
      unfold system_statistics, statistics. rewrite sys_running_spec, map_map.
      apply map_ext. intros obs.
      pose proof (running_count obs (chains_of clen init nc S) (trace init S nc burn steps)) as Hc.
      destruct (running O obs (chains_of clen init nc S) (trace init S nc burn steps)) as [[m v] n].
      cbn [snd] in Hc. subst n. reflexivity.
    Qed.

    (* ---- the caller's tensor ---- *)
    Lemma caller_unchanged_without_overwrite (init : C) tr :
      caller_tensor_after false init tr = init.
    Proof. reflexivity. Qed.

    Lemma caller_holds_final_states_with_overwrite (init : C) tr cl :
      caller_tensor_after true init (tr ++ [cl]) = c_ret cl.
    Proof. unfold caller_tensor_after. rewrite map_app. cbn [map]. apply last_last. Qed.
  End Run.
End Discrete.

(* ====================================================================================== *)
(* Part 2: the merge arithmetic at T := R                                                  *)
(* ====================================================================================== *)
Open Scope R_scope.

Lemma nofnat_R n : nofnat ROps n = INR n.
Proof. unfold nofnat; cbn [nofZ ROps]. symmetry; apply INR_IZR_INZ. Qed.

Definition sumsq (xs : list R) : R := sum ROps (map (fun x => x * x) xs).

Lemma sumsq_app a b : sumsq (a ++ b) = sumsq a + sumsq b.
Proof. unfold sumsq. rewrite map_app. apply sum_app. Qed.

Lemma mean_R xs : mean ROps xs = sum ROps xs / INR (length xs).
Proof. unfold mean. rewrite nofnat_R. reflexivity. Qed.

(* sum of squared deviations about any centre *)
Lemma ssq_shift xs c :
  ssq ROps xs c = sumsq xs - 2 * c * sum ROps xs + INR (length xs) * c * c.
Proof.
  unfold ssq, sumsq. induction xs as [|x xs IH].
  - cbn. ring.
  - cbn [map sum length]. rewrite S_INR. cbn [nadd ROps] in *. rewrite IH.
    unfold sqr. cbn [nmul nsub ROps]. ring.
Qed.

Lemma ssq_nonneg xs c : 0 <= ssq ROps xs c.
Proof.
  unfold ssq. apply sum_nonneg. intros y Hy. apply in_map_iff in Hy.
  destruct Hy as [x [<- _]]. change (0 <= (x - c) * (x - c)).
  pose proof (Rle_0_sqr (x - c)) as H; unfold Rsqr in H; exact H.
Qed.

Lemma INR_pred_neq0 n : (1 < n)%nat -> INR (n - 1) <> 0.
Proof. intros H. apply not_0_INR. lia. Qed.

(* whatever the length, the code's "scaled variance" of a one-pass chunk statistic is the sum
   of squared deviations about the chunk mean (0 for chunks of length 0 or 1, where the
   variance argument — nan — is ignored) *)
Lemma scaled_var_stats xs :
  scaled_var ROps (variance ROps xs) (length xs) = Some (ssq ROps xs (mean ROps xs)).
Proof.
  unfold scaled_var, variance. destruct (1 <? length xs)%nat eqn:E.
  - apply Nat.ltb_lt in E. cbn [option_map]. f_equal. cbn [nmul ndiv ROps].
    rewrite nofnat_R. field. apply INR_pred_neq0, E.
  - apply Nat.ltb_ge in E. f_equal. destruct xs as [|x [|y l]].
    + reflexivity.
    + rewrite mean_R. unfold ssq, sqr. cbn. field.
    + cbn [length] in E. lia.
Qed.

Lemma merge_core (A B A2 B2 na nb : R) : na <> 0 -> nb <> 0 -> na + nb <> 0 ->
  (A2 - 2 * (A / na) * A + na * (A / na) * (A / na))
  + (B2 - 2 * (B / nb) * B + nb * (B / nb) * (B / nb))
  + ((B / nb - A / na) * (B / nb - A / na) * na * nb) / (na + nb)
  = (A2 + B2) - 2 * ((A + B) / (na + nb)) * (A + B)
    + (na + nb) * ((A + B) / (na + nb)) * ((A + B) / (na + nb)).
Proof. intros. field. repeat split; assumption. Qed.

Lemma INR_len_neq0 {A} (l : list A) : l <> [] -> INR (length l) <> 0.
Proof. intros H. apply not_0_INR. destruct l; [congruence | cbn; lia]. Qed.

(* the numerator of the merged variance is the sum of squared deviations of the concatenation *)
Lemma merge_ssq a b : a <> [] -> b <> [] ->
  ssq ROps a (mean ROps a) + ssq ROps b (mean ROps b)
  + ((mean ROps b - mean ROps a) * (mean ROps b - mean ROps a) * INR (length a) * INR (length b))
    / INR (length a + length b)
  = ssq ROps (a ++ b) (mean ROps (a ++ b)).
Proof.
  intros Ha Hb. rewrite !ssq_shift, !mean_R, app_length, sum_app, sumsq_app, !plus_INR.
  apply merge_core; try (apply INR_len_neq0; assumption).
  pose proof (pos_INR (length a)). pose proof (pos_INR (length b)).
  pose proof (INR_len_neq0 a Ha). lra.
Qed.

Lemma pair3 {A B D} (a a' : A) (b b' : B) (c c' : D) :
  a = a' -> b = b' -> c = c' -> (a, b, c) = (a', b', c').
Proof. intros; subst; reflexivity. Qed.

(* merge of two non-empty chunks (lengths 1 included) *)
Lemma merge_nonempty a b : a <> [] -> b <> [] ->
  update_statistics ROps (stats ROps a) (stats ROps b) = stats ROps (a ++ b).
Proof.
  intros Ha Hb. unfold stats at 1 2. unfold update_statistics.
  assert (Lb : (length b =? 0)%nat = false)
    by (apply Nat.eqb_neq; destruct b; [congruence | cbn; lia]).
  rewrite Lb, andb_false_r.
  rewrite !scaled_var_stats. unfold stats.
  pose proof (INR_len_neq0 a Ha) as Na. pose proof (INR_len_neq0 b Hb) as Nb.
  assert (Nab : INR (length a) + INR (length b) <> 0)
    by (pose proof (pos_INR (length a)); pose proof (pos_INR (length b)); lra).
  apply pair3.
  - cbn [ndiv nadd nmul ROps]. rewrite !nofnat_R, !mean_R, app_length, sum_app, plus_INR. field.
    repeat split; assumption.
  - unfold variance. rewrite app_length.
    destruct (1 <? length a + length b)%nat eqn:E; [|reflexivity].
    f_equal. cbn [ndiv nadd nmul nsub ROps]. rewrite !nofnat_R.
    rewrite <- (app_length a b) at 2 3. rewrite <- merge_ssq by assumption. reflexivity.
  - symmetry. apply app_length.
Qed.

(* merge into an empty running total: whatever mean / variance the empty side carries
   (0.0 / 0.0 initially), the result is the chunk's own statistics — nan (None) variance
   for a chunk of a single value *)
Lemma merge_empty_left m v b : b <> [] ->
  update_statistics ROps (m, v, 0%nat) (stats ROps b) = stats ROps b.
Proof.
  intros Hb. unfold stats at 1. unfold update_statistics.
  assert (Lb : (length b =? 0)%nat = false)
    by (apply Nat.eqb_neq; destruct b; [congruence | cbn; lia]).
  rewrite Lb, andb_false_r. rewrite scaled_var_stats.
  unfold scaled_var at 1. change (1 <? 0)%nat with false. cbv iota.
  pose proof (INR_len_neq0 b Hb) as Nb. unfold stats.
  apply pair3.
  - cbn [ndiv nadd nmul ROps Nat.add]. rewrite !nofnat_R. cbn [INR]. field. exact Nb.
  - unfold variance. cbn [Nat.add].
    destruct (1 <? length b)%nat eqn:E; [|reflexivity].
    f_equal. cbn [ndiv nadd nmul nsub n0 ROps]. rewrite !nofnat_R. cbn [INR]. field.
    split; [apply INR_pred_neq0, Nat.ltb_lt, E | exact Nb].
  - reflexivity.
Qed.

Lemma merge_empty_right a m v : a <> [] ->
  update_statistics ROps (stats ROps a) (m, v, 0%nat) = stats ROps a.
Proof.
  intros Ha. unfold stats at 1. unfold update_statistics.
  assert (La : (length a =? 0)%nat = false)
    by (apply Nat.eqb_neq; destruct a; [congruence | cbn; lia]).
  rewrite La. cbn [andb]. rewrite scaled_var_stats.
  unfold scaled_var at 1. change (1 <? 0)%nat with false. cbv iota.
  pose proof (INR_len_neq0 a Ha) as Na. unfold stats.
  apply pair3.
  - cbn [ndiv nadd nmul ROps]. rewrite Nat.add_0_r, !nofnat_R. cbn [INR]. field. exact Na.
  - unfold variance. rewrite Nat.add_0_r.
    destruct (1 <? length a)%nat eqn:E; [|reflexivity].
    f_equal. cbn [ndiv nadd nmul nsub n0 ROps]. rewrite !nofnat_R. cbn [INR]. field.
    split; [apply INR_pred_neq0, Nat.ltb_lt, E | exact Na].
  - apply Nat.add_0_r.
Qed.

(* update (stats a) (stats b) = stats (a ++ b) under the code's guard (not both empty) *)
Lemma merge_is_concat a b : (a <> [] \/ b <> []) ->
  update_statistics ROps (stats ROps a) (stats ROps b) = stats ROps (a ++ b).
Proof.
  intros H. destruct a as [|x a'].
  - destruct H as [H|H]; [congruence|]. unfold stats at 1. cbn [length app].
    apply merge_empty_left, H.
  - destruct b as [|y b'].
    + rewrite app_nil_r. unfold stats at 2. cbn [length]. apply merge_empty_right. discriminate.
    + apply merge_nonempty; discriminate.
Qed.

Lemma merge_init b : b <> [] -> update_statistics ROps (init_stat ROps) (stats ROps b) = stats ROps b.
Proof. apply merge_empty_left. Qed.

(* every chunking *)
Lemma fold_merge cs : forall acc, acc <> [] -> Forall (fun c => c <> []) cs ->
  fold_left (fun run c => update_statistics ROps run (stats ROps c)) cs (stats ROps acc)
  = stats ROps (acc ++ concat cs).
Proof.
  induction cs as [|c cs IH]; intros acc Hacc Hcs; cbn [fold_left concat].
  - rewrite app_nil_r. reflexivity.
  - inversion Hcs as [|? ? Hc Hcs']; subst.
    rewrite merge_nonempty by assumption. rewrite IH; [|destruct acc; [congruence | discriminate] | assumption].
    rewrite app_assoc. reflexivity.
Qed.

Lemma merge_all_chunkings cs : cs <> [] -> Forall (fun c => c <> []) cs ->
  merge_chunks ROps cs = stats ROps (concat cs).
Proof.
  intros Hne Hcs. destruct cs as [|c cs]; [congruence|].
  inversion Hcs as [|? ? Hc Hcs']; subst.
  unfold merge_chunks. cbn [fold_left concat]. rewrite merge_init by assumption.
  apply fold_merge; assumption.
Qed.

Lemma merge_no_chunks : merge_chunks ROps [] = init_stat ROps.
Proof. reflexivity. Qed.

(* ---- variance is definite exactly when there are at least two values ---- *)
Lemma variance_some xs : (2 <= length xs)%nat ->
  variance ROps xs = Some (ssq ROps xs (mean ROps xs) / INR (length xs - 1)).
Proof.
  intros H. unfold variance. assert (E : (1 <? length xs)%nat = true) by (apply Nat.ltb_lt; lia).
  rewrite E. cbn [ndiv ROps]. rewrite nofnat_R. reflexivity.
Qed.

Lemma variance_none xs : (length xs < 2)%nat -> variance ROps xs = None.
Proof.
  intros H. unfold variance. assert (E : (1 <? length xs)%nat = false) by (apply Nat.ltb_ge; lia).
  rewrite E. reflexivity.
Qed.

Lemma variance_nonneg xs v : variance ROps xs = Some v -> 0 <= v.
Proof.
  unfold variance. destruct (1 <? length xs)%nat eqn:E; [|discriminate].
  intros H. injection H as H. subst v. apply Nat.ltb_lt in E. rewrite <- !INR_IZR_INZ.
  apply Rmult_le_pos; [apply ssq_nonneg|]. left. apply Rinv_0_lt_compat.
  apply lt_0_INR. lia.
Qed.

Lemma std_error_R v n : std_error ROps (Some v) n = Some (sqrt (v / INR n)).
Proof. unfold std_error. cbn [option_map nsqrt ndiv ROps]. rewrite nofnat_R. reflexivity. Qed.

(* ---- the whole of ObservableBase.statistics ---- *)
Section RunR.
  Context {C : Type} (clen : C -> nat) (samp : nat -> nat -> nat -> option C -> C).

  (* all observable values, in the order drawn *)
  Definition all_values (obs : C -> list R) (tr : list (@call C)) : list R :=
    concat (map (fun cl => obs (c_ret cl)) tr).

  Lemma running_is_merge obs chains (tr : list (@call C)) :
    Forall (fun cl => length (obs (c_ret cl)) = chains) tr ->
    running ROps obs chains tr = merge_chunks ROps (map (fun cl => obs (c_ret cl)) tr).
  Proof.
    intros H. unfold running, merge_chunks. generalize (init_stat ROps).
    induction tr as [|cl tr IH]; intros s; cbn [fold_left map]; [reflexivity|].
    inversion H as [|? ? Hcl Htr]; subst.
    rewrite IH by assumption. f_equal.
  Qed.

  Lemma draw_loop_contract (obs : C -> list R) chains n : forall i burn steps cur,
    (forall i k cur, length (obs (samp i k chains cur)) = chains) ->
    Forall (fun cl => length (obs (c_ret cl)) = chains) (draw_loop samp n i burn steps chains cur).
  Proof.
    induction n as [|n IH]; intros; cbn [draw_loop]; constructor; [cbn [c_ret]; auto | apply IH; assumption].
  Qed.

  (* the sampler contract: asked for [chains] chains (or handed [chains] chain states), the
     sampler returns that many, and the observable yields one value per chain *)
  Theorem statistics_is_one_pass obs init S nc burn steps :
    let chains := chains_of clen init nc S in
    (1 <= chains)%nat -> (1 <= S)%nat ->
    (forall i k cur, length (obs (samp i k chains cur)) = chains) ->
    statistics ROps clen samp obs init S nc burn steps =
    finish ROps (stats ROps (all_values obs (trace clen samp init S nc burn steps))).
  Proof.
    intros chains Hc HS Hlen. unfold statistics. fold chains. f_equal.
    assert (HF : Forall (fun cl => length (obs (c_ret cl)) = chains) (trace clen samp init S nc burn steps))
      by (unfold trace; apply draw_loop_contract; exact Hlen).
    rewrite running_is_merge by exact HF. unfold all_values.
    apply merge_all_chunkings.
    - pose proof (trace_length clen samp init S nc burn steps) as L. fold chains in L.
      pose proof (ceil_div_pos S chains ltac:(lia) ltac:(lia)) as P. unfold num_draws in L.
      destruct (trace clen samp init S nc burn steps); [cbn in L; lia | discriminate].
    - apply Forall_map. eapply Forall_impl; [|exact HF]. cbn beta. intros cl E.
      destruct (obs (c_ret cl)); [cbn in E; lia | discriminate].
  Qed.

  Lemma all_values_length obs chains (tr : list (@call C)) :
    Forall (fun cl => length (obs (c_ret cl)) = chains) tr ->
    length (all_values obs tr) = (length tr * chains)%nat.
  Proof.
    unfold all_values. induction tr as [|cl tr IH]; intros H; cbn [map concat length]; [reflexivity|].
    inversion H; subst. rewrite app_length, IH by assumption. lia.
  Qed.

  (* total count >= 2  ==>  the reported variance and standard error are definite values:
     the unbiased variance of all drawn values, and sqrt(variance / count) *)
  Theorem statistics_variance_definite obs init S nc burn steps :
    let chains := chains_of clen init nc S in
    let xs := all_values obs (trace clen samp init S nc burn steps) in
    (1 <= chains)%nat -> (1 <= S)%nat ->
    (forall i k cur, length (obs (samp i k chains cur)) = chains) ->
    (2 <= chains * num_draws S chains)%nat ->
    length xs = (chains * num_draws S chains)%nat /\
    statistics ROps clen samp obs init S nc burn steps =
    (mean ROps xs,
     Some (ssq ROps xs (mean ROps xs) / INR (length xs - 1)),
     Some (sqrt (ssq ROps xs (mean ROps xs) / INR (length xs - 1) / INR (length xs))),
     length xs) /\
    0 <= ssq ROps xs (mean ROps xs) / INR (length xs - 1).
  Proof.
    intros chains xs Hc HS Hlen H2.
    assert (L : length xs = (chains * num_draws S chains)%nat).
    { unfold xs. rewrite (all_values_length obs chains).
      - rewrite trace_length. fold chains. lia.
      - unfold trace. apply draw_loop_contract. exact Hlen. }
    split; [exact L|].
    assert (V := variance_some xs ltac:(lia)).
    split.
    - rewrite statistics_is_one_pass by assumption. fold chains. fold xs.
      unfold stats, finish. rewrite V, std_error_R. reflexivity.
    - eapply variance_nonneg. exact V.
  Qed.

  (* a single value in total: variance and standard error are undefined (nan) *)
  Theorem statistics_single_value obs init S nc burn steps :
    let chains := chains_of clen init nc S in
    let xs := all_values obs (trace clen samp init S nc burn steps) in
    (1 <= chains)%nat -> (1 <= S)%nat ->
    (forall i k cur, length (obs (samp i k chains cur)) = chains) ->
    (chains * num_draws S chains = 1)%nat ->
    statistics ROps clen samp obs init S nc burn steps = (mean ROps xs, None, None, 1%nat).
  Proof.
    intros chains xs Hc HS Hlen H1.
    assert (L : length xs = 1%nat).
    { unfold xs. rewrite (all_values_length obs chains).
      - rewrite trace_length. fold chains. lia.
      - unfold trace. apply draw_loop_contract. exact Hlen. }
    rewrite statistics_is_one_pass by assumption. fold chains. fold xs.
    unfold stats, finish. rewrite (variance_none xs) by lia. rewrite L. reflexivity.
  Qed.
End RunR.

(* ---- non-vacuity: concrete instances of the hypotheses ---- *)
Example merge_example :
  update_statistics ROps (stats ROps [1]) (stats ROps [3]) = (2, Some 2, 2%nat).
Proof.
  rewrite merge_is_concat by (left; discriminate). unfold stats. cbn [app].
  apply pair3; [rewrite mean_R; cbn; lra | | reflexivity].
  rewrite variance_some by (cbn; lia). f_equal. rewrite mean_R. unfold ssq, sqr. cbn. field.
Qed.

Example hypotheses_example :
  let samp := fun (i k n : nat) (cur : option (list R)) => repeat (INR i) n in
  let chains := chains_of (@length R) None 2 5 in
  (1 <= chains)%nat /\ (1 <= 5)%nat
  /\ (forall i k cur, length ((fun c : list R => c) (samp i k chains cur)) = chains)
  /\ (2 <= chains * num_draws 5 chains)%nat
  /\ (chains * num_draws 5 chains = 6)%nat.
Proof.
  cbv zeta. change (chains_of (@length R) None 2 5) with 2%nat.
  change (num_draws 5 2) with 3%nat.
  split; [lia|]. split; [lia|]. split; [intros; apply repeat_length|]. split; lia.
Qed.
