(* CallbacksT.v — proofs about model/Callbacks.v (C17: periodic callbacks, C18: early stopping). *)
From Coq Require Import List ZArith Bool Arith Lia Znumtheory Reals Lra.
From QModel Require Import Num Callbacks.
From QTheory Require Import RInst.
Import ListNotations.
Local Open Scope nat_scope.

(* ------------------------------------------------------------------ small list facts *)
Lemma flat_map_if_filter {A B} (c : A -> bool) (g : A -> B) l :
  flat_map (fun x => if c x then [g x] else []) l = map g (filter c l).
Proof. induction l as [|a l IH]; simpl; [reflexivity|]. destruct (c a); simpl; rewrite IH; reflexivity. Qed.

Lemma filter_map_comm {A B} (f : A -> B) (c : B -> bool) l :
  filter c (map f l) = map f (filter (fun a => c (f a)) l).
Proof. induction l as [|a l IH]; simpl; [reflexivity|]. destruct (c (f a)); simpl; rewrite IH; reflexivity. Qed.

Lemma last_nonempty_default {A} (l : list A) a d d' : last (a :: l) d = last (a :: l) d'.
Proof. revert a. induction l as [|b l IH]; intros a; [reflexivity|]. simpl in *. apply IH. Qed.

Lemma last_cons_default {A} (l : list A) a d : last (a :: l) d = last l a.
Proof. destruct l as [|b l]; [reflexivity|]. change (last (b :: l) d = last (b :: l) a). apply last_nonempty_default. Qed.

Lemma last_app_ne {A} (l1 l2 : list A) d : l2 <> [] -> last (l1 ++ l2) d = last l2 d.
Proof.
  intros H. induction l1 as [|a l IH]; [reflexivity|]. simpl app.
  destruct (l ++ l2) as [|x l0] eqn:E.
  - destruct l; [simpl in E; congruence | discriminate].
  - exact IH.
Qed.

Lemma nth_error_last {A} (l : list A) d : l <> [] -> nth_error l (length l - 1) = Some (last l d).
Proof.
  induction l as [|a l IH]; [congruence|]. intros _.
  destruct l as [|b l]; [reflexivity|].
  replace (length (a :: b :: l) - 1) with (S (length (b :: l) - 1)) by (simpl; lia).
  change (nth_error (b :: l) (length (b :: l) - 1) = Some (last (b :: l) d)).
  apply IH. discriminate.
Qed.

Lemma mapM_map_some {A B} (f : A -> option B) (g : A -> B) l :
  (forall a, In a l -> f a = Some (g a)) -> mapM f l = Some (map g l).
Proof.
  induction l as [|a l IH]; intros H; simpl; [reflexivity|].
  rewrite (H a (or_introl eq_refl)), IH; [reflexivity | intros; apply H; right; assumption].
Qed.

Lemma mapM_map {A B C} (f : B -> option C) (g : A -> B) l : mapM f (map g l) = mapM (fun a => f (g a)) l.
Proof. induction l as [|a l IH]; simpl; [reflexivity | rewrite IH; reflexivity]. Qed.

Lemma name_eqb_refl n : name_eqb n n = true.
Proof. induction n as [|x n IH]; simpl; [reflexivity | rewrite Nat.eqb_refl, IH; reflexivity]. Qed.

Lemma name_eqb_eq a b : name_eqb a b = true <-> a = b.
Proof.
  revert b; induction a as [|x a IH]; intros [|y b]; simpl; split; intros H; try reflexivity; try discriminate.
  - apply andb_true_iff in H as [H1 H2]. apply Nat.eqb_eq in H1. apply IH in H2. congruence.
  - inversion H; subst. rewrite Nat.eqb_refl. simpl. apply name_eqb_refl.
Qed.

(* ------------------------------------------------------------------ the period gate *)
Definition dividesb (p e : Z) : bool := if Zdivide_dec p e then true else false.

Lemma fires_divide p e : (0 < p)%Z -> (fires p e = true <-> (p | e)%Z).
Proof. intros Hp. unfold fires. rewrite Z.eqb_eq. apply Z.mod_divide. lia. Qed.

Lemma fires_dividesb p e : (0 < p)%Z -> fires p e = dividesb p e.
Proof.
  intros Hp. unfold dividesb. destruct (Zdivide_dec p e) as [d|nd].
  - apply fires_divide; assumption.
  - destruct (fires p e) eqn:E; [|reflexivity]. exfalso; apply nd, (fires_divide p e Hp), E.
Qed.

Lemma filter_fires_dividesb p l : (0 < p)%Z -> filter (fires p) l = filter (dividesb p) l.
Proof. intros Hp. apply filter_ext. intros e; apply fires_dividesb; assumption. Qed.

(* ------------------------------------------------------------------ index normalisation *)
Lemma norm_index_nonneg len i : (0 <= i < Z.of_nat len)%Z -> norm_index len i = Some (Z.to_nat i).
Proof.
  intros H. unfold norm_index.
  destruct (Z.leb_spec 0 i); [|lia]. destruct (Z.ltb_spec i (Z.of_nat len)); [reflexivity | lia].
Qed.

Lemma norm_index_neg len i : (- Z.of_nat len <= i < 0)%Z -> norm_index len i = Some (Z.to_nat (Z.of_nat len + i)).
Proof.
  intros H. unfold norm_index.
  destruct (Z.leb_spec 0 i); [lia|]. destruct (Z.leb_spec (- Z.of_nat len) i); [reflexivity | lia].
Qed.

Lemma norm_index_oob len i : (Z.of_nat len <= i \/ i < - Z.of_nat len)%Z -> norm_index len i = None.
Proof.
  intros H. unfold norm_index.
  destruct (Z.leb_spec 0 i).
  - destruct (Z.ltb_spec i (Z.of_nat len)); [lia | reflexivity].
  - destruct (Z.leb_spec (- Z.of_nat len) i); [lia | reflexivity].
Qed.

Lemma norm_index_lt len i k : norm_index len i = Some k -> k < len.
Proof.
  unfold norm_index.
  destruct (Z.leb_spec 0 i).
  - destruct (Z.ltb_spec i (Z.of_nat len)); intros E; inversion E; lia.
  - destruct (Z.leb_spec (- Z.of_nat len) i); intros E; inversion E; lia.
Qed.

(* the look-back of EarlyStopping: index -p-1 of a history of length len > p is position len-1-p;
   the current evaluation (index -1) is position len-1 *)
Lemma norm_index_lookback len p : p < len -> norm_index len (- Z.of_nat p - 1) = Some (len - 1 - p).
Proof. intros H. rewrite norm_index_neg by lia. f_equal. lia. Qed.

Lemma norm_index_current len : 0 < len -> norm_index len (-1) = Some (len - 1).
Proof. intros H. rewrite norm_index_neg by lia. f_equal. lia. Qed.

(* ================================================================== evaluators *)
Section EvT.
  Context {S V : Type}.
  Implicit Types (m : S -> vals V) (ev : evaluator V) (run : list (Z * S)).

  (* the EpochEnd events of the run at which a callback of period p acts *)
  Definition fired (p : Z) run : list (Z * S) := filter (fun es => fires p (fst es)) run.
  (* what an evaluator of period p with metric functions m computes during the run *)
  Definition records (p : Z) m run : list (Z * vals V) := map (fun es => (fst es, m (snd es))) (fired p run).

  Lemma ev_on_epoch_end_period m ev e s : ev_period (ev_on_epoch_end m ev e s) = ev_period ev.
  Proof. unfold ev_on_epoch_end. destruct (fires (ev_period ev) e); reflexivity. Qed.

  Lemma ev_run_period m run : forall ev, ev_period (ev_run m ev run) = ev_period ev.
  Proof. induction run as [|[e s] r IH]; intros ev; simpl; [reflexivity|]. rewrite IH. apply ev_on_epoch_end_period. Qed.

  Lemma ev_run_past m run : forall ev, ev_past (ev_run m ev run) = ev_past ev ++ records (ev_period ev) m run.
  Proof.
    induction run as [|[e s] r IH]; intros ev; simpl.
    - unfold records, fired; simpl. rewrite app_nil_r; reflexivity.
    - rewrite IH, ev_on_epoch_end_period. unfold ev_on_epoch_end, records, fired. simpl.
      destruct (fires (ev_period ev) e); simpl; [rewrite <- app_assoc; reflexivity | reflexivity].
  Qed.

  Lemma ev_run_log m run : forall ev, ev_log (ev_run m ev run) = ev_log ev ++ records (ev_period ev) m run.
  Proof.
    induction run as [|[e s] r IH]; intros ev; simpl.
    - unfold records, fired; simpl. rewrite app_nil_r; reflexivity.
    - rewrite IH, ev_on_epoch_end_period. unfold ev_on_epoch_end, records, fired. simpl.
      destruct (fires (ev_period ev) e); simpl; [rewrite <- app_assoc; reflexivity | reflexivity].
  Qed.

  Lemma ev_run_last m run : forall ev,
    ev_last (ev_run m ev run) = snd (last (records (ev_period ev) m run) (0%Z, ev_last ev)).
  Proof.
    induction run as [|[e s] r IH]; intros ev; simpl; [reflexivity|].
    rewrite IH, ev_on_epoch_end_period. unfold ev_on_epoch_end, records, fired. simpl.
    destruct (fires (ev_period ev) e); simpl map; [|reflexivity].
    rewrite last_cons_default. simpl.
    destruct (map (fun es : Z * S => (fst es, m (snd es))) (filter (fun es : Z * S => fires (ev_period ev) (fst es)) r)) as [|x l];
      [reflexivity|]. f_equal. apply last_nonempty_default.
  Qed.

  Lemma fired_epochs p run : map fst (fired p run) = filter (fires p) (map fst run).
  Proof. unfold fired. rewrite filter_map_comm. reflexivity. Qed.

  Lemma records_epochs p m run : map fst (records p m run) = filter (fires p) (map fst run).
  Proof. unfold records. rewrite map_map. simpl. apply fired_epochs. Qed.

  (* ---- C17.1 fires exactly on multiples *)
  Theorem fires_exactly_on_multiples p m run : (1 <= p)%Z ->
    ev_epochs (ev_run m (ev_new p) run) = filter (dividesb p) (map fst run).
  Proof.
    intros Hp. unfold ev_epochs. rewrite ev_run_past. simpl.
    rewrite records_epochs. apply filter_fires_dividesb. lia.
  Qed.

  Theorem recorded_iff_multiple p m run e : (1 <= p)%Z ->
    (In e (ev_epochs (ev_run m (ev_new p) run)) <-> In e (map fst run) /\ (p | e)%Z).
  Proof.
    intros Hp. unfold ev_epochs. rewrite ev_run_past. simpl. rewrite records_epochs, filter_In.
    rewrite (fires_divide p e) by lia. reflexivity.
  Qed.

  (* a step at a non-multiple changes nothing; a step at a multiple appends exactly one record *)
  Theorem step_gate m ev e s : (1 <= ev_period ev)%Z ->
    (~ (ev_period ev | e)%Z -> ev_on_epoch_end m ev e s = ev) /\
    ((ev_period ev | e)%Z -> ev_past (ev_on_epoch_end m ev e s) = ev_past ev ++ [(e, m s)]
                              /\ ev_last (ev_on_epoch_end m ev e s) = m s).
  Proof.
    intros Hp. unfold ev_on_epoch_end. split; intros H.
    - destruct (fires (ev_period ev) e) eqn:E; [|reflexivity]. exfalso; apply H. apply fires_divide; [lia|assumption].
    - assert (E : fires (ev_period ev) e = true) by (apply fires_divide; [lia|assumption]). rewrite E. simpl. split; reflexivity.
  Qed.

  (* ---- C17.2 records match *)
  Theorem records_len p m run ev : ev_past ev = records p m run -> ev_len ev = length (fired p run).
  Proof. intros H. unfold ev_len. rewrite H. unfold records. apply map_length. Qed.

  Theorem records_array p m run ev n (f : S -> V) :
    ev_past ev = records p m run -> (forall s, lookup n (m s) = Some (f s)) ->
    ev_array n ev = Ok (map (fun es => f (snd es)) (fired p run)).
  Proof.
    intros H Hn. unfold ev_array. rewrite H. unfold records. rewrite mapM_map. simpl.
    rewrite (mapM_map_some _ (fun es => f (snd es))); [reflexivity | intros; apply Hn].
  Qed.
End EvT.

Section EvT2.
  Context {S V : Type}.
  Implicit Types (m : S -> vals V) (ev : evaluator V) (run : list (Z * S)).

  (* get_value on any evaluator state, by position *)
  Lemma get_value_at n ev i k r :
    norm_index (length (ev_past ev)) i = Some k -> nth_error (ev_past ev) k = Some r ->
    ev_get_value n (Some i) ev = match lookup n (snd r) with Some v => Ok v | None => Err KeyError end.
  Proof. intros H1 H2. unfold ev_get_value. rewrite H1, H2. destruct r; reflexivity. Qed.

  Lemma get_value_out_of_range n ev i :
    (Z.of_nat (ev_len ev) <= i \/ i < - Z.of_nat (ev_len ev))%Z -> ev_get_value n (Some i) ev = Err IndexError.
  Proof. intros H. unfold ev_get_value. rewrite norm_index_oob by exact H. reflexivity. Qed.

  Lemma get_value_default n ev : ev_get_value n None ev = ev_get_value n (Some (-1)%Z) ev.
  Proof. reflexivity. Qed.

  Lemma nth_error_records p m run k es :
    nth_error (fired p run) k = Some es -> nth_error (records p m run) k = Some (fst es, m (snd es)).
  Proof. intros H. unfold records. rewrite nth_error_map, H. reflexivity. Qed.

  (* ---- C17.2: indexed lookup, every valid non-negative and negative index *)
  Theorem records_get_value_nonneg p m run ev n (f : S -> V) i es :
    ev_past ev = records p m run -> (forall s, lookup n (m s) = Some (f s)) ->
    (0 <= i < Z.of_nat (length (fired p run)))%Z ->
    nth_error (fired p run) (Z.to_nat i) = Some es ->
    ev_get_value n (Some i) ev = Ok (f (snd es)).
  Proof.
    intros H Hn Hi Hes.
    assert (L : length (ev_past ev) = length (fired p run)) by (rewrite H; unfold records; apply map_length).
    rewrite (get_value_at n ev i (Z.to_nat i) (fst es, m (snd es))).
    - simpl. rewrite Hn. reflexivity.
    - rewrite L. apply norm_index_nonneg; exact Hi.
    - rewrite H. apply nth_error_records; exact Hes.
  Qed.

  Theorem records_get_value_neg p m run ev n (f : S -> V) i es :
    ev_past ev = records p m run -> (forall s, lookup n (m s) = Some (f s)) ->
    (- Z.of_nat (length (fired p run)) <= i < 0)%Z ->
    nth_error (fired p run) (Z.to_nat (Z.of_nat (length (fired p run)) + i)) = Some es ->
    ev_get_value n (Some i) ev = Ok (f (snd es)).
  Proof.
    intros H Hn Hi Hes.
    assert (L : length (ev_past ev) = length (fired p run)) by (rewrite H; unfold records; apply map_length).
    rewrite (get_value_at n ev i (Z.to_nat (Z.of_nat (length (fired p run)) + i)) (fst es, m (snd es))).
    - simpl. rewrite Hn. reflexivity.
    - rewrite L. apply norm_index_neg; exact Hi.
    - rewrite H. apply nth_error_records; exact Hes.
  Qed.

  (* every index in range does name an event (so the two theorems above are never vacuous) *)
  Lemma index_in_range_exists p run k : k < length (fired p run) -> exists es, nth_error (fired p run) k = Some es.
  Proof. intros H. destruct (nth_error (fired p run) k) eqn:E; [eauto|]. apply nth_error_None in E. lia. Qed.

  Theorem records_get_value_out_of_range p m run ev n i :
    ev_past ev = records p m run ->
    (Z.of_nat (length (fired p run)) <= i \/ i < - Z.of_nat (length (fired p run)))%Z ->
    ev_get_value n (Some i) ev = Err IndexError.
  Proof.
    intros H Hi. apply get_value_out_of_range. unfold ev_len. rewrite H. unfold records. rewrite map_length. exact Hi.
  Qed.

  (* ---- the fresh evaluator after a run: all accessors at once *)
  Theorem fresh_run_records p m run :
    let ev := ev_run m (ev_new p) run in
    ev_past ev = records p m run /\ ev_log ev = records p m run /\
    ev_len ev = length (fired p run) /\
    ev_epochs ev = filter (fires p) (map fst run) /\
    ev_last ev = snd (last (records p m run) (0%Z, [])) /\
    ev_period ev = p.
  Proof.
    cbv zeta. rewrite ev_run_past, ev_run_log, ev_run_last, ev_run_period. simpl.
    repeat split; try reflexivity.
    - unfold ev_len. rewrite ev_run_past. simpl. unfold records. apply map_length.
    - unfold ev_epochs. rewrite ev_run_past. simpl. apply records_epochs.
  Qed.

  (* last = the values of the last recorded evaluation = get_value(name) *)
  Theorem last_is_latest_record m ev run n :
    let ev' := ev_run m ev run in
    records (ev_period ev) m run <> [] ->
    ev_last ev' = snd (last (ev_past ev') (0%Z, [])) /\
    ev_get_value n None ev' = match lookup n (ev_last ev') with Some v => Ok v | None => Err KeyError end.
  Proof.
    cbv zeta. intros Hne. rewrite ev_run_last, ev_run_past.
    set (rs := records (ev_period ev) m run) in *.
    assert (Hl : forall d, last (ev_past ev ++ rs) d = last rs d) by (intros d; apply last_app_ne; exact Hne).
    split.
    - rewrite Hl. destruct rs as [|r0 rs']; [congruence|]. f_equal. apply last_nonempty_default.
    - unfold ev_get_value. rewrite ev_run_past. fold rs.
      assert (Hne2 : ev_past ev ++ rs <> []) by (destruct (ev_past ev); [exact Hne | discriminate]).
      assert (Hlen : 0 < length (ev_past ev ++ rs)) by (destruct (ev_past ev ++ rs); [congruence | simpl; lia]).
      rewrite norm_index_current by exact Hlen.
      rewrite (nth_error_last _ (0%Z, ev_last ev)) by exact Hne2. rewrite Hl.
      destruct (last rs (0%Z, ev_last ev)); reflexivity.
  Qed.

  (* ---- clear_history *)
  Theorem clear_history_resets ev :
    ev_len (ev_clear_history ev) = 0 /\ ev_epochs (ev_clear_history ev) = [] /\
    ev_last (ev_clear_history ev) = [] /\ ev_period (ev_clear_history ev) = ev_period ev /\
    (forall n, ev_array n (ev_clear_history ev) = Ok []) /\
    (forall n i, ev_get_value n i (ev_clear_history ev) = Err IndexError).
  Proof.
    repeat split; try reflexivity.
    intros n i. unfold ev_get_value. simpl. destruct i as [i|]; unfold norm_index; simpl.
    - destruct (Z.leb_spec 0 i).
      + destruct (Z.ltb_spec i 0); [lia | reflexivity].
      + destruct (Z.leb_spec 0 i); [lia | reflexivity].
    - reflexivity.
  Qed.

  (* after clear_history the next run is recorded as by a fresh evaluator; without it runs accumulate *)
  Theorem run_after_clear m ev run :
    ev_past (ev_run m (ev_clear_history ev) run) = records (ev_period ev) m run.
  Proof. rewrite ev_run_past. reflexivity. Qed.

  Theorem runs_accumulate m ev run1 run2 :
    ev_past (ev_run m (ev_run m ev run1) run2)
    = ev_past ev ++ records (ev_period ev) m run1 ++ records (ev_period ev) m run2.
  Proof. rewrite !ev_run_past, ev_run_period, app_assoc. reflexivity. Qed.

  (* the CSV log keeps every evaluation ever made, clear_history or not *)
  Theorem log_survives_clear m ev run1 run2 :
    ev_log (ev_run m (ev_clear_history (ev_run m ev run1)) run2)
    = ev_log ev ++ records (ev_period ev) m run1 ++ records (ev_period ev) m run2.
  Proof. rewrite ev_run_log. simpl. rewrite ev_run_log, ev_run_period, app_assoc. reflexivity. Qed.

  (* ---- independence of evaluators sharing a run *)
  Theorem evaluators_independent (cbs : list ((S -> vals V) * evaluator V)) run :
    cbs_run cbs run = map (fun c => (fst c, ev_run (fst c) (snd c) run)) cbs.
  Proof.
    revert cbs. induction run as [|[e s] r IH]; intros cbs; simpl.
    - rewrite <- (map_id cbs) at 1. apply map_ext. intros [a b]; reflexivity.
    - rewrite IH. unfold cbs_on_epoch_end. rewrite map_map. apply map_ext. intros [a b]; reflexivity.
  Qed.

  (* ---- the stream form: the k-th evaluation takes the k-th stream item *)
  Theorem stream_records : forall epochs ev stream,
    ev_past (ev_run_stream ev epochs stream)
    = ev_past ev ++ combine (filter (fires (ev_period ev)) epochs) stream.
  Proof.
    induction epochs as [|e r IH]; intros ev stream; simpl.
    - rewrite app_nil_r; reflexivity.
    - destruct (fires (ev_period ev) e) eqn:E.
      + destruct stream as [|v st]; simpl; [rewrite app_nil_r; reflexivity|].
        rewrite IH. simpl. rewrite <- app_assoc. reflexivity.
      + apply IH.
  Qed.

  (* ---- CSV body: one row per evaluation, epoch first, then the values in field order *)
  Theorem csv_rows fields m run p :
    csv_body fields (ev_log (ev_run m (ev_new p) run))
    = map (fun es => (fst es, map (fun f => lookup f (m (snd es))) fields)) (fired p run).
  Proof. rewrite ev_run_log. simpl. unfold csv_body, records. rewrite map_map. reflexivity. Qed.
End EvT2.

(* ------------------------------------------------------------------ ObservableStatistics *)
Lemma strip_s_plural n : strip_s (n ++ [ch_s]) = n.
Proof. unfold strip_s, ends_with. rewrite rev_unit. rewrite Nat.eqb_refl. apply removelast_last. Qed.

Lemma strip_s_other n : ends_with ch_s n = false -> strip_s n = n.
Proof. intros H. unfold strip_s. rewrite H. reflexivity. Qed.

Theorem os_plural_alias {T} (statistic : name) (data : list (stats T)) (f : stats T -> T) :
  (forall d, In d data -> lookup (strip_s statistic) d = Some (f d)) ->
  os_get statistic data = Ok (map f data).
Proof.
  intros H. unfold os_get. destruct data as [|d0 r]; [reflexivity|].
  unfold has_key. rewrite (H d0 (or_introl eq_refl)).
  rewrite (mapM_map_some _ f); [reflexivity | exact H].
Qed.

Theorem os_exact_name {T} (statistic : name) (data : list (stats T)) (f : stats T -> T) :
  (forall d0 r, data = d0 :: r -> has_key (strip_s statistic) d0 = false) ->
  (forall d, In d data -> lookup statistic d = Some (f d)) ->
  os_get statistic data = Ok (map f data).
Proof.
  intros H0 H. unfold os_get. destruct data as [|d0 r]; [reflexivity|].
  rewrite (H0 d0 r eq_refl). rewrite (mapM_map_some _ f); [reflexivity | exact H].
Qed.

(* "means", "variances", "std_errors" are aliases of "mean", "variance", "std_error" *)
Corollary os_means {T} (data : list (stats T)) f :
  (forall d, In d data -> lookup n_mean d = Some (f d)) ->
  os_get (n_mean ++ [ch_s]) data = Ok (map f data) /\ os_get n_mean data = Ok (map f data).
Proof. intros H. split; apply os_plural_alias; [rewrite strip_s_plural | rewrite strip_s_other by reflexivity]; exact H. Qed.

Corollary os_variances {T} (data : list (stats T)) f :
  (forall d, In d data -> lookup n_variance d = Some (f d)) ->
  os_get (n_variance ++ [ch_s]) data = Ok (map f data) /\ os_get n_variance data = Ok (map f data).
Proof. intros H. split; apply os_plural_alias; [rewrite strip_s_plural | rewrite strip_s_other by reflexivity]; exact H. Qed.

Corollary os_std_errors {T} (data : list (stats T)) f :
  (forall d, In d data -> lookup n_std_error d = Some (f d)) ->
  os_get (n_std_error ++ [ch_s]) data = Ok (map f data) /\ os_get n_std_error data = Ok (map f data).
Proof. intros H. split; apply os_plural_alias; [rewrite strip_s_plural | rewrite strip_s_other by reflexivity]; exact H. Qed.

(* ================================================================== ModelSaver, Logger *)
Section SaverT.
  Context {S P M : Type} (params : S -> P) (empty : M).
  Implicit Types (sv : saver S M) (run : list (Z * S)).

  Definition sv_epoch_write sv (es : Z * S) : fname * content P M :=
    (FEpoch (fst es), sv_save params empty sv (snd es) (fst es)).

  (* the writes of one fit: the initial file (iff save_initial; epoch argument 0; state at train
     start), then one file per EpochEnd epoch that is a multiple of the period, in order *)
  Theorem saver_writes sv s0 run :
    sv_fit params empty sv s0 run =
    (if sv_save_initial sv then [(FInitial, sv_save params empty sv s0 0%Z)] else [])
    ++ map (sv_epoch_write sv) (fired (sv_period sv) run).
  Proof.
    unfold sv_fit, sv_on_train_start. f_equal.
    unfold sv_on_epoch_end, sv_epoch_write, fired.
    apply (flat_map_if_filter (fun es : Z * S => fires (sv_period sv) (fst es))).
  Qed.

  Theorem saver_file_names sv s0 run : (1 <= sv_period sv)%Z ->
    map fst (sv_fit params empty sv s0 run) =
    (if sv_save_initial sv then [FInitial] else []) ++ map FEpoch (filter (dividesb (sv_period sv)) (map fst run)).
  Proof.
    intros Hp. rewrite saver_writes, map_app. f_equal.
    - destruct (sv_save_initial sv); reflexivity.
    - rewrite map_map. unfold sv_epoch_write. simpl.
      rewrite <- filter_fires_dividesb by lia. rewrite <- fired_epochs, map_map. reflexivity.
  Qed.

  Lemma store_get_app (f : fname) (w1 w2 : list (fname * content P M)) :
    store_get f (w1 ++ w2) = match store_get f w2 with Some c => Some c | None => store_get f w1 end.
  Proof.
    induction w1 as [|[g c] w1 IH]; simpl.
    - destruct (store_get f w2); reflexivity.
    - rewrite IH. destruct (store_get f w2); reflexivity.
  Qed.

  Lemma store_get_epoch_in sv run e :
    store_get (FEpoch e) (map (sv_epoch_write sv) (fired (sv_period sv) run)) <> None ->
    fires (sv_period sv) e = true /\ In e (map fst run).
  Proof.
    induction run as [|[e0 s0] r IH]; simpl; [congruence|].
    unfold fired in *. simpl. destruct (fires (sv_period sv) e0) eqn:E; simpl.
    - destruct (store_get (FEpoch e) (map (sv_epoch_write sv) (filter (fun es : Z * S => fires (sv_period sv) (fst es)) r))) eqn:G.
      + intros _. destruct IH as [H1 H2]; [congruence|]. split; [assumption | right; assumption].
      + destruct (Z.eqb_spec e0 e) as [->|]; [|congruence]. intros _. split; [assumption | left; reflexivity].
    - intros H. destruct (IH H) as [H1 H2]. split; [assumption | right; assumption].
  Qed.

  Lemma store_get_no_initial sv run :
    store_get FInitial (map (sv_epoch_write sv) (fired (sv_period sv) run)) = None.
  Proof.
    unfold fired. induction run as [|[e0 s0] r IH]; simpl; [reflexivity|].
    destruct (fires (sv_period sv) e0); simpl; [rewrite IH; reflexivity | exact IH].
  Qed.

  (* ---- C17.3: the file store after one fit whose epochs are pairwise distinct *)
  Theorem saver_files sv s0 run : NoDup (map fst run) ->
    let W := sv_fit params empty sv s0 run in
    (forall e s, In (e, s) run -> fires (sv_period sv) e = true ->
       store_get (FEpoch e) W = Some (sv_save params empty sv s e)) /\
    (forall e, store_get (FEpoch e) W <> None -> fires (sv_period sv) e = true /\ In e (map fst run)) /\
    store_get FInitial W = (if sv_save_initial sv then Some (sv_save params empty sv s0 0%Z) else None).
  Proof.
    intros ND W. unfold W. rewrite saver_writes. split; [|split].
    - intros e s Hin Hf. rewrite store_get_app.
      assert (G : store_get (FEpoch e) (map (sv_epoch_write sv) (fired (sv_period sv) run)) = Some (sv_save params empty sv s e)).
      { clear W. induction run as [|[e0 s1] r IH]; [destruct Hin|].
        simpl in ND. inversion ND as [|? ? Hnotin ND']; subst.
        unfold fired in *. simpl. destruct Hin as [Heq|Hin].
        - inversion Heq; subst. rewrite Hf. simpl.
          destruct (store_get (FEpoch e) (map (sv_epoch_write sv) (filter (fun es : Z * S => fires (sv_period sv) (fst es)) r))) eqn:G.
          + exfalso. apply Hnotin. apply (store_get_epoch_in sv r e). unfold fired. congruence.
          + rewrite Z.eqb_refl. reflexivity.
        - destruct (fires (sv_period sv) e0); simpl; [rewrite (IH ND' Hin); reflexivity | exact (IH ND' Hin)]. }
      rewrite G. reflexivity.
    - intros e H. rewrite store_get_app in H.
      destruct (store_get (FEpoch e) (map (sv_epoch_write sv) (fired (sv_period sv) run))) eqn:G.
      + apply (store_get_epoch_in sv run e). congruence.
      + destruct (sv_save_initial sv); simpl in H; congruence.
    - rewrite store_get_app, store_get_no_initial. destruct (sv_save_initial sv); reflexivity.
  Qed.

  (* metadata forms *)
  Theorem saver_metadata_forms sv s e :
    sv_save params empty sv s e =
    let md := match sv_metadata sv with MdCallable f => f s e | MdDict d => d | MdNone => empty end in
    if sv_metadata_only sv then MetaOnly md else Full (params s) md.
  Proof. reflexivity. Qed.
End SaverT.

Theorem logger_calls {S Msg} (p : Z) (g : S -> Z -> Msg) run :
  lg_run p g run = map (fun es => g (snd es) (fst es)) (fired p run).
Proof. unfold lg_run, lg_on_epoch_end, fired. apply (flat_map_if_filter (fun es : Z * S => fires p (fst es))). Qed.

(* ================================================================== EarlyStopping (C18) *)
(* ---- the constructor table *)
Theorem es_construct_table k crit :
  es_construct k crit =
  match k with
  | KOther => Err TypeError
  | KMetric => if name_eqb (normalize crit) n_variance then Err TypeError else criterion_table (normalize crit)
  | KObservable => criterion_table (normalize crit)
  end.
Proof. destruct k; reflexivity. Qed.

Theorem variance_refused_for_metrics crit :
  normalize crit = n_variance -> es_construct KMetric crit = Err TypeError.
Proof. intros H. unfold es_construct. rewrite H. reflexivity. Qed.

Theorem criterion_names_accepted k crit : k <> KOther ->
  (normalize crit = n_relative -> es_construct k crit = Ok Relative) /\
  (normalize crit = n_absolute -> es_construct k crit = Ok Absolute) /\
  (normalize crit = n_variance -> es_construct KObservable crit = Ok Variance).
Proof.
  intros Hk. repeat split; intros H; unfold es_construct; rewrite H; destruct k; try congruence; reflexivity.
Qed.

Theorem unknown_criterion_rejected k crit : k <> KOther ->
  normalize crit <> n_relative -> normalize crit <> n_absolute -> normalize crit <> n_variance ->
  es_construct k crit = Err ValueError.
Proof.
  intros Hk H1 H2 H3. unfold es_construct, criterion_table.
  assert (E1 : name_eqb (normalize crit) n_relative = false) by (destruct (name_eqb (normalize crit) n_relative) eqn:E; [apply name_eqb_eq in E; congruence | reflexivity]).
  assert (E2 : name_eqb (normalize crit) n_absolute = false) by (destruct (name_eqb (normalize crit) n_absolute) eqn:E; [apply name_eqb_eq in E; congruence | reflexivity]).
  assert (E3 : name_eqb (normalize crit) n_variance = false) by (destruct (name_eqb (normalize crit) n_variance) eqn:E; [apply name_eqb_eq in E; congruence | reflexivity]).
  destruct k; try congruence; rewrite ?E3, E1, E2, ?E3; reflexivity.
Qed.

Theorem non_evaluator_rejected crit : es_construct KOther crit = Err TypeError.
Proof. reflexivity. Qed.

(* the deprecated class is EarlyStopping with criterion "variance" *)
Theorem deprecated_class_is_variance_criterion :
  (forall k, vbes_construct k = es_construct k n_variance) /\
  vbes_construct KObservable = Ok Variance /\ vbes_construct KMetric = Err TypeError /\
  vbes_construct KOther = Err TypeError.
Proof. repeat split. Qed.

(* ---- the look-back never compares an evaluation with itself *)
Theorem never_self_comparison (len p : nat) : 1 <= p -> p < len ->
  exists i j, norm_index len (- Z.of_nat p - 1) = Some i /\ norm_index len (-1) = Some j /\
              i <> j /\ i + p = j /\ j = len - 1.
Proof.
  intros Hp Hl. exists (len - 1 - p), (len - 1).
  rewrite norm_index_lookback by exact Hl. rewrite norm_index_current by lia.
  repeat split; lia.
Qed.

Section RuleR.
  Local Open Scope R_scope.

  (* Specification: the documented deviations; cur = M_t, prev = M_{t-p} as (value, variance) *)
  Definition dev (c : criterion) (cur prev : R * R) : R :=
    match c with
    | Relative => Rabs ((fst prev - fst cur) / fst prev)
    | Absolute => Rabs (fst prev - fst cur)
    | Variance => Rabs (fst prev - fst cur) / sqrt (snd prev)
    end.

  Definition should_stop (hist : list (R * R)) (p : nat) (tol : R) (c : criterion) : Prop :=
    (length hist >= p + 1)%nat /\
    dev c (nth (length hist - 1) hist (0, 0)) (nth (length hist - 1 - p) hist (0, 0)) < tol.

  Lemma nltb_R a b : nltb ROps a b = true <-> a < b.
  Proof. simpl. destruct (Rlt_dec a b); split; intros; try assumption; try reflexivity; try discriminate; contradiction. Qed.

  Theorem es_rule_iff_should_stop c p tol hist :
    es_rule ROps c p tol hist = true <-> should_stop hist p tol c.
  Proof.
    unfold es_rule, should_stop.
    destruct (Nat.ltb_spec p (length hist)) as [Hl|Hl].
    - rewrite norm_index_lookback by exact Hl. rewrite norm_index_current by lia.
      rewrite (nth_error_nth' hist (0, 0)) by lia. rewrite (nth_error_nth' hist (0, 0)) by lia.
      destruct (nth (length hist - 1 - p) hist (0, 0)) as [prev pvar].
      destruct (nth (length hist - 1) hist (0, 0)) as [cur cvar].
      rewrite nltb_R. destruct c; simpl; (split; [intros H; split; [lia | exact H] | intros [_ H]; exact H]).
    - split; [discriminate | intros [H _]; lia].
  Qed.

  (* the three deviations in the form without division *)
  Theorem relative_rule_no_division (prev cur tol : R) : fst (prev, 0) <> 0 ->
    (dev Relative (cur, 0) (prev, 0) < tol <-> Rabs (prev - cur) < tol * Rabs prev).
  Proof.
    simpl. intros Hp. unfold Rdiv. rewrite Rabs_mult, Rabs_inv.
    assert (0 < Rabs prev) by (apply Rabs_pos_lt; exact Hp).
    split; intros H0.
    - apply (Rmult_lt_compat_r (Rabs prev)) in H0; [|assumption].
      rewrite Rmult_assoc, Rinv_l in H0 by lra. lra.
    - apply (Rmult_lt_reg_r (Rabs prev)); [assumption|].
      rewrite Rmult_assoc, Rinv_l by lra. lra.
  Qed.

  Theorem variance_rule_no_division (prev cur pvar tol : R) : 0 < pvar ->
    (dev Variance (cur, 0) (prev, pvar) < tol <-> Rabs (prev - cur) < tol * sqrt pvar).
  Proof.
    simpl. intros Hv. assert (0 < sqrt pvar) by (apply sqrt_lt_R0; exact Hv). unfold Rdiv.
    split; intros H0.
    - apply (Rmult_lt_compat_r (sqrt pvar)) in H0; [|assumption].
      rewrite Rmult_assoc, Rinv_l in H0 by lra. lra.
    - apply (Rmult_lt_reg_r (sqrt pvar)); [assumption|].
      rewrite Rmult_assoc, Rinv_l by lra. lra.
  Qed.

  (* deviations are non-negative: a tolerance of 0 (or less) never stops (absolute, relative) *)
  Theorem zero_tolerance_never_stops c hist p tol : c <> Variance -> tol <= 0 -> ~ should_stop hist p tol c.
  Proof.
    intros Hc Ht [_ H]. destruct c; try congruence; simpl in H;
      match type of H with Rabs ?x < _ => pose proof (Rabs_pos x) end; lra.
  Qed.
End RuleR.

(* ---- the stopper reading an evaluator inside fit *)
Section FitT.
  Local Open Scope R_scope.
  Context {St V : Type}.
  Context (value_of variance_of : V -> result R) (val var : V -> R).
  Context (metrics : St -> vals V) (g : St -> V).
  Context (qname : name) (crit : criterion).

  (* what the stopper can read of one recorded value *)
  Definition readable (v : V) : Prop :=
    value_of v = Ok (val v) /\ (crit = Variance -> variance_of v = Ok (var v)).
  (* the monitored quantity is tracked by the evaluator and readable *)
  Definition tracked (ev : evaluator V) : Prop :=
    forall r, In r (ev_past ev) -> exists v, lookup qname (snd r) = Some v /\ readable v.
  Context (Hmetrics : forall s, lookup qname (metrics s) = Some (g s) /\ readable (g s)).

  Definition pair_of (v : V) : R * R := (val v, var v).
  Definition view_rec (r : Z * vals V) : R * R :=
    match lookup qname (snd r) with Some v => pair_of v | None => (0, 0) end.
  (* the history of (value, variance) pairs the stopper sees in an evaluator *)
  Definition view (ev : evaluator V) : list (R * R) := map view_rec (ev_past ev).

  Definition wf_stopper (st : stopper R) : Prop := st_name st = qname /\ st_crit st = crit.

  Lemma tracked_step ev e s : tracked ev -> tracked (ev_on_epoch_end metrics ev e s).
  Proof.
    intros H r. unfold ev_on_epoch_end. destruct (fires (ev_period ev) e); [|apply H].
    simpl. rewrite in_app_iff. intros [Hin|[<-|[]]]; [apply H; exact Hin|].
    exists (g s). simpl. apply Hmetrics.
  Qed.

  Lemma view_step ev e s :
    view (ev_on_epoch_end metrics ev e s) = view ev ++ (if fires (ev_period ev) e then [pair_of (g s)] else []).
  Proof.
    unfold view, ev_on_epoch_end. destruct (fires (ev_period ev) e); simpl; [|rewrite app_nil_r; reflexivity].
    rewrite map_app. simpl. unfold view_rec at 2. simpl. rewrite (proj1 (Hmetrics s)). reflexivity.
  Qed.

  Lemma get_view st ev f (fR : V -> R) i k :
    wf_stopper st -> tracked ev -> (forall v, readable v -> f v = Ok (fR v)) ->
    norm_index (length (ev_past ev)) i = Some k ->
    exists v, nth_error (view ev) k = Some (pair_of v) /\ es_get f st (Some i) ev = Ok (fR v).
  Proof.
    intros [Hn _] Ht Hf Hi. pose proof (norm_index_lt _ _ _ Hi) as Hk.
    destruct (nth_error (ev_past ev) k) as [r|] eqn:E; [|apply nth_error_None in E; lia].
    destruct (Ht r (nth_error_In _ _ E)) as [v [Hv Hr]]. exists v. split.
    - unfold view. rewrite (map_nth_error view_rec k (ev_past ev) E). unfold view_rec. rewrite Hv. reflexivity.
    - unfold es_get, ev_get_value. rewrite Hi, E, Hn. destruct r as [e0 d]. simpl in Hv. rewrite Hv. simpl. apply Hf, Hr.
  Qed.

  Lemma get_view_none st ev f (fR : V -> R) k :
    wf_stopper st -> tracked ev -> (forall v, readable v -> f v = Ok (fR v)) ->
    norm_index (length (ev_past ev)) (-1) = Some k ->
    exists v, nth_error (view ev) k = Some (pair_of v) /\ es_get f st None ev = Ok (fR v).
  Proof. intros. apply (get_view st ev f fR (-1)%Z k); assumption. Qed.

  (* one on_epoch_end of the stopper = period gate + the rule on the viewed history *)
  Lemma es_step_spec st ev e : wf_stopper st -> tracked ev ->
    es_on_epoch_end ROps value_of variance_of st ev e =
    Ok (if fires (st_period st) e && es_rule ROps crit (st_patience st) (st_tol st) (view ev)
        then (true, mkStop (st_period st) (st_tol st) (st_patience st) (st_name st) (st_crit st) (Some e))
        else (false, st)).
  Proof.
    intros Hwf Ht. unfold es_on_epoch_end. destruct (fires (st_period st) e); [|reflexivity]. simpl andb.
    unfold es_rule, ev_len, view. rewrite map_length.
    destruct (Nat.ltb_spec (st_patience st) (length (ev_past ev))) as [Hl|Hl]; [|reflexivity].
    rewrite norm_index_lookback by exact Hl. rewrite norm_index_current by lia.
    assert (Hval : forall v, readable v -> value_of v = Ok (val v)) by (intros v Hr; apply Hr).
    destruct (get_view st ev value_of val _ _ Hwf Ht Hval (norm_index_lookback _ _ Hl)) as [vp [Ep Gp]].
    assert (Hc : norm_index (length (ev_past ev)) (-1) = Some (length (ev_past ev) - 1)%nat) by (apply norm_index_current; lia).
    destruct (get_view_none st ev value_of val _ Hwf Ht Hval Hc) as [vc [Ec Gc]].
    fold (view ev). rewrite Ep, Ec. unfold pair_of at 1 2.
    unfold es_current_deviation. rewrite Gp. simpl bind. rewrite Gc. simpl bind.
    destruct Hwf as [Hn Hcrit]. rewrite Hcrit.
    destruct crit eqn:Ecrit.
    - simpl. destruct (Rlt_dec _ _); reflexivity.
    - simpl. destruct (Rlt_dec _ _); reflexivity.
    - assert (Hvar : forall v, readable v -> variance_of v = Ok (var v)) by (intros v Hr; apply Hr; exact Ecrit).
      assert (Hwf' : wf_stopper st) by (split; [exact Hn | rewrite Hcrit; symmetry; exact Ecrit]).
      destruct (get_view st ev variance_of var _ _ Hwf' Ht Hvar (norm_index_lookback _ _ Hl)) as [vp' [Ep' Gp']].
      assert (Evar : var vp' = var vp) by (rewrite Ep in Ep'; unfold pair_of in Ep'; congruence).
      rewrite Gp'. simpl bind. rewrite Evar.
      simpl. destruct (Rlt_dec _ _); reflexivity.
  Qed.

  (* ---- specification side: the history visible to the stopper at the k-th EpochEnd of the plan *)
  Definition seen (ev_first : bool) (ev : evaluator V) (plan : list (Z * St)) (k : nat) : list (R * R) :=
    view ev ++ map (fun es => pair_of (g (snd es)))
                   (fired (ev_period ev) (firstn (if ev_first then Datatypes.S k else k) plan)).

  (* "a convergent check happens at the k-th EpochEnd of the plan" *)
  Definition convergent (ev_first : bool) (ev : evaluator V) (st : stopper R) (plan : list (Z * St)) (k : nat) : Prop :=
    exists e, nth_error (map fst plan) k = Some e /\ fires (st_period st) e = true /\
              should_stop (seen ev_first ev plan k) (st_patience st) (st_tol st) crit.

  Lemma seen_0 ev_first ev e s rest :
    seen ev_first ev ((e, s) :: rest) 0 = view (if ev_first then ev_on_epoch_end metrics ev e s else ev).
  Proof.
    unfold seen. destruct ev_first.
    - rewrite view_step. unfold fired. simpl. destruct (fires (ev_period ev) e); reflexivity.
    - simpl. rewrite app_nil_r. reflexivity.
  Qed.

  Lemma seen_S ev_first ev e s rest k :
    seen ev_first ev ((e, s) :: rest) (Datatypes.S k) = seen ev_first (ev_on_epoch_end metrics ev e s) rest k.
  Proof.
    unfold seen. rewrite view_step, ev_on_epoch_end_period. unfold fired.
    destruct ev_first; simpl; destruct (fires (ev_period ev) e); simpl; rewrite <- ?app_assoc; simpl; rewrite ?app_nil_r; reflexivity.
  Qed.

  Lemma convergent_S ev_first ev st e s rest k :
    convergent ev_first ev st ((e, s) :: rest) (Datatypes.S k) <->
    convergent ev_first (ev_on_epoch_end metrics ev e s) st rest k.
  Proof. unfold convergent. rewrite seen_S. simpl. reflexivity. Qed.

  (* ---- C18.1 *)
  Theorem es_fit_spec ev_first : forall plan ev st, wf_stopper st -> tracked ev ->
    match es_fit ROps value_of variance_of ev_first metrics ev st plan with
    | (evf, stf, Stopped e, ran) =>
        exists k, nth_error (map fst plan) k = Some e /\
                  convergent ev_first ev st plan k /\
                  (forall j, (j < k)%nat -> ~ convergent ev_first ev st plan j) /\
                  ran = firstn (Datatypes.S k) (map fst plan) /\
                  st_last_epoch stf = Some e /\
                  evf = ev_run metrics ev (firstn (Datatypes.S k) plan)
    | (evf, stf, Completed, ran) =>
        (forall j, ~ convergent ev_first ev st plan j) /\ ran = map fst plan /\ stf = st /\
        evf = ev_run metrics ev plan
    | (_, _, Raised _ _, _) => False
    end.
  Proof.
    induction plan as [|[e s] rest IH]; intros ev st Hwf Ht.
    - simpl. repeat split; try reflexivity. intros j [e [H _]]. destruct j; discriminate.
    - simpl es_fit.
      assert (Ht' : tracked (if ev_first then ev_on_epoch_end metrics ev e s else ev))
        by (destruct ev_first; [apply tracked_step|]; exact Ht).
      rewrite (es_step_spec st _ e Hwf Ht').
      rewrite <- (seen_0 ev_first ev e s rest).
      destruct (fires (st_period st) e && es_rule ROps crit (st_patience st) (st_tol st) (seen ev_first ev ((e, s) :: rest) 0)) eqn:D.
      + (* stop at this epoch *)
        apply andb_true_iff in D as [D1 D2]. apply es_rule_iff_should_stop in D2.
        exists 0%nat. repeat split; try reflexivity.
        * exists e. split; [reflexivity | split; [exact D1 | exact D2]].
        * intros j Hj. lia.
      + assert (N0 : ~ convergent ev_first ev st ((e, s) :: rest) 0).
        { intros [e0 [H0 [H1 H2]]]. simpl in H0. inversion H0; subst e0.
          apply es_rule_iff_should_stop in H2. rewrite H1, H2 in D. discriminate. }
        specialize (IH (ev_on_epoch_end metrics ev e s) st Hwf (tracked_step ev e s Ht)).
        destruct (es_fit ROps value_of variance_of ev_first metrics (ev_on_epoch_end metrics ev e s) st rest)
          as [[[evf stf] o] ran].
        destruct o as [|e2|x e2]; [| |exact IH].
        * destruct IH as [Hn [Hr [Hs He]]]. repeat split.
          -- intros [|j]; [exact N0 | rewrite convergent_S; apply Hn].
          -- simpl. rewrite Hr. reflexivity.
          -- exact Hs.
          -- exact He.
        * destruct IH as [k [Hk [Hc [Hn [Hr [Hl He]]]]]]. exists (Datatypes.S k). repeat split.
          -- exact Hk.
          -- apply convergent_S; exact Hc.
          -- intros [|j] Hj; [exact N0 | rewrite convergent_S; apply Hn; lia].
          -- rewrite Hr. reflexivity.
          -- exact Hl.
          -- exact He.
  Qed.

  (* ---- C18.2: a stop needs p earlier evaluations besides the current one *)
  Theorem never_before_p_earlier_evaluations ev_first plan ev st : wf_stopper st -> tracked ev ->
    match es_fit ROps value_of variance_of ev_first metrics ev st plan with
    | (_, _, Stopped e, ran) =>
        exists k, nth_error (map fst plan) k = Some e /\
                  (length (seen ev_first ev plan k) >= st_patience st + 1)%nat
    | _ => True
    end.
  Proof.
    intros Hwf Ht. pose proof (es_fit_spec ev_first plan ev st Hwf Ht) as H.
    destruct (es_fit ROps value_of variance_of ev_first metrics ev st plan) as [[[evf stf] o] ran].
    destruct o; try exact I. destruct H as [k [Hk [[e0 [_ [_ [Hlen _]]]] _]]]. exists k. split; assumption.
  Qed.

  (* the history seen by the stopper is the list of evaluations made so far (C17 records) *)
  Theorem seen_is_evaluator_history ev_first ev plan k :
    seen ev_first ev plan k =
    view ev ++ map (fun es => pair_of (g (snd es)))
                   (fired (ev_period ev) (firstn (if ev_first then Datatypes.S k else k) plan)).
  Proof. reflexivity. Qed.
End FitT.

(* ================================================================== instances / non-vacuity *)
Section Instances.
  Local Open Scope R_scope.
  Definition q_demo : name := [102%nat].    (* "f" *)

  (* MetricEvaluator + EarlyStopping (relative / absolute): the hypotheses of es_fit_spec hold *)
  Lemma metric_instance_hyps (crit : criterion) : crit <> Variance ->
    forall s : R, lookup q_demo [(q_demo, s)] = Some s /\
                  readable (metric_value_of (T:=R)) (metric_variance_of (T:=R)) (fun v => v) (fun _ => 0) crit s.
  Proof. intros Hc s. split; [reflexivity|]. split; [reflexivity | intros E; congruence]. Qed.

  Theorem metric_es_fit_spec (crit : criterion) (Hc : crit <> Variance) ev_first plan ev st :
    wf_stopper q_demo crit st ->
    tracked (metric_value_of (T:=R)) (metric_variance_of (T:=R)) (fun v => v) (fun _ => 0) q_demo crit ev ->
    match es_fit ROps metric_value_of metric_variance_of ev_first (fun s : R => [(q_demo, s)]) ev st plan with
    | (evf, stf, Stopped e, ran) =>
        exists k, nth_error (map fst plan) k = Some e /\
                  convergent (fun v => v) (fun _ => 0) (fun s => s) q_demo crit ev_first ev st plan k /\
                  (forall j, (j < k)%nat -> ~ convergent (fun v => v) (fun _ => 0) (fun s => s) q_demo crit ev_first ev st plan j) /\
                  ran = firstn (Datatypes.S k) (map fst plan) /\ st_last_epoch stf = Some e /\
                  evf = ev_run (fun s : R => [(q_demo, s)]) ev (firstn (Datatypes.S k) plan)
    | (evf, stf, Completed, ran) =>
        (forall j, ~ convergent (fun v => v) (fun _ => 0) (fun s => s) q_demo crit ev_first ev st plan j) /\
        ran = map fst plan /\ stf = st /\ evf = ev_run (fun s : R => [(q_demo, s)]) ev plan
    | (_, _, Raised _ _, _) => False
    end.
  Proof.
    exact (es_fit_spec metric_value_of metric_variance_of (fun v => v) (fun _ => 0)
             (fun s : R => [(q_demo, s)]) (fun s => s) q_demo crit (metric_instance_hyps crit Hc) ev_first plan ev st).
  Qed.

  (* ObservableEvaluator (mean, variance) + any criterion *)
  Definition obs_dict (s : R * R) : stats R := [(n_mean, fst s); (n_variance, snd s)].
  Definition obs_val (d : stats R) : R := match lookup n_mean d with Some v => v | None => 0 end.
  Definition obs_var (d : stats R) : R := match lookup n_variance d with Some v => v | None => 0 end.
  Lemma observable_instance_hyps (crit : criterion) :
    forall s : R * R, lookup q_demo [(q_demo, obs_dict s)] = Some (obs_dict s) /\
                      readable (obs_value_of (T:=R)) (obs_variance_of (T:=R)) obs_val obs_var crit (obs_dict s).
  Proof. intros s. split; [reflexivity|]. split; [reflexivity | intros _; reflexivity]. Qed.

  (* a history on which the rule fires exactly at the fourth evaluation (p = 1, absolute, tol = 0.05) *)
  Example should_stop_example :
    let h := [(5, 0); (3, 0); (1, 0); (1, 0)] in
    should_stop h 1 (5 / 100) Absolute /\ ~ should_stop (firstn 3 h) 1 (5 / 100) Absolute /\
    ~ should_stop (firstn 2 h) 1 (5 / 100) Absolute /\ ~ should_stop (firstn 1 h) 1 (5 / 100) Absolute.
  Proof.
    cbv zeta. unfold should_stop. simpl. repeat split.
    - lia.
    - replace (1 - 1) with 0 by lra. rewrite Rabs_R0. lra.
    - intros [_ H]. replace (3 - 1) with 2 in H by lra. rewrite Rabs_right in H by lra. lra.
    - intros [_ H]. replace (5 - 3) with 2 in H by lra. rewrite Rabs_right in H by lra. lra.
    - intros [H _]. lia.
  Qed.
End Instances.

(* a concrete schedule (vm_compute on the executable model): period 2, epochs 3..7 *)
Definition demo_run : list (Z * Z) := [(3, 30); (4, 40); (5, 50); (6, 60); (7, 70)]%Z.
Definition demo_ev := ev_run (fun s : Z => [([102], s)]) (ev_new 2) demo_run.
Example schedule_example :
  ev_epochs demo_ev = [4; 6]%Z /\ ev_array [102] demo_ev = Ok [40; 60]%Z /\
  ev_get_value [102] (Some (-2)%Z) demo_ev = Ok 40%Z /\
  ev_get_value [102] (Some 2%Z) demo_ev = Err IndexError /\
  ev_get_value [102] None demo_ev = Ok 60%Z.
Proof. vm_compute. repeat split. Qed.

(* ------------------------------------------------------------------ guarded forms (audit follow-up) *)
(* The model's [fires p e] is total; Python raises ZeroDivisionError for period 0.  The statements exported in
   props/C17.v carry the guard 1 <= p explicitly. *)
Section GuardedR.
  Local Open Scope R_scope.

  (* where the documented quotient is a genuine quotient: M_{t-p} <> 0 for relative, var_{t-p} > 0 for variance *)
  Definition nz_guard (c : criterion) (prev : R * R) : Prop :=
    match c with Relative => fst prev <> 0 | Absolute => True | Variance => 0 < snd prev end.

  (* the documented rule written without any division *)
  Definition should_stop_nodiv (hist : list (R * R)) (p : nat) (tol : R) (c : criterion) : Prop :=
    (length hist >= p + 1)%nat /\
    let cur := nth (length hist - 1) hist (0, 0) in
    let prev := nth (length hist - 1 - p) hist (0, 0) in
    match c with
    | Relative => Rabs (fst prev - fst cur) < tol * Rabs (fst prev)
    | Absolute => Rabs (fst prev - fst cur) < tol
    | Variance => Rabs (fst prev - fst cur) < tol * sqrt (snd prev)
    end.

  (* under the guard, the executable rule decides the division-free documented rule; nothing is claimed
     about M_{t-p} = 0 / variance 0 (there Coq's [/] is a totalised function; the check decides those
     cases under IEEE semantics) *)
  Theorem es_rule_guarded c p tol hist :
    ((length hist >= p + 1)%nat -> nz_guard c (nth (length hist - 1 - p) hist (0, 0))) ->
    (es_rule ROps c p tol hist = true <-> should_stop_nodiv hist p tol c).
  Proof.
    intros G. rewrite es_rule_iff_should_stop. unfold should_stop, should_stop_nodiv.
    split; intros [Hl H]; (split; [exact Hl|]); specialize (G Hl); cbv zeta in *;
      destruct (nth (length hist - 1 - p) hist (0, 0)) as [prev pvar];
      destruct (nth (length hist - 1) hist (0, 0)) as [cur cvar]; destruct c; simpl in *.
    - apply (relative_rule_no_division prev cur tol G). exact H.
    - exact H.
    - apply (variance_rule_no_division prev cur pvar tol G). exact H.
    - apply (relative_rule_no_division prev cur tol G). exact H.
    - exact H.
    - apply (variance_rule_no_division prev cur pvar tol G). exact H.
  Qed.

  Example nz_guard_example : nz_guard Relative (5, 0) /\ nz_guard Variance (5, 2) /\ ~ nz_guard Relative (0, 1).
  Proof. simpl. repeat split; try lra. Qed.
End GuardedR.
