(* Metrics.v — utils/training_statistics.py: fidelity, NLL, KL (and _single_basis_KL).
   EXECUTABLE DEFINITIONS ONLY, polymorphic in NumOps.  The metric layer is modelled on
   top of explicit state tables: psi : bits -> cx / list cx (nn_state.psi(space)),
   rho : bits -> bits -> cx / matrix (nn_state.rho(space, space)), pr : bits -> T
   (nn_state.probability(., 1) = exp(-E_am)), Z (nn_state.normalization(space)).
   Rotations are the functions of Unitaries.v (rotate_psi, inner_prod1 =
   rotate_psi_inner_prod per outcome, rho_prob1 = rotate_rho_probs per outcome).
   Unitary dictionary: the letters X, Y, Z always denote the default matrices of create_dict()
   (Unitaries.lookup); [user] only carries added unitaries.  A state without a unitary_dict
   (PositiveWaveFunction) therefore rotates exactly like one carrying the default dictionary, which is what
   rotate_psi / _rotate_basis_state do since /repo c22f10c (fallback to create_dict()).
   Every metric returns (value, result kind); the kind mirrors the Python type produced by
   the code path taken (.item() / float arithmetic / numpy.float64 -> PlainNumber). *)
From Coq Require Import List ZArith Bool Arith.
From QModel Require Import Num Bits CBase Unitaries.
Import ListNotations.

Inductive result_kind := PlainNumber | TensorObject.

Definition basis_eqb (a b : list letter) : bool :=
  Nat.eqb (length a) (length b) && forallb (fun p => letter_eqb (fst p) (snd p)) (combine a b).
Definition all_Z (b : list letter) : bool := forallb is_Z b.

(* first-occurrence de-duplication of basis rows (np.unique(axis=0) returns the same SET of rows,
   sorted; the order only changes the floating-point summation order) *)
Fixpoint dedup_bases (bs : list (list letter)) : list (list letter) :=
  match bs with
  | [] => []
  | b :: r => b :: filter (fun x => negb (basis_eqb x b)) (dedup_bases r)
  end.

Section Metrics.
  Context {T : Type} (O : NumOps T).
  Local Notation cx := (cx (T:=T)).
  Local Notation "x + y" := (nadd O x y).
  Local Notation "x - y" := (nsub O x y).
  Local Notation "x * y" := (nmul O x y).
  Local Notation "x / y" := (ndiv O x y).
  Local Notation "- x" := (nopp O x).

  (* ---------- torch.distributions.utils.probs_to_logits (non-binary):
       eps = finfo(double).eps = 2^-52;  log(clamp(p, eps, 1 - eps)) ---------- *)
  Definition prob_eps : T := n1 O / nofZ O 4503599627370496%Z.
  Definition clamp_prob (p : T) : T :=
    if nltb O p prob_eps then prob_eps
    else if nltb O (n1 O - prob_eps) p then n1 O - prob_eps else p.
  Definition plogit (p : T) : T := nln O (clamp_prob p).

  (* ---------- cplx helpers ---------- *)
  Definition cdivr (z : cx) (x : T) : cx := (fst z / x, snd z / x).      (* complex tensor / real scalar *)
  (* cplx.inner_prod(x, y) = <x|y>: (xr.yr + xi.yi, xr.yi - xi.yr) — conjugates its FIRST argument *)
  Definition inner_prod (x y : list cx) : cx :=
    let xr := map fst x in let xi := map snd x in
    let yr := map fst y in let yi := map snd y in
    (dot O xr yr + dot O xi yi, dot O xr yi - dot O xi yr).
  (* cplx.absolute_value(z) ** 2 *)
  Definition abs_sq (z : cx) : T := sqr O (cabs O z).

  (* ---------- fidelity ---------- *)
  (* wavefunction: psi = nn_state.psi(space) / Z.sqrt(); F = inner_prod(target, psi); |F|^2 .item() *)
  Definition fidelity_pure (target psi : list cx) (Z : T) : T * result_kind :=
    let psin := map (fun z => cdivr z (nsqrt O Z)) psi in
    (abs_sq (inner_prod target psin), PlainNumber).

  (* np.matmul of complex matrices (rows) *)
  Definition cmatmul (a b : list (list cx)) : list (list cx) :=
    let cols := transpose_c O (length b) b in
    map (fun row => map (fun col => cdot O row col) cols) a.
  Definition mscale_div (m : list (list cx)) (x : T) : list (list cx) := map (map (fun z => cdivr z x)) m.

  (* density matrix: prod = target @ (rho / Z); eigvals(prod).real; abs; (sum sqrt)^2 — numpy.float64 *)
  Definition fidelity_mixed_matrix (target rho : list (list cx)) (Z : T) : list (list cx) :=
    cmatmul target (mscale_div rho Z).
  Definition fidelity_mixed (eig : list (list cx) -> list cx) (target rho : list (list cx)) (Z : T)
    : T * result_kind :=
    let ev := eig (fidelity_mixed_matrix target rho Z) in
    (sqr O (sum O (map (fun l => nsqrt O (nabs O (fst l))) ev)), PlainNumber).

  (* ---------- NLL ---------- *)
  (* sample_bases is None: -mean(probs_to_logits(probability(samples, Z))).item() *)
  Definition nll_plain (pr : bits -> T) (Z : T) (samples : list bits) : T * result_kind :=
    (- (mean O (map (fun s => plogit (pr s / Z)) samples)), PlainNumber).

  Inductive state_tab :=
  | PureTab (psi : bits -> cx)
  | MixedTab (rho : bits -> bits -> cx).

  (* the probability the code assigns to one sample measured in [basis]:
     all-Z rows -> nn_state.probability(s, Z); otherwise the rotated fast path / Z *)
  Definition nll_prob (user : list (umat (T:=T))) (st : state_tab) (pr : bits -> T) (Z : T)
             (basis : list letter) (s : bits) : T :=
    if all_Z basis then pr s / Z
    else match st with
         | PureTab psi => abs_sq (inner_prod1 O user basis psi s) / Z
         | MixedTab rho => rho_prob1 O user basis rho s / Z
         end.

  (* NLL_ = 0.0; for each group: NLL_ -= sum(logits(probs)).item(); return NLL_ / float(len(samples)) *)
  Definition nll_groups user st pr Z (groups : list (list letter * list bits)) (N : nat) : T * result_kind :=
    (- (sum O (map (fun g => sum O (map (fun s => plogit (nll_prob user st pr Z (fst g) s)) (snd g))) groups))
       / nofnat O N, PlainNumber).

  (* grouping of the batch by the unique basis rows: samples[indices == i, :] keeps batch order *)
  Definition group_by (ub : list (list letter)) (samples : list (list letter * bits))
    : list (list letter * list bits) :=
    map (fun b => (b, map snd (filter (fun s => basis_eqb (fst s) b) samples))) ub.

  Definition nll_bases user st pr Z (ub : list (list letter)) (samples : list (list letter * bits)) :=
    nll_groups user st pr Z (group_by ub samples) (length samples).
  (* with the unique rows computed from the batch itself *)
  Definition nll_bases_auto user st pr Z (samples : list (list letter * bits)) :=
    nll_bases user st pr Z (dedup_bases (map fst samples)) samples.

  (* ---------- KL ---------- *)
  (* sum(t * logits(t)) - sum(t * logits(q)) *)
  Definition single_basis_KL (t q : list T) : T :=
    sum O (map (fun x => x * plogit x) t) - dot O t (map plogit q).

  Definition diag_real (m : list (list cx)) : list T :=
    map (fun i => fst (nth i (nth i m []) (c0 O))) (seq 0 (length m)).

  (* bases is None, vector target: t = |target|^2, q = probability(space, Z) *)
  Definition kl_none_pure (target : list cx) (pr : bits -> T) (Z : T) (space : list bits) : T * result_kind :=
    (single_basis_KL (map abs_sq target) (map (fun v => pr v / Z) space), PlainNumber).
  (* bases is None, density-matrix target (target.dim() == 3): t = diagonal(real(target)) *)
  Definition kl_none_mixed (target : list (list cx)) (pr : bits -> T) (Z : T) (space : list bits) : T * result_kind :=
    (single_basis_KL (diag_real target) (map (fun v => pr v / Z) space), PlainNumber).

  (* list of bases, wavefunction: [tgt basis] is the target in that basis — either
     rotate_psi(target) (one target, to be rotated) or the dictionary entry *)
  Definition tgt_rotate_psi (user : list umat) (target : list cx) (b : list letter) : list cx :=
    rotate_psi O user b target.
  Fixpoint dict_lookup {A} (d : list (list letter * A)) (dflt : A) (b : list letter) : A :=
    match d with
    | [] => dflt
    | (k, x) :: r => if basis_eqb k b then x else dict_lookup r dflt b
    end.
  Definition tgt_dict_psi (d : list (list letter * list cx)) (b : list letter) : list cx := dict_lookup d [] b.

  Definition kl_basis_pure (user : list umat) (tgt : list letter -> list cx) (psi : list cx) (Z : T) (b : list letter) : T :=
    single_basis_KL (map abs_sq (tgt b)) (map (fun z => abs_sq z / Z) (rotate_psi O user b psi)).
  Definition kl_bases_pure user tgt psi Z (bases : list (list letter)) : T * result_kind :=
    (sum O (map (kl_basis_pure user tgt psi Z) bases) / nofnat O (length bases), PlainNumber).

  (* list of bases, density matrix: target probabilities are rotate_rho_probs(rho=target) or the
     real diagonal of the dictionary entry; model probabilities rotate_rho_probs(...) / Z *)
  Definition tgt_rotate_rho (user : list umat) (target : bits -> bits -> cx) (space : list bits) (b : list letter) : list T :=
    rotate_rho_probs O user b target space.
  Definition tgt_dict_rho (d : list (list letter * list (list cx))) (b : list letter) : list T :=
    diag_real (dict_lookup d [] b).

  Definition kl_basis_mixed (user : list umat) (tgt : list letter -> list T) (rho : bits -> bits -> cx) (Z : T)
             (space : list bits) (b : list letter) : T :=
    single_basis_KL (tgt b) (map (fun p => p / Z) (rotate_rho_probs O user b rho space)).
  Definition kl_bases_mixed user tgt rho Z space (bases : list (list letter)) : T * result_kind :=
    (sum O (map (kl_basis_mixed user tgt rho Z space) bases) / nofnat O (length bases), PlainNumber).

  (* dict target with bases=None: bases = list(target.keys()) *)
  Definition dict_keys {A} (d : list (list letter * A)) : list (list letter) := map fst d.
End Metrics.
