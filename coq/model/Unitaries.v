(* Unitaries.v — utils/unitaries.py: the unitary dictionary, the Kronecker sweep
   (_kron_mult) in structural form and as a dense specification, rotate_psi / rotate_rho,
   and the fast paths _rotate_basis_state / rotate_psi_inner_prod / rotate_rho_probs.
   Executable definitions only.  (The index-level rendering of the sweep's loops lives
   in KronIndex.v.) *)
From Coq Require Import List ZArith NArith Bool Arith.
From QModel Require Import Num Bits CBase.
Import ListNotations.

(* basis letters: the three defaults and user-added unitaries (by position in a user table) *)
Inductive letter := LX | LY | LZ | LU (k : nat).
Definition letter_eqb (a b : letter) : bool :=
  match a, b with
  | LX, LX | LY, LY | LZ, LZ => true
  | LU i, LU j => Nat.eqb i j
  | _, _ => false
  end.
Definition is_Z (a : letter) : bool := match a with LZ => true | _ => false end.

Section Unitaries.
  Context {T : Type} (O : NumOps T).
  Local Notation cx := (cx (T:=T)).

  (* a single-qubit matrix: ((u00, u01), (u10, u11)); row = outcome index *)
  Definition umat := ((cx * cx) * (cx * cx))%type.
  Definition u_entry (u : umat) (r c : bool) : cx :=
    match r, c with
    | false, false => fst (fst u) | false, true => snd (fst u)
    | true, false => fst (snd u)  | true, true => snd (snd u)
    end.

  Definition inv_sqrt2 : T := ndiv O (n1 O) (nsqrt O (two O)).
  (* create_dict(): X = [[1,1],[1,-1]]/sqrt2 ; Y = [[1,-i],[1,i]]/sqrt2 ; Z = I *)
  Definition U_X : umat :=
    let s := inv_sqrt2 in (((s, n0 O), (s, n0 O)), ((s, n0 O), (nopp O s, n0 O))).
  Definition U_Y : umat :=
    let s := inv_sqrt2 in (((s, n0 O), (n0 O, nopp O s)), ((s, n0 O), (n0 O, s))).
  Definition U_Z : umat := ((c1 O, c0 O), (c0 O, c1 O)).

  (* the dictionary: defaults plus a table of user-added matrices *)
  Definition lookup (user : list umat) (a : letter) : umat :=
    match a with
    | LX => U_X | LY => U_Y | LZ => U_Z
    | LU k => nth k user U_Z
    end.

  (* ---- _kron_mult, structural form: site 0 splits the vector in halves ---- *)
  Fixpoint kron_struct (us : list umat) (x : list cx) : list cx :=
    match us with
    | [] => x
    | u :: rest =>
        let h := Nat.div (length x) 2 in
        let y0 := kron_struct rest (firstn h x) in
        let y1 := kron_struct rest (skipn h x) in
        cvadd O (cvscale O (u_entry u false false) y0) (cvscale O (u_entry u false true) y1)
        ++ cvadd O (cvscale O (u_entry u true false) y0) (cvscale O (u_entry u true true) y1)
    end.

  (* dense specification: entry (s, s') of U_0 (x) ... (x) U_{n-1} is prod_j U_j[s_j, s'_j] *)
  Fixpoint kron_entry (us : list umat) (s s' : bits) : cx :=
    match us, s, s' with
    | u :: us', b :: r, b' :: r' => cmul O (u_entry u b b') (kron_entry us' r r')
    | _, _, _ => c1 O
    end.
  Definition dense_apply (us : list umat) (x : list cx) : list cx :=
    let n := length us in
    map (fun s => csum O (map (fun p => cmul O (kron_entry us s (fst p)) (snd p)) (combine (all_bits n) x)))
        (all_bits n).

  Definition rotate_psi (user : list umat) (basis : list letter) (psi : list cx) : list cx :=
    kron_struct (map (lookup user) basis) psi.

  (* matrices as lists of rows.  _kron_mult on a (2,d,d) tensor acts on the row index:
     every column is transformed like a vector *)
  Definition transpose_c (d : nat) (m : list (list cx)) : list (list cx) :=
    map (fun j => map (fun row => nth j row (c0 O)) m) (seq 0 d).
  Definition kron_rows (us : list umat) (m : list (list cx)) : list (list cx) :=
    let d := length m in
    transpose_c d (map (kron_struct us) (transpose_c d m)).
  Definition conj_transpose (m : list (list cx)) : list (list cx) :=
    map (map (cconj O)) (transpose_c (length m) m).
  (* rotate_rho: rho_r = K(rho); rho_r = conjugate(K(conjugate(rho_r)))   (fix 209e65c: the outer conjugate) *)
  Definition rotate_rho (user : list umat) (basis : list letter) (rho : list (list cx)) : list (list cx) :=
    let us := map (lookup user) basis in
    conj_transpose (kron_rows us (conj_transpose (kron_rows us rho))).

  (* ---- _rotate_basis_state: expand a measured outcome over the rotated (non-Z) sites ---- *)
  (* all configurations v that agree with [state] on Z sites, in the order of
     generate_hilbert_space over the rotated sites (first rotated site most significant) *)
  Fixpoint expansions (basis : list letter) (state : bits) : list bits :=
    match basis, state with
    | a :: basis', b :: state' =>
        let rest := expansions basis' state' in
        if is_Z a then map (cons b) rest
        else map (cons false) rest ++ map (cons true) rest
    | _, _ => [[]]
    end.
  (* Ut(v) = prod over rotated sites of U_site[state_site, v_site] *)
  Fixpoint ut_coeff (user : list umat) (basis : list letter) (state v : bits) : cx :=
    match basis, state, v with
    | a :: basis', b :: state', w :: v' =>
        let rest := ut_coeff user basis' state' v' in
        if is_Z a then rest else cmul O (u_entry (lookup user a) b w) rest
    | _, _, _ => c1 O
    end.

  (* rotate_psi_inner_prod for one outcome: sum_v Ut(v) psi(v); psi given as a function
     (model path) — the explicit-array path reads psi at idx v *)
  Definition inner_prod1 (user : list umat) (basis : list letter) (psi : bits -> cx) (state : bits) : cx :=
    csum O (map (fun v => cmul O (ut_coeff user basis state v) (psi v)) (expansions basis state)).
  Definition rotate_psi_inner_prod user basis psi (states : list bits) : list cx :=
    map (inner_prod1 user basis psi) states.
  Definition psi_of_array (arr : list cx) (v : bits) : cx := nth (N.to_nat (idx v)) arr (c0 O).

  (* rotate_rho_probs for one outcome: Re sum_{i,j} Ut(v_i) conj(Ut(v_j)) rho(v_i, v_j) *)
  Definition rho_prob1 (user : list umat) (basis : list letter) (rho : bits -> bits -> cx) (state : bits) : T :=
    let vs := expansions basis state in
    sum O (map (fun vi =>
      sum O (map (fun vj =>
        fst (cmul O (cmul O (ut_coeff user basis state vi) (cconj O (ut_coeff user basis state vj))) (rho vi vj))) vs)) vs).
  Definition rotate_rho_probs user basis rho (states : list bits) : list T :=
    map (rho_prob1 user basis rho) states.
  Definition rho_of_array (arr : list (list cx)) (v vp : bits) : cx :=
    nth (N.to_nat (idx vp)) (nth (N.to_nat (idx v)) arr []) (c0 O).
End Unitaries.
