(* KronIndex.v — utils/unitaries.py:_kron_mult rendered at index level: the loops
     for s in reversed(range(len(n))):  l //= n[s];  m = matrices[s]
       for k in range(l):  for i in range(r):
         slc = slice(k*n[s]*r + i, (k+1)*n[s]*r + i, r);  y[:, slc] = cplx.matmul(m, y[:, slc])
       r *= n[s]
   acting on a flat list through nth / update, with n[s] = 2 (single-qubit matrices).
   Executable definitions only; the refinement to Unitaries.kron_struct is proved in
   theory/KronR.v. *)
From Coq Require Import List ZArith NArith Bool Arith.
From QModel Require Import Num Bits CBase Unitaries.
Import ListNotations.

(* y[i] = v *)
Fixpoint upd {A} (l : list A) (i : nat) (v : A) : list A :=
  match l, i with
  | [], _ => []
  | _ :: t, O => v :: t
  | h :: t, S j => h :: upd t j v
  end.

Section KronIndex.
  Context {T : Type} (O : NumOps T).
  Local Notation cx := (cx (T:=T)).
  Local Notation umat := (umat (T:=T)).

  (* the slice slc = {p, q} (q = p + r): temp = y[slc]; y[slc] = matmul(m, temp) *)
  Definition apply2 (u : umat) (y : list cx) (p q : nat) : list cx :=
    let a := nth p y (c0 O) in
    let b := nth q y (c0 O) in
    upd (upd y p (cadd O (cmul O (u_entry u false false) a) (cmul O (u_entry u false true) b)))
        q (cadd O (cmul O (u_entry u true false) a) (cmul O (u_entry u true true) b)).

  (* for i in range(r): slice(k*2*r + i, (k+1)*2*r + i, r) *)
  Definition inner_loop (u : umat) (r k : nat) (y : list cx) : list cx :=
    fold_left (fun y i => apply2 u y (k * 2 * r + i) (k * 2 * r + i + r)) (seq 0 r) y.

  (* for k in range(l) *)
  Definition site_step (u : umat) (l r : nat) (y : list cx) : list cx :=
    fold_left (fun y k => inner_loop u r k y) (seq 0 l) y.

  (* for s in reversed(range(n)): the matrices are consumed from the last site to the first;
     [l] and [r] are the loop variables of the code *)
  Fixpoint sweep (rev_us : list umat) (l r : nat) (y : list cx) : list cx :=
    match rev_us with
    | [] => y
    | u :: rest => let l' := Nat.div l 2 in sweep rest l' (r * 2) (site_step u l' r y)
    end.

  Definition kron_index (us : list umat) (x : list cx) : list cx :=
    sweep (rev us) (2 ^ length us) 1 x.

  (* with the guard  if l != x.shape[1]: raise ValueError("Incompatible sizes!") *)
  Definition kron_mult (us : list umat) (x : list cx) : option (list cx) :=
    if Nat.eqb (2 ^ length us) (length x) then Some (kron_index us x) else None.

  (* which dictionary a rotation uses (commit c22f10c):
       unitaries = unitaries or getattr(nn_state, "unitary_dict", None) or create_dict()
     A dictionary is represented by its table of user-added matrices on top of the defaults
     (Unitaries.lookup); the default dictionary create_dict() is the empty table.  [None] stands for
     "not given" (argument) / "the state has no unitary_dict" (PositiveWaveFunction); a given but
     empty Python dict is falsy as well and is also represented by [None]. *)
  Definition resolve_dict (arg state : option (list umat)) : list umat :=
    match arg with
    | Some d => d
    | None => match state with Some d => d | None => [] end
    end.
  Definition rotate_psi_resolved (arg state : option (list umat)) (basis : list letter) (psi : list cx) :=
    rotate_psi O (resolve_dict arg state) basis psi.

  (* rotate_psi / rotate_rho through the index-level sweep (what the code executes) *)
  Definition rotate_psi_index (user : list umat) (basis : list letter) (psi : list cx) : option (list cx) :=
    kron_mult (map (lookup O user) basis) psi.

  Definition kron_rows_index (us : list umat) (m : list (list cx)) : list (list cx) :=
    let d := length m in
    transpose_c O d (map (kron_index us) (transpose_c O d m)).
  Definition rotate_rho_index (user : list umat) (basis : list letter) (rho : list (list cx))
    : option (list (list cx)) :=
    let us := map (lookup O user) basis in
    if Nat.eqb (2 ^ length us) (length rho)
    then Some (conj_transpose O (kron_rows_index us (conj_transpose O (kron_rows_index us rho))))
    else None.
End KronIndex.
