(* DataLoad.v — utils/data.py: extract_refbasis_samples (rows whose basis row is all "Z"). *)
From Coq Require Import List Bool.
From QModel Require Import Unitaries.
Import ListNotations.

Section Refbasis.
  Context {A : Type}.
  (* idx = all(train_bases == "Z", dim=1);  z_samples = train_samples[idx] *)
  Definition all_Z (b : list letter) : bool := forallb is_Z b.
  Definition extract_refbasis (rows : list A) (bases : list (list letter)) : list A :=
    map fst (filter (fun p => all_Z (snd p)) (combine rows bases)).
End Refbasis.
