(* Skeleton.v — control skeletons of NeuralStateBase.fit: what the source-translation tie of C12 extracts from the
   CURRENT source (harness/srctie.py, kind "fit-skeleton") and an interpreter giving every skeleton a meaning as a run of
   the protocol machine of Protocol.v.  EXECUTABLE DEFINITIONS ONLY (proofs: theory/SkeletonT.v).

   A skeleton lists, in source order, the statements of fit that matter for the event protocol: callback dispatches,
   optimizer.step, the guarded scheduler.step, `if self.stop_training: break / return`; grouped by where they stand:
   before the epoch loop, in the epoch loop before the batch loop, in the batch loop, in the epoch loop after the batch
   loop, after the epoch loop. *)
From Coq Require Import List ZArith Bool Arith.
From QModel Require Import Protocol.
Import ListNotations.

Inductive ekind := KTrainStart | KEpochStart | KBatchStart | KBatchEnd | KEpochEnd | KTrainEnd.
Inductive item := IEmit (k : ekind) | IOpt | ISched | IBreakIfStop | IReturnIfStop.
Record skel := mkSkel { sk_pre : list item; sk_epoch_pre : list item; sk_batch : list item;
                        sk_epoch_post : list item; sk_post : list item }.
Inductive exit := XNormal | XBreak | XReturn.

Definition mk_event (k : ekind) (e : Z) (b : nat) : event :=
  match k with
  | KTrainStart => TrainStart | KEpochStart => EpochStart e | KBatchStart => BatchStart e b
  | KBatchEnd => BatchEnd e b | KEpochEnd => EpochEnd e | KTrainEnd => TrainEnd
  end.

Fixpoint run_items (inj : injector) (sched : bool) (e : Z) (b : nat) (items : list item) (s : st) : st * exit :=
  match items with
  | [] => (s, XNormal)
  | IEmit k :: r => run_items inj sched e b r (emit inj s (mk_event k e b))
  | IOpt :: r => run_items inj sched e b r (emit inj s (OptStep e b))
  | ISched :: r => run_items inj sched e b r (if sched then emit inj s (SchedStep e) else s)
  | IBreakIfStop :: r => if stop s then (s, XBreak) else run_items inj sched e b r s
  | IReturnIfStop :: r => if stop s then (s, XReturn) else run_items inj sched e b r s
  end.

(* for b, batch in enumerate(data_iterator): [n] batches remain, the next has index [b] *)
Fixpoint run_batches (inj : injector) (sched : bool) (e : Z) (b n : nat) (body : list item) (s : st) : st * exit :=
  match n with
  | O => (s, XNormal)
  | S n' =>
      match run_items inj sched e b body s with
      | (s', XNormal) => run_batches inj sched e (S b) n' body s'
      | (s', XBreak) => (s', XNormal)
      | (s', XReturn) => (s', XReturn)
      end
  end.

(* for ep in range(starting_epoch, epochs + 1): [k] epochs remain, the next is [e] *)
Fixpoint run_epochs (inj : injector) (sched : bool) (nb : nat) (sk : skel) (e : Z) (k : nat) (s : st) : st * exit :=
  match k with
  | O => (s, XNormal)
  | S k' =>
      match run_items inj sched e 0 (sk_epoch_pre sk) s with
      | (s1, XNormal) =>
          match run_batches inj sched e 0 nb (sk_batch sk) s1 with
          | (s2, XReturn) => (s2, XReturn)
          | (s2, _) =>
              match run_items inj sched e 0 (sk_epoch_post sk) s2 with
              | (s3, XNormal) => run_epochs inj sched nb sk (e + 1)%Z k' s3
              | (s3, XBreak) => (s3, XNormal)
              | (s3, XReturn) => (s3, XReturn)
              end
          end
      | (s1, XBreak) => (s1, XNormal)
      | (s1, XReturn) => (s1, XReturn)
      end
  end.

Definition run_skel (sk : skel) (inj : injector) (sched : bool) (start epochs : Z) (nb : nat)
           (stop0 : bool) (ver0 : nat) : st :=
  match run_items inj sched start 0 (sk_pre sk) (mkst [] stop0 ver0) with
  | (s1, XNormal) =>
      match run_epochs inj sched nb sk start (num_epochs start epochs) s1 with
      | (s2, XReturn) => s2
      | (s2, _) => fst (run_items inj sched start 0 (sk_post sk) s2)
      end
  | (s1, _) => s1
  end.

(* the skeleton of the code as modelled by Protocol.fit *)
Definition canonical : skel :=
  mkSkel [IReturnIfStop; IEmit KTrainStart]
         [IEmit KEpochStart]
         [IEmit KBatchStart; IOpt; IEmit KBatchEnd; IBreakIfStop]
         [ISched; IEmit KEpochEnd; IBreakIfStop]
         [IEmit KTrainEnd].

(* decidable equality of skeletons (used by the generated tie and by the bounded comparison) *)
Definition ekind_eqb (a b : ekind) : bool :=
  match a, b with
  | KTrainStart, KTrainStart | KEpochStart, KEpochStart | KBatchStart, KBatchStart
  | KBatchEnd, KBatchEnd | KEpochEnd, KEpochEnd | KTrainEnd, KTrainEnd => true
  | _, _ => false
  end.
Definition item_eqb (a b : item) : bool :=
  match a, b with
  | IEmit x, IEmit y => ekind_eqb x y
  | IOpt, IOpt | ISched, ISched | IBreakIfStop, IBreakIfStop | IReturnIfStop, IReturnIfStop => true
  | _, _ => false
  end.
Fixpoint items_eqb (a b : list item) : bool :=
  match a, b with
  | [], [] => true
  | x :: a', y :: b' => item_eqb x y && items_eqb a' b'
  | _, _ => false
  end.
Definition skel_eqb (a b : skel) : bool :=
  items_eqb (sk_pre a) (sk_pre b) && items_eqb (sk_epoch_pre a) (sk_epoch_pre b) && items_eqb (sk_batch a) (sk_batch b)
  && items_eqb (sk_epoch_post a) (sk_epoch_post b) && items_eqb (sk_post a) (sk_post b).

(* ---- bounded comparison of a skeleton with the machine (a TEST used only to produce a counterexample script when a
   generated skeleton is not the canonical one): the stop request is raised by the callback handling the j-th visible
   event (j = 0: never), for all small runs *)
Definition inj_at (j : nat) : injector := fun h => if Nat.eqb j 0 then false else Nat.eqb (length h) j.
Definition script : Type := (bool * bool * nat * nat * nat)%type.   (* stop0, sched, epochs, nb, j *)
Definition scripts (bound : nat) : list script :=
  flat_map (fun stop0 => flat_map (fun sched => flat_map (fun ep => flat_map (fun nb =>
    map (fun j => (stop0, sched, ep, nb, j)) (seq 0 (bound * bound * 4 + 4))) (seq 0 (S bound))) (seq 0 (S bound)))
    [false; true]) [false; true].
Definition event_eqb (a b : event) : bool :=
  match a, b with
  | TrainStart, TrainStart | TrainEnd, TrainEnd => true
  | EpochStart x, EpochStart y | EpochEnd x, EpochEnd y | SchedStep x, SchedStep y => Z.eqb x y
  | BatchStart x i, BatchStart y j | BatchEnd x i, BatchEnd y j | OptStep x i, OptStep y j => Z.eqb x y && Nat.eqb i j
  | _, _ => false
  end.
Fixpoint trace_eqb (a b : list event) : bool :=
  match a, b with
  | [], [] => true
  | x :: a', y :: b' => event_eqb x y && trace_eqb a' b'
  | _, _ => false
  end.
Definition agrees_on (sk : skel) (sc : script) : bool :=
  let '(stop0, sched, ep, nb, j) := sc in
  let a := run_skel sk (inj_at j) sched 1 (Z.of_nat ep) nb stop0 0 in
  let b := fit (inj_at j) sched 1 (Z.of_nat ep) nb stop0 0 in
  trace_eqb (trace a) (trace b) && Bool.eqb (stop a) (stop b) && Nat.eqb (ver a) (ver b).
Definition first_difference (sk : skel) (bound : nat) : option script :=
  find (fun sc => negb (agrees_on sk sc)) (scripts bound).
