(* Store.v — save / load / autoload over an abstract file store with object identities (C11).
   EXECUTABLE DEFINITIONS ONLY.  Mirrors qucumber/nn_states/neural_state.py (save, load), the three
   autoloads (positive_wavefunction.py, complex_wavefunction.py, density_matrix.py), the constructors'
   size defaults (rbm/binary_rbm.py `if num_hidden`, rbm/purification_rbm.py `is not None`) and
   callbacks/model_saver.py (_save).  Values are opaque tokens (nat): a token stands for the complete
   content of a tensor / a metadata value; equality of tokens models torch.equal.  Keys (network names,
   parameter names, metadata keys, unitary names, paths, object identities) are nat as well. *)
From Coq Require Import List Arith Bool.
Import ListNotations.

Definition key := nat.
Definition val := nat.

(* reserved names *)
Definition K_AM : key := 0.        (* "rbm_am" *)
Definition K_PH : key := 1.        (* "rbm_ph" *)
Definition K_UD : key := 2.        (* "unitary_dict" *)
(* parameter names of the two RBM classes, in registration (= state_dict) order *)
Definition P_WEIGHTS : key := 10.  (* BinaryRBM.weights *)
Definition P_VB : key := 11.       (* visible_bias *)
Definition P_HB : key := 12.       (* hidden_bias *)
Definition P_WW : key := 13.       (* PurificationRBM.weights_W *)
Definition P_WU : key := 14.       (* weights_U *)
Definition P_AB : key := 15.       (* aux_bias *)
(* unitaries.create_dict(): X, Y, Z with their (fixed) matrices as tokens 1, 2, 3 *)
Definition default_ud : list (key * val) := [(20, 1); (21, 2); (22, 3)].

(* ---- Python dicts as insertion-ordered association lists ---- *)
Fixpoint assoc {A} (k : nat) (d : list (nat * A)) : option A :=
  match d with
  | [] => None
  | (k', v) :: r => if k =? k' then Some v else assoc k r
  end.
Definition has_key {A} (k : nat) (d : list (nat * A)) : bool :=
  match assoc k d with Some _ => true | None => false end.
(* d[k] = v : overwrite in place if present, else append *)
Fixpoint dict_set {A} (k : nat) (v : A) (d : list (nat * A)) : list (nat * A) :=
  match d with
  | [] => [(k, v)]
  | (k', v') :: r => if k =? k' then (k, v) :: r else (k', v') :: dict_set k v r
  end.
(* d.update( ** m ) : later bindings win, new keys are appended *)
Definition dict_update {A} (d m : list (nat * A)) : list (nat * A) :=
  fold_left (fun acc kv => dict_set (fst kv) (snd kv) acc) m d.

(* ---- objects ---- *)
Record param := mkParam { p_name : key; p_shape : list nat; p_val : val }.
Record net := mkNet { n_id : nat; n_params : list param }.
Inductive fval :=                       (* what can sit under a key of a saved file *)
| FNet (ps : list param)                (* a state_dict *)
| FDict (d : list (key * val))          (* a dictionary of tensors (unitary_dict) *)
| FVal (v : val).                       (* any other (metadata) value *)
Inductive skind := Positive | Complex | Mixed.
Record state := mkState { s_kind : skind; s_nets : list (key * net); s_ud : option fval }.
Definition fcontent := list (key * fval).
Record heap := mkHeap {
  h_states : list (nat * state);
  h_mds : list (nat * list (key * val));     (* metadata dictionaries are heap objects *)
  h_files : list (nat * fcontent);           (* abstract file store: path -> saved record *)
  h_next : nat }.                            (* next fresh network identity *)

Definition upd_states (H : heap) ss := mkHeap ss (h_mds H) (h_files H) (h_next H).
Definition upd_mds (H : heap) ms := mkHeap (h_states H) ms (h_files H) (h_next H).
Definition upd_files (H : heap) fs := mkHeap (h_states H) (h_mds H) fs (h_next H).

Inductive err := EValue | EKey | ERuntime | ENoFile | EOther | ENoState.
Inductive res := Ok | Err (e : err).

(* ---- NeuralStateBase.save ---- *)
(* md0 = None : metadata argument None (or a dangling reference); Some m : the dict's current content.
   Result None = ValueError (raised before torch.save, so nothing is written). *)
Definition md_as_fvals (m : list (key * val)) : fcontent := map (fun kv => (fst kv, FVal (snd kv))) m.
(* metadata = dict(metadata) if metadata else {} : a COPY; None and the empty dict give {} *)
Definition md_copy (md0 : option (list (key * val))) : fcontent :=
  match md0 with
  | Some m => match m with [] => [] | _ => md_as_fvals m end
  | None => []
  end.
Definition save_data (st : state) (md0 : option (list (key * val))) : option fcontent :=
  let md : fcontent := md_copy md0 in
  (* if hasattr(self, "unitary_dict"): reserved-key check, then metadata["unitary_dict"] = ... (on the copy) *)
  let step1 :=
    match s_ud st with
    | Some u => if has_key K_UD md then None else Some (dict_set K_UD u md)
    | None => Some md
    end in
  match step1 with
  | None => None
  | Some md1 =>
      (* for net in self.networks: if net in metadata.keys(): raise ValueError *)
      if existsb (fun nk => has_key (fst nk) md1) (s_nets st) then None
      else
        let data := map (fun nk => (fst nk, FNet (n_params (snd nk)))) (s_nets st) in
        Some (dict_update data md1)
  end.

(* ---- nn.Module.load_state_dict(strict=True): by name, shape-checked, copies what matches, then raises ---- *)
Fixpoint shape_eqb (a b : list nat) : bool :=
  match a, b with
  | [], [] => true
  | x :: a', y :: b' => (x =? y) && shape_eqb a' b'
  | _, _ => false
  end.
Fixpoint find_param (nm : key) (ps : list param) : option param :=
  match ps with
  | [] => None
  | q :: r => if nm =? p_name q then Some q else find_param nm r
  end.
Definition load_param (src : list param) (p : param) : param * bool :=
  match find_param (p_name p) src with
  | Some q => if shape_eqb (p_shape p) (p_shape q)
              then (mkParam (p_name p) (p_shape p) (p_val q), true)   (* param.copy_(input_param) *)
              else (p, false)                                          (* size mismatch *)
  | None => (p, false)                                                 (* missing key *)
  end.
Definition load_state_dict (target src : list param) : list param * bool :=
  let r := map (load_param src) target in
  (map fst r,
   forallb snd r && forallb (fun q => existsb (fun p => p_name p =? p_name q) target) src (* unexpected keys *)).

(* ---- NeuralStateBase.load, given the loaded record as a lookup function ---- *)
Fixpoint load_nets (lk : key -> option fval) (nets : list (key * net)) : list (key * net) * res :=
  match nets with
  | [] => ([], Ok)
  | (nm, n) :: rest =>
      match lk nm with
      | None => (nets, Err EKey)                       (* state_dict[net] *)
      | Some (FNet src) =>
          let r := load_state_dict (n_params n) src in
          let n' := mkNet (n_id n) (fst r) in          (* in place: same network object *)
          if snd r then
            let rr := load_nets lk rest in ((nm, n') :: fst rr, snd rr)
          else ((nm, n') :: rest, Err ERuntime)        (* earlier networks and matching params stay written *)
      | Some (FDict _) => (nets, Err ERuntime)         (* a dict without the parameter names *)
      | Some (FVal _) => (nets, Err EOther)
      end
  end.
Definition load_state (lk : key -> option fval) (st : state) : state * res :=
  let r := load_nets lk (s_nets st) in
  match snd r with
  | Ok =>
      (* if hasattr(self, "unitary_dict") and "unitary_dict" in state_dict.keys() *)
      let ud' := match s_ud st, lk K_UD with
                 | Some _, Some u => Some u
                 | u0, _ => u0
                 end in
      (mkState (s_kind st) (fst r) ud', Ok)
  | e => (mkState (s_kind st) (fst r) (s_ud st), e)
  end.

(* ---- constructors (sizes path): parameter names and shapes ---- *)
Definition binary_arch (nv nh : nat) : list (key * list nat) :=
  let nh' := if nh =? 0 then nv else nh in            (* `if num_hidden` : 0 falls back to num_visible *)
  [(P_WEIGHTS, [nh'; nv]); (P_VB, [nv]); (P_HB, [nh'])].
Definition purif_arch (nv nh na : nat) : list (key * list nat) :=   (* `is not None` : 0 is kept *)
  [(P_WW, [nh; nv]); (P_WU, [na; nv]); (P_VB, [nv]); (P_HB, [nh]); (P_AB, [na])].
Definition net_arch (k : skind) (nv nh na : nat) : list (key * list nat) :=
  match k with Mixed => purif_arch nv nh na | _ => binary_arch nv nh end.
Definition net_names (k : skind) : list key :=
  match k with Positive => [K_AM] | _ => [K_AM; K_PH] end.
Definition kind_arch (k : skind) (nv nh na : nat) : list (key * list (key * list nat)) :=
  map (fun nm => (nm, net_arch k nv nh na)) (net_names k).
(* a freshly constructed network: the drawn values (token 0) are never observable after a successful load *)
Definition fresh_net (id : nat) (a : list (key * list nat)) : net :=
  mkNet id (map (fun x => mkParam (fst x) (snd x) 0) a).
Fixpoint fresh_nets (id : nat) (a : list (key * list (key * list nat))) : list (key * net) :=
  match a with
  | [] => []
  | (nm, pa) :: r => (nm, fresh_net id pa) :: fresh_nets (S id) r
  end.

(* ---- the three autoloads ---- *)
(* len(state_dict[net][name]) *)
Definition dim0 (lk : key -> option fval) (netk pk : key) : nat + err :=
  match lk netk with
  | None => inr EKey
  | Some (FNet ps) =>
      match find_param pk ps with
      | None => inr EKey
      | Some q => match p_shape q with d :: _ => inl d | [] => inr EOther end
      end
  | Some (FDict _) => inr EKey
  | Some (FVal _) => inr EOther
  end.
(* ComplexWaveFunction / DensityMatrix.autoload evaluate the constructor ARGUMENTS first, in order:
   state_dict["unitary_dict"] (KeyError if absent), then the lengths of the biases; only then does the
   constructor run `unitary_dict if unitary_dict else create_dict()` and `.items()` *)
Definition autoload_ud_arg (k : skind) (lk : key -> option fval) : option fval + err :=
  match k with
  | Positive => inl None
  | _ => match lk K_UD with
         | None => inr EKey
         | Some u => inl (Some u)
         end
  end.
Definition ctor_ud (u0 : option fval) : option fval + err :=
  match u0 with
  | None => inl None
  | Some (FDict []) => inl (Some (FDict default_ud))     (* falsy -> create_dict() *)
  | Some (FDict d) => inl (Some (FDict d))
  | Some _ => inr EOther                                 (* .items() on a non-dict *)
  end.
Definition autoload_na (k : skind) (lk : key -> option fval) : nat + err :=
  match k with Mixed => dim0 lk K_AM P_AB | _ => inl 0 end.
Definition autoload (k : skind) (lk : key -> option fval) (id : nat) : option state * res :=
  match autoload_ud_arg k lk with
  | inr e => (None, Err e)
  | inl u0 =>
    match dim0 lk K_AM P_VB with
    | inr e => (None, Err e)
    | inl nv =>
      match dim0 lk K_AM P_HB with
      | inr e => (None, Err e)
      | inl nh =>
        match autoload_na k lk with
        | inr e => (None, Err e)
        | inl na =>
          match ctor_ud u0 with
          | inr e => (None, Err e)
          | inl ud =>
            let st0 := mkState k (fresh_nets id (kind_arch k nv nh na)) ud in
            let r := load_state lk st0 in
            match snd r with
            | Ok => (Some (fst r), Ok)
            | e => (None, e)                                      (* the half-built object is dropped *)
            end
          end
        end
      end
    end
  end.

(* ---- operations of a history ---- *)
Inductive op :=
| Randomise (s : nat) (vals : list (list val))   (* reinitialize_parameters: the drawn values, per network / parameter *)
| Train (s : nat) (vals : list (list val))       (* fit: the resulting values, per network / parameter *)
| AddUnitary (s : nat) (k : key) (v : val)       (* s.unitary_dict[k] = v *)
| Save (s f : nat) (md : option nat)             (* s.save(f, md)  — also ModelSaver._save *)
| SaveMdOnly (f : nat) (md : option nat)         (* ModelSaver(metadata_only=True)._save *)
| Load (s f : nat)
| Autoload (k : skind) (f : nat) (new_s : nat)   (* new_s = T.autoload(f) *)
| MutateMd (md : nat) (k : key) (v : val).       (* md[k] = v by the caller *)

Fixpoint set_vals (ps : list param) (vs : list val) : list param :=
  match ps, vs with
  | p :: ps', v :: vs' => mkParam (p_name p) (p_shape p) v :: set_vals ps' vs'
  | _, _ => ps
  end.
Fixpoint set_net_vals (nets : list (key * net)) (vss : list (list val)) : list (key * net) :=
  match nets, vss with
  | (nm, n) :: r, vs :: vss' => (nm, mkNet (n_id n) (set_vals (n_params n) vs)) :: set_net_vals r vss'
  | _, _ => nets
  end.

Definition md_content (H : heap) (md : option nat) : option (list (key * val)) :=
  match md with Some m => assoc m (h_mds H) | None => None end.

Definition run_op (o : op) (H : heap) : heap * res :=
  match o with
  | Randomise s vss | Train s vss =>
      match assoc s (h_states H) with
      | None => (H, Err ENoState)
      | Some st => (upd_states H (dict_set s (mkState (s_kind st) (set_net_vals (s_nets st) vss) (s_ud st)) (h_states H)), Ok)
      end
  | AddUnitary s k v =>
      match assoc s (h_states H) with
      | None => (H, Err ENoState)
      | Some st =>
          match s_ud st with
          | Some (FDict d) => (upd_states H (dict_set s (mkState (s_kind st) (s_nets st) (Some (FDict (dict_set k v d)))) (h_states H)), Ok)
          | _ => (H, Err EOther)
          end
      end
  | Save s f md =>
      match assoc s (h_states H) with
      | None => (H, Err ENoState)
      | Some st =>
          match save_data st (md_content H md) with
          | None => (H, Err EValue)
          | Some c => (upd_files H (dict_set f c (h_files H)), Ok)
          end
      end
  | SaveMdOnly f md =>
      let c := match md_content H md with Some m => md_as_fvals m | None => [] end in
      (upd_files H (dict_set f c (h_files H)), Ok)
  | Load s f =>
      match assoc s (h_states H) with
      | None => (H, Err ENoState)
      | Some st =>
          match assoc f (h_files H) with
          | None => (H, Err ENoFile)
          | Some c =>
              let r := load_state (fun k => assoc k c) st in
              (upd_states H (dict_set s (fst r) (h_states H)), snd r)
          end
      end
  | Autoload k f new_s =>
      match assoc f (h_files H) with
      | None => (H, Err ENoFile)
      | Some c =>
          match autoload k (fun x => assoc x c) (h_next H) with
          | (Some st, r) =>
              (mkHeap (dict_set new_s st (h_states H)) (h_mds H) (h_files H) (h_next H + length (s_nets st)), r)
          | (None, r) => (H, r)
          end
      end
  | MutateMd md k v =>
      let m := match assoc md (h_mds H) with Some m => m | None => [] end in
      (upd_mds H (dict_set md (dict_set k v m) (h_mds H)), Ok)
  end.

Fixpoint run (h : list op) (H : heap) : heap * list res :=
  match h with
  | [] => (H, [])
  | o :: r => let a := run_op o H in let b := run r (fst a) in (fst b, snd a :: snd b)
  end.
(* the complete trace: the heap after every step (what the correspondence check compares) *)
Fixpoint run_trace (h : list op) (H : heap) : list (res * heap) :=
  match h with
  | [] => []
  | o :: r => let a := run_op o H in (snd a, fst a) :: run_trace r (fst a)
  end.

Definition writes_to (o : op) : option nat :=
  match o with Save _ f _ => Some f | SaveMdOnly f _ => Some f | _ => None end.
Definition no_write (f : nat) (h : list op) : Prop :=
  Forall (fun o => writes_to o <> Some f) h.
