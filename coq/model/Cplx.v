(* Cplx.v — tensor-level mirror of qucumber/utils/cplx.py (every function).
   EXECUTABLE DEFINITIONS ONLY (no proofs, no Reals).

   Representation.  A complex tensor of the library is a real tensor of shape [2, d1, ..., dk]
   (real part stacked on imaginary part).  In the model a complex tensor of rank k (k = 0..4) is a
   k-fold nested list of complex scalars [cx = T * T] (CBase.v); [re_k]/[im_k] split it into the two
   real tensors the library indexes as x[0]/x[1] ([real]/[imag]) and [mk_k] is [make_complex]
   (shape mismatch -> None).  Functions that the library computes "on the parts"
   (matmul, einsum, kronecker_prod, inner_prod, outer_prod) are modelled on the parts, through the
   generic combinator [complexify]; functions that are elementwise are modelled pointwise with the
   scalar operations of CBase.v (the same floating-point expression per entry).

   Errors.  [res]: Ok | ValueErr | RuntimeErr — the kinds the library (or torch below it) raises.
   Rank-specific functions return [option] (None = shape mismatch / ragged input).

   Output buffers ([scalar_mult(x, y, out=...)]).  A tensor object is a reference [bufref] with an
   identity [b_id] and a storage id [b_store]; the heap maps storage ids to contents.  The guard of
   the code is [out is x or out is y] — identity only. *)
From Coq Require Import List ZArith Bool Arith.
From QModel Require Import Num CBase.
Import ListNotations.

Inductive res (A : Type) : Type := Ok (a : A) | ValueErr | RuntimeErr.
Arguments Ok {A}. Arguments ValueErr {A}. Arguments RuntimeErr {A}.

Definition of_opt {A} (e : res A) (o : option A) : res A :=
  match o with Some a => Ok a | None => e end.

(* ------------------------------------------------------------------ polymorphic list helpers *)
Section ListHelpers.
  Context {A B C : Type}.

  Fixpoint seq_opt (l : list (option C)) : option (list C) :=
    match l with
    | [] => Some []
    | o :: r => match o, seq_opt r with Some c, Some cs => Some (c :: cs) | _, _ => None end
    end.

  (* strict zip: lengths must agree *)
  Fixpoint zip_opt (f : A -> B -> option C) (xs : list A) (ys : list B) : option (list C) :=
    match xs, ys with
    | [], [] => Some []
    | x :: xs', y :: ys' =>
        match f x y, zip_opt f xs' ys' with Some c, Some cs => Some (c :: cs) | _, _ => None end
    | _, _ => None
    end.

  (* torch broadcasting along one dimension: a size-1 dimension is stretched *)
  Definition bzip (f : A -> B -> option C) (xs : list A) (ys : list B) : option (list C) :=
    match xs, ys with
    | [x], _ => seq_opt (map (f x) ys)
    | _, [y] => seq_opt (map (fun x => f x y) xs)
    | _, _ => zip_opt f xs ys
    end.
End ListHelpers.

(* total zip-with (stops at the shorter list; used where shapes agree by construction) *)
Definition zipw {A B C} (f : A -> B -> C) (xs : list A) (ys : list B) : list C :=
  map (fun p => f (fst p) (snd p)) (combine xs ys).

Definition ncols {A} (m : list (list A)) : nat := match m with [] => 0 | r :: _ => length r end.
Definition rectb {A} (nc : nat) (m : list (list A)) : bool :=
  forallb (fun r => Nat.eqb (length r) nc) m.
Definition rect3b {A} (n1 n2 : nat) (t : list (list (list A))) : bool :=
  forallb (fun m => Nat.eqb (length m) n1 && rectb n2 m) t.
Definition rect4b {A} (n1 n2 n3 : nat) (t : list (list (list (list A)))) : bool :=
  forallb (fun m => Nat.eqb (length m) n1 && rect3b n2 n3 m) t.

Definition heads {A} (m : list (list A)) : list A :=
  flat_map (fun r => match r with [] => [] | a :: _ => [a] end) m.
Definition tails {A} (m : list (list A)) : list (list A) := map (@tl A) m.
(* swap the first two indices of a (rectangular, nc columns) nested list; the entries may
   themselves be tensors: torch.transpose(t, 0, 1) *)
Fixpoint transpose {A} (nc : nat) (m : list (list A)) : list (list A) :=
  match nc with 0 => [] | S k => heads m :: transpose k (tails m) end.

(* [2, a, c, b, d] -> reshape(2, a*c, b*d): row (a,c) |-> a*nc + c, column (b,d) |-> b*nd + d *)
Definition reshape_kron {A} (t : list (list (list (list A)))) : list (list A) :=
  concat (map (fun ta => map (fun tac => concat tac) ta) t).

(* the generic complexification combinator: what cplx.matmul / cplx.einsum / scalar_mult do with a
   real-bilinear torch function Bf: (Bf ra rb - Bf ia ib, Bf ra ib + Bf ia rb) *)
Definition complexify {A B X} (xsub xadd : X -> X -> X) (Bf : A -> B -> X)
           (ra ia : A) (rb ib : B) : X * X :=
  (xsub (Bf ra rb) (Bf ia ib), xadd (Bf ra ib) (Bf ia rb)).

(* result of cplx.einsum with its real_part / imag_part switches *)
Inductive eres (X : Type) : Type := EBoth (r i : X) | EReal (r : X) | EImag (i : X) | ENone.
Arguments EBoth {X}. Arguments EReal {X}. Arguments EImag {X}. Arguments ENone {X}.

Definition complexify_sw {A B X} (xsub xadd : X -> X -> X) (Bf : A -> B -> X)
           (real_part imag_part : bool) (ra ia : A) (rb ib : B) : eres X :=
  match real_part, imag_part with
  | true, true => EBoth (xsub (Bf ra rb) (Bf ia ib)) (xadd (Bf ra ib) (Bf ia rb))
  | true, false => EReal (xsub (Bf ra rb) (Bf ia ib))
  | false, true => EImag (xadd (Bf ra ib) (Bf ia rb))
  | false, false => ENone
  end.

(* tensors of rank 0..4 over an entry type *)
Inductive tens (A : Type) : Type :=
| T0 (a : A)
| T1 (v : list A)
| T2 (m : list (list A))
| T3 (t : list (list (list A)))
| T4 (t : list (list (list (list A)))).
Arguments T0 {A}. Arguments T1 {A}. Arguments T2 {A}. Arguments T3 {A}. Arguments T4 {A}.

Definition trank {A} (x : tens A) : nat :=
  match x with T0 _ => 0 | T1 _ => 1 | T2 _ => 2 | T3 _ => 3 | T4 _ => 4 end.

Definition tmap {A B} (f : A -> B) (x : tens A) : tens B :=
  match x with
  | T0 a => T0 (f a)
  | T1 v => T1 (map f v)
  | T2 m => T2 (map (map f) m)
  | T3 t => T3 (map (map (map f)) t)
  | T4 t => T4 (map (map (map (map f))) t)
  end.

(* prepend a size-1 dimension (torch aligns trailing dimensions when broadcasting) *)
Definition tlift {A} (x : tens A) : tens A :=
  match x with
  | T0 a => T1 [a] | T1 v => T2 [v] | T2 m => T3 [m] | T3 t => T4 [t] | T4 t => T4 t
  end.
Fixpoint tpromote {A} (fuel : nat) (k : nat) (x : tens A) : tens A :=
  match fuel with
  | 0 => x
  | S f => if Nat.ltb (trank x) k then tpromote f k (tlift x) else x
  end.

Section TensZip.
  Context {A B C : Type}.
  (* same shape required (no broadcasting) *)
  Definition tzip_strict (f : A -> B -> C) (x : tens A) (y : tens B) : option (tens C) :=
    let f0 := fun a b => Some (f a b) in
    match x, y with
    | T0 a, T0 b => Some (T0 (f a b))
    | T1 a, T1 b => option_map T1 (zip_opt f0 a b)
    | T2 a, T2 b => option_map T2 (zip_opt (zip_opt f0) a b)
    | T3 a, T3 b => option_map T3 (zip_opt (zip_opt (zip_opt f0)) a b)
    | T4 a, T4 b => option_map T4 (zip_opt (zip_opt (zip_opt (zip_opt f0))) a b)
    | _, _ => None
    end.
  (* equal ranks, size-1 dimensions broadcast *)
  Definition tzip_bcast_same (f : A -> B -> C) (x : tens A) (y : tens B) : option (tens C) :=
    let f0 := fun a b => Some (f a b) in
    match x, y with
    | T0 a, T0 b => Some (T0 (f a b))
    | T1 a, T1 b => option_map T1 (bzip f0 a b)
    | T2 a, T2 b => option_map T2 (bzip (bzip f0) a b)
    | T3 a, T3 b => option_map T3 (bzip (bzip (bzip f0)) a b)
    | T4 a, T4 b => option_map T4 (bzip (bzip (bzip (bzip f0))) a b)
    | _, _ => None
    end.
  (* full torch broadcasting for ranks <= 4: the lower rank is padded with leading size-1 dims *)
  Definition tzip_bcast (f : A -> B -> C) (x : tens A) (y : tens B) : option (tens C) :=
    let k := Nat.max (trank x) (trank y) in
    tzip_bcast_same f (tpromote 4 k x) (tpromote 4 k y).
End TensZip.

Record bufref : Type := mkBuf { b_id : nat; b_store : nat }.

(* ------------------------------------------------------------------ the kernel *)
Section Cplx.
  Context {T : Type} (O : NumOps T).
  Notation cxT := (@cx T).

  (* ---- real / imag / make_complex ---- *)
  Definition re1 (v : list cxT) : list T := map fst v.
  Definition im1 (v : list cxT) : list T := map snd v.
  Definition re2 (m : list (list cxT)) : list (list T) := map re1 m.
  Definition im2 (m : list (list cxT)) : list (list T) := map im1 m.
  Definition re3 (t : list (list (list cxT))) := map re2 t.
  Definition im3 (t : list (list (list cxT))) := map im2 t.
  Definition re4 (t : list (list (list (list cxT)))) := map re3 t.
  Definition im4 (t : list (list (list (list cxT)))) := map im3 t.
  Definition treal (x : tens cxT) : tens T := tmap fst x.       (* cplx.real: x[0, ...] *)
  Definition timag (x : tens cxT) : tens T := tmap snd x.       (* cplx.imag: x[1, ...] *)

  (* make_complex(x, y): torch.cat of the two unsqueezed parts; shapes must agree *)
  Definition make_complex (x y : tens T) : res (tens cxT) :=
    of_opt RuntimeErr (tzip_strict (fun a b => (a, b)) x y).
  (* make_complex(x): y = zeros_like(x) *)
  Definition make_complex_real (x : tens T) : tens cxT := tmap (fun a => (a, n0 O)) x.

  (* total recombination of parts (shapes agree by construction) *)
  Definition cmb1 (r i : list T) : list cxT := combine r i.
  Definition cmb2 (r i : list (list T)) : list (list cxT) := zipw cmb1 r i.
  Definition cmb3 (r i : list (list (list T))) := zipw cmb2 r i.
  Definition cmb4 (r i : list (list (list (list T)))) := zipw cmb3 r i.

  (* ---- real tensor arithmetic used on the parts ---- *)
  Definition vzero (n : nat) : list T := repeat (n0 O) n.
  Definition vmul (a b : list T) : list T := zipw (nmul O) a b.
  Definition madd (a b : list (list T)) : list (list T) := zipw (vadd O) a b.
  Definition msub (a b : list (list T)) : list (list T) := zipw (vsub O) a b.
  Definition t3add (a b : list (list (list T))) := zipw madd a b.
  Definition t3sub (a b : list (list (list T))) := zipw msub a b.
  Definition t4add (a b : list (list (list (list T)))) := zipw t3add a b.
  Definition t4sub (a b : list (list (list (list T)))) := zipw t3sub a b.
  Definition mzero (n m : nat) : list (list T) := repeat (vzero m) n.

  (* row vector times matrix: sum_k row_k * B_k  (m columns) — torch "b,bg->g" *)
  Fixpoint vecmat (m : nat) (row : list T) (Bm : list (list T)) : list T :=
    match row, Bm with
    | a :: row', b :: Bm' => vadd O (vscale O a b) (vecmat m row' Bm')
    | _, _ => vzero m
    end.
  (* torch.matmul on real matrices *)
  Definition rmatmul (m : nat) (A Bm : list (list T)) : list (list T) :=
    map (fun row => vecmat m row Bm) A.
  (* torch.ger *)
  Definition ger (a b : list T) : list (list T) := map (fun ai => map (nmul O ai) b) a.

  (* torch.einsum("ab,cd->acbd") *)
  Definition ein_abcd (A Bm : list (list T)) : list (list (list (list T))) :=
    map (fun ra => map (fun rc => map (fun ab => map (nmul O ab) rc) ra) Bm) A.
  (* torch.einsum("ib,ibg->bg"): sum_i A[i][b] * B[i][b][g] *)
  Definition ein_ib_ibg (nb ng : nat) (A : list (list T)) (Bt : list (list (list T))) : list (list T) :=
    fold_right madd (mzero nb ng) (zipw (fun ai bi => zipw (vscale O) ai bi) A Bt).
  (* torch.einsum("b,bg->g") *)
  Definition ein_b_bg (ng : nat) (a : list T) (Bm : list (list T)) : list T := vecmat ng a Bm.
  (* torch.einsum("ijb,ijbg->bg"): the pair (i,j) is one summation index *)
  Definition ein_ijb_ijbg (nb ng : nat) (A : list (list (list T))) (Bt : list (list (list (list T)))) :=
    ein_ib_ibg nb ng (concat A) (concat Bt).

  (* ---- scalar_mult / elementwise_mult (pointwise (ar*br - ai*bi, ar*bi + ai*br), broadcasting) ---- *)
  Definition scalar_mult (x y : tens cxT) : res (tens cxT) :=
    of_opt RuntimeErr (tzip_bcast (cmul O) x y).
  Definition elementwise_mult := scalar_mult.
  (* rank-specific views of the same thing *)
  Definition smul1 (x y : list cxT) : option (list cxT) := bzip (fun a b => Some (cmul O a b)) x y.
  Definition smul2 (x y : list (list cxT)) : option (list (list cxT)) := bzip smul1 x y.

  (* ---- scalar_mult(x, y, out=...) on a heap ----
     The code runs two statements, each of which is two writes into the buffer:
       torch.mul(real(x), real(y), out=real(out)).sub_(torch.mul(imag(x), imag(y)))
       torch.mul(real(x), imag(y), out=imag(out)).add_(torch.mul(imag(x), real(y)))
     Python evaluates the out= write before the argument of sub_/add_, so every one of the four
     products reads the heap as the previous write left it. *)
  Definition heap := nat -> tens cxT.
  Definition upd (h : heap) (s : nat) (v : tens cxT) : heap := fun s' => if Nat.eqb s' s then v else h s'.
  (* write into the real / imaginary part of a buffer: new value f old_part p.  The zip is STRICT: a buffer whose
     shape is not the shape of the product is an error.  The code (since /repo d718730) checks
     [out.shape != (2, *broadcast shape)] -> RuntimeError right after the identity guard and before any write; in
     the model the very first write fails in exactly that case, before the heap is touched, and the writes never
     change a shape, so the two formulations agree (theory/CplxOutR.v: scalar_mult_out_fresh_wrong_shape). *)
  Definition wr_re (f : T -> T -> T) (p : tens T) (old : tens cxT) : option (tens cxT) :=
    tzip_strict (fun n o => (f (fst o) n, snd o)) p old.
  Definition wr_im (f : T -> T -> T) (p : tens T) (old : tens cxT) : option (tens cxT) :=
    tzip_strict (fun n o => (fst o, f (snd o) n)) p old.
  Definition keep_new (_ n : T) : T := n.
  (* one write: out_part := f out_part (a * b), a and b real tensors read from the current heap *)
  Definition out_step (h : heap) (out : bufref)
             (w : tens T -> tens cxT -> option (tens cxT)) (a b : tens T) : option heap :=
    match tzip_bcast (nmul O) a b with
    | Some p => match w p (h (b_store out)) with
                | Some o => Some (upd h (b_store out) o)
                | None => None
                end
    | None => None
    end.
  Definition scalar_mult_out (h : heap) (x y out : bufref) : res (heap * bufref) :=
    if Nat.eqb (b_id out) (b_id x) || Nat.eqb (b_id out) (b_id y) then RuntimeErr    (* out is x or out is y *)
    else
      let X := fun h : heap => h (b_store x) in
      let Y := fun h : heap => h (b_store y) in
      match out_step h out (wr_re keep_new) (treal (X h)) (treal (Y h)) with
      | Some h1 =>
        match out_step h1 out (wr_re (nsub O)) (timag (X h1)) (timag (Y h1)) with
        | Some h2 =>
          match out_step h2 out (wr_im keep_new) (treal (X h2)) (timag (Y h2)) with
          | Some h3 =>
            match out_step h3 out (wr_im (nadd O)) (timag (X h3)) (treal (Y h3)) with
            | Some h4 => Ok (h4, out)
            | None => RuntimeErr
            end
          | None => RuntimeErr
          end
        | None => RuntimeErr
        end
      | None => RuntimeErr
      end.

  (* ---- matmul ---- *)
  Definition matmul_mm (x y : list (list cxT)) : option (list (list cxT)) :=
    let k := length y in let m := ncols y in
    if rectb k x && rectb m y then
      let p := complexify msub madd (rmatmul m) (re2 x) (im2 x) (re2 y) (im2 y) in
      Some (cmb2 (fst p) (snd p))
    else None.
  Definition matmul_mv (x : list (list cxT)) (v : list cxT) : option (list cxT) :=
    if rectb (length v) x then
      let p := complexify (vsub O) (vadd O) (matvec O) (re2 x) (im2 x) (re1 v) (im1 v) in
      Some (cmb1 (fst p) (snd p))
    else None.
  Definition matmul (x y : tens cxT) : res (tens cxT) :=
    match x, y with
    | T2 a, T2 b => of_opt RuntimeErr (option_map T2 (matmul_mm a b))
    | T2 a, T1 v => of_opt RuntimeErr (option_map T1 (matmul_mv a v))
    | _, _ => RuntimeErr                       (* other rank combinations are not modelled *)
    end.

  (* ---- inner_prod ---- *)
  Definition inner_prod_v (x y : list cxT) : option cxT :=
    if Nat.eqb (length x) (length y) then
      Some (nadd O (dot O (re1 x) (re1 y)) (dot O (im1 x) (im1 y)),
            nsub O (dot O (re1 x) (im1 y)) (dot O (im1 x) (re1 y)))
    else None.
  Definition inner_prod_s (x y : cxT) : cxT :=
    (nadd O (nmul O (fst x) (fst y)) (nmul O (snd x) (snd y)),
     nsub O (nmul O (fst x) (snd y)) (nmul O (snd x) (fst y))).
  Definition inner_prod (x y : tens cxT) : res (tens cxT) :=
    match x, y with
    | T1 a, T1 b => of_opt RuntimeErr (option_map T0 (inner_prod_v a b))
    | T0 a, T0 b => Ok (T0 (inner_prod_s a b))
    | _, _ => ValueErr
    end.

  (* ---- outer_prod ---- *)
  Definition outer_prod_v (x y : list cxT) : list (list cxT) :=
    cmb2 (msub (ger (re1 x) (re1 y)) (ger (im1 x) (vopp O (im1 y))))
         (madd (ger (re1 x) (vopp O (im1 y))) (ger (im1 x) (re1 y))).
  Definition outer_prod (x y : tens cxT) : res (tens cxT) :=
    match x, y with
    | T1 a, T1 b => Ok (T2 (outer_prod_v a b))
    | _, _ => ValueErr
    end.

  (* ---- einsum (the equations the library uses) ---- *)
  Definition einsum_ab_cd (rp ip : bool) (x y : list (list cxT)) : option (eres (list (list (list (list T))))) :=
    if rectb (ncols x) x && rectb (ncols y) y then
      Some (complexify_sw t4sub t4add ein_abcd rp ip (re2 x) (im2 x) (re2 y) (im2 y))
    else None.
  Definition einsum_ib_ibg (rp ip : bool) (nb ng : nat) (x : list (list cxT)) (y : list (list (list cxT)))
    : option (eres (list (list T))) :=
    if Nat.eqb (length x) (length y) && rectb nb x && rect3b nb ng y then
      Some (complexify_sw msub madd (ein_ib_ibg nb ng) rp ip (re2 x) (im2 x) (re3 y) (im3 y))
    else None.
  Definition einsum_b_bg (rp ip : bool) (ng : nat) (x : list cxT) (y : list (list cxT))
    : option (eres (list T)) :=
    if Nat.eqb (length x) (length y) && rectb ng y then
      Some (complexify_sw (vsub O) (vadd O) (ein_b_bg ng) rp ip (re1 x) (im1 x) (re2 y) (im2 y))
    else None.
  Definition einsum_ijb_ijbg (rp ip : bool) (nj nb ng : nat)
             (x : list (list (list cxT))) (y : list (list (list (list cxT))))
    : option (eres (list (list T))) :=
    if Nat.eqb (length x) (length y) && rect3b nj nb x && rect4b nj nb ng y then
      Some (complexify_sw msub madd (ein_ijb_ijbg nb ng) rp ip (re3 x) (im3 x) (re4 y) (im4 y))
    else None.

  (* ---- conj / conjugate ---- *)
  Definition conj (x : tens cxT) : tens cxT := tmap (cconj O) x.
  Definition conjugate (x : tens cxT) : tens cxT :=
    match x with
    | T0 _ | T1 _ => conj x
    | T2 m => T2 (transpose (ncols m) (map (map (cconj O)) m))
    | T3 t => T3 (transpose (ncols t) (map (map (map (cconj O))) t))
    | T4 t => T4 (transpose (ncols t) (map (map (map (map (cconj O)))) t))
    end.

  (* ---- absolute_value: real(x * conj x).sqrt_() ---- *)
  Definition absolute_value (x : tens cxT) : tens T := tmap (cabs O) x.

  (* ---- elementwise_division: (x * conj y) / |y|^2 with |y|^2 = absolute_value(y).pow_(2) ---- *)
  Definition cediv (a b : cxT) : cxT :=
    let p := cmul O a (cconj O b) in
    let d := sqr O (cabs O b) in
    (ndiv O (fst p) d, ndiv O (snd p) d).
  Definition elementwise_division (x y : tens cxT) : res (tens cxT) :=
    of_opt ValueErr (tzip_strict cediv x y).

  (* ---- kronecker_prod ---- *)
  Definition kron_m (x y : list (list cxT)) : option (list (list cxT)) :=
    if rectb (ncols x) x && rectb (ncols y) y then
      let p := complexify t4sub t4add ein_abcd (re2 x) (im2 x) (re2 y) (im2 y) in
      Some (cmb2 (reshape_kron (fst p)) (reshape_kron (snd p)))
    else None.
  Definition kronecker_prod (x y : tens cxT) : res (tens cxT) :=
    match x, y with
    | T2 a, T2 b => of_opt RuntimeErr (option_map T2 (kron_m a b))
    | _, _ => ValueErr
    end.

  (* ---- sigmoid(x, y) = e^z / (1 + e^z), z = x + i y (numpy complex arithmetic) ---- *)
  Definition cexp (x y : T) : cxT := cscale O (nexp O x) (cexp_i O y).
  Definition csigmoid (x y : T) : cxT := let e := cexp x y in cdiv O e (cadd O (c1 O) e).
  (* numpy broadcasts x against y (same rule as torch); a failed broadcast is numpy's ValueError *)
  Definition sigmoid (x y : tens T) : res (tens cxT) :=
    of_opt ValueErr (tzip_bcast csigmoid x y).

  (* ---- inverse / scalar_divide ---- *)
  Definition inverse (z : tens cxT) : tens cxT := tmap (cinv O) z.
  Definition scalar_divide (x y : tens cxT) : res (tens cxT) := scalar_mult x (inverse y).

  (* ---- norm_sqr / norm ---- *)
  Definition norm_sqr (x : tens cxT) : res T :=
    match inner_prod x x with
    | Ok (T0 z) => Ok (fst z)
    | Ok _ => RuntimeErr
    | ValueErr => ValueErr
    | RuntimeErr => RuntimeErr
    end.
  Definition norm (x : tens cxT) : res T :=
    match norm_sqr x with Ok a => Ok (nsqrt O a) | ValueErr => ValueErr | RuntimeErr => RuntimeErr end.
End Cplx.
