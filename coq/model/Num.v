(* Num.v — the number interface of the model and list-level linear algebra.
   EXECUTABLE DEFINITIONS ONLY (no proofs): every numeric function of the model is
   polymorphic in a record [NumOps T]; it is instantiated at Coq's R for the theorems
   (theory/RInst.v) and at OCaml floats after extraction (ocaml/driver.ml). *)
From Coq Require Import List ZArith Bool.
Import ListNotations.

Record NumOps (T : Type) := mkNumOps {
  n0 : T; n1 : T;
  nadd : T -> T -> T; nsub : T -> T -> T; nmul : T -> T -> T; ndiv : T -> T -> T;
  nopp : T -> T;
  nexp : T -> T; nln : T -> T; nsqrt : T -> T; ncos : T -> T; nsin : T -> T;
  natan2 : T -> T -> T;      (* natan2 y x *)
  nofZ : Z -> T; nltb : T -> T -> bool; nabs : T -> T }.

Arguments n0 {T}. Arguments n1 {T}. Arguments nadd {T}. Arguments nsub {T}.
Arguments nmul {T}. Arguments ndiv {T}. Arguments nopp {T}. Arguments nexp {T}.
Arguments nln {T}. Arguments nsqrt {T}. Arguments ncos {T}. Arguments nsin {T}.
Arguments natan2 {T}. Arguments nofZ {T}. Arguments nltb {T}. Arguments nabs {T}.

Section Lin.
  Context {T : Type} (O : NumOps T).

  Definition two : T := nadd O (n1 O) (n1 O).
  Definition half (x : T) : T := ndiv O x two.
  Definition b2t (b : bool) : T := if b then n1 O else n0 O.
  Definition nofnat (n : nat) : T := nofZ O (Z.of_nat n).

  Fixpoint sum (xs : list T) : T :=
    match xs with [] => n0 O | x :: r => nadd O x (sum r) end.

  Fixpoint prod (xs : list T) : T :=
    match xs with [] => n1 O | x :: r => nmul O x (prod r) end.

  (* dot product; stops at the shorter list (shape guards are explicit in theorems) *)
  Fixpoint dot (xs ys : list T) : T :=
    match xs, ys with
    | x :: xs', y :: ys' => nadd O (nmul O x y) (dot xs' ys')
    | _, _ => n0 O
    end.

  (* dot product with a 0/1 vector: sum of w_j over the sites where v_j = 1 *)
  Fixpoint dotb (w : list T) (v : list bool) : T :=
    match w, v with
    | x :: w', b :: v' => nadd O (if b then x else n0 O) (dotb w' v')
    | _, _ => n0 O
    end.

  Definition vadd (xs ys : list T) : list T := map (fun p => nadd O (fst p) (snd p)) (combine xs ys).
  Definition vsub (xs ys : list T) : list T := map (fun p => nsub O (fst p) (snd p)) (combine xs ys).
  Definition vscale (a : T) (xs : list T) : list T := map (nmul O a) xs.
  Definition vopp (xs : list T) : list T := map (nopp O) xs.

  (* F.linear(v, W, c) for a 0/1 vector v: one entry per row of W *)
  Definition linearb (W : list (list T)) (c : list T) (v : list bool) : list T :=
    map (fun p => nadd O (dotb (fst p) v) (snd p)) (combine W c).
  (* F.linear(v, W) without bias *)
  Definition matvecb (W : list (list T)) (v : list bool) : list T :=
    map (fun row => dotb row v) W.
  (* h @ W for a 0/1 vector h over the rows of W: column sums of selected rows *)
  Fixpoint vecmatb (nv : nat) (h : list bool) (W : list (list T)) : list T :=
    match h, W with
    | hb :: h', row :: W' =>
        let r := vecmatb nv h' W' in
        if hb then vadd row r else r
    | _, _ => repeat (n0 O) nv
    end.
  (* general real matrix-vector product *)
  Definition matvec (W : list (list T)) (x : list T) : list T := map (fun row => dot row x) W.

  Definition softplus (x : T) : T := nln O (nadd O (n1 O) (nexp O x)).
  Definition sigmoid (x : T) : T := ndiv O (n1 O) (nadd O (n1 O) (nexp O (nopp O x))).
  Definition sqr (x : T) : T := nmul O x x.
  Definition mean (xs : list T) : T := ndiv O (sum xs) (nofnat (length xs)).
End Lin.
