(* ObsExpr.v — composite observables (C16): the algebra of qucumber/observables/observable.py.
   EXECUTABLE DEFINITIONS ONLY (no proofs), polymorphic in [NumOps T].

   Source side:  [oexpr]  — a Python expression over built-in observables (leaves), int/float
                            scalars and non-numeric operands ("junk"), combined with the real
                            Python operators  -x, x+y, x-y, x*y.
   Object side:  [obs]    — what the library builds: SumObservable(left, right) keeps both
                            operands (each a scalar or an observable); ProdObservable keeps the
                            scalar in .left and the observable in .right.
   [build] mirrors Python's operator dispatch and the library's methods
   (__neg__/__add__/__sub__/__mul__/__radd__/__rsub__/__rmul__) and both constructors' type
   checks;  [apply] mirrors SumObservable.apply / ProdObservable.apply;  [stats_of] mirrors
   statistics_from_samples (torch.var_mean, unbiased) on the per-sample values. *)
From Coq Require Import List ZArith Bool.
From QModel Require Import Num.
Import ListNotations.

(* ---------------------------------------------------------------- source expressions *)
Inductive oexpr (T : Type) : Type :=
| Leaf (i : nat)                 (* a built-in observable, identified by an index *)
| Const (q : T)                  (* a Python int / float / bool / numpy.float64 *)
| Junk                           (* an operand that is not (int | float | ObservableBase) *)
| Neg (a : oexpr T)
| Add (a b : oexpr T)
| Sub (a b : oexpr T)
| Mul (a b : oexpr T).
Arguments Leaf {T}. Arguments Const {T}. Arguments Junk {T}. Arguments Neg {T}.
Arguments Add {T}. Arguments Sub {T}. Arguments Mul {T}.

(* ---------------------------------------------------------------- built objects *)
Inductive obs (T : Type) : Type :=
| Prim (i : nat)
| SumO (l r : operand T)         (* SumObservable: .left, .right *)
| ProdO (c : T) (o : obs T)      (* ProdObservable: .left = scalar, .right = observable *)
with operand (T : Type) : Type :=
| Scal (q : T)
| Obs (o : obs T).
Arguments Prim {T}. Arguments SumO {T}. Arguments ProdO {T}. Arguments Scal {T}. Arguments Obs {T}.

(* a Python value that can be handed to the library's operators / constructors *)
Inductive val (T : Type) : Type :=
| VScal (q : T)
| VObs (o : obs T)
| VJunk.
Arguments VScal {T}. Arguments VObs {T}. Arguments VJunk {T}.

Inductive err : Type := ETypeError | EValueError.
Inductive result (A : Type) : Type := Ok (a : A) | Err (e : err).
Arguments Ok {A}. Arguments Err {A}.

Definition bind {A B} (x : result A) (f : A -> result B) : result B :=
  match x with Ok a => f a | Err e => Err e end.

(* what apply returns: a Python float (never a tensor) or a batch of per-sample values *)
Inductive bval (T : Type) : Type := BS (q : T) | BV (v : list T).
Arguments BS {T}. Arguments BV {T}.

(* summary returned by statistics_from_samples *)
Record stats (T : Type) : Type := mkStats { st_mean : T; st_var : T; st_err : T; st_n : nat }.
Arguments mkStats {T}. Arguments st_mean {T}. Arguments st_var {T}. Arguments st_err {T}. Arguments st_n {T}.

Section Build.
  Context {T : Type} (O : NumOps T).

  Definition minus_one : T := nofZ O (-1)%Z.

  (* ---- constructors (observable.py: SumObservable.__init__, ProdObservable.__init__) *)
  Definition as_operand (v : val T) : result (operand T) :=
    match v with
    | VScal q => Ok (Scal q)
    | VObs o => Ok (Obs o)
    | VJunk => Err ETypeError              (* "oN does not have the right type!" *)
    end.

  Definition sum_ctor (o1 o2 : val T) : result (obs T) :=
    bind (as_operand o1) (fun l => bind (as_operand o2) (fun r => Ok (SumO l r))).

  Definition prod_ctor (o1 o2 : val T) : result (obs T) :=
    bind (as_operand o1) (fun l => bind (as_operand o2) (fun r =>
      match l, r with
      | Scal c, Obs o => Ok (ProdO c o)
      | Obs o, Scal c => Ok (ProdO c o)
      | _, _ => Err EValueError            (* "Exactly one of o1 or o2 must be an Observable!" *)
      end)).

  (* ---- methods of ObservableBase (self is an observable, other is any Python value) *)
  Definition m_neg (self : obs T) : result (obs T) := prod_ctor (VObs self) (VScal minus_one).

  (* Python's unary minus on an arbitrary value ( -other  inside __sub__ ) *)
  Definition py_neg (v : val T) : result (val T) :=
    match v with
    | VScal q => Ok (VScal (nopp O q))
    | VObs o => bind (m_neg o) (fun p => Ok (VObs p))
    | VJunk => Err ETypeError              (* bad operand type for unary - *)
    end.

  Definition m_add (self : obs T) (other : val T) : result (obs T) := sum_ctor (VObs self) other.
  Definition m_sub (self : obs T) (other : val T) : result (obs T) :=
    bind (py_neg other) (fun n => sum_ctor (VObs self) n).
  Definition m_mul (self : obs T) (other : val T) : result (obs T) := prod_ctor (VObs self) other.
  Definition m_radd (self : obs T) (other : val T) : result (obs T) := sum_ctor other (VObs self).
  Definition m_rsub (self : obs T) (other : val T) : result (obs T) :=
    bind (m_neg self) (fun n => sum_ctor other (VObs n)).
  Definition m_rmul (self : obs T) (other : val T) : result (obs T) := prod_ctor other (VObs self).

  Definition wrap (r : result (obs T)) : result (val T) := bind r (fun o => Ok (VObs o)).

  (* ---- Python's binary-operator dispatch:  x op y  tries type(x).__op__(x, y) first; int, float
     and the non-numeric operands return NotImplemented (or have no such method) when y is an
     observable, so the reflected method of y runs.  scalar op scalar is folded by Python itself;
     junk combined with a scalar or with junk never reaches the library: modelled as TypeError. *)
  Definition py_add (x y : val T) : result (val T) :=
    match x, y with
    | VObs a, _ => wrap (m_add a y)
    | _, VObs b => wrap (m_radd b x)
    | VScal p, VScal q => Ok (VScal (nadd O p q))
    | _, _ => Err ETypeError
    end.
  Definition py_sub (x y : val T) : result (val T) :=
    match x, y with
    | VObs a, _ => wrap (m_sub a y)
    | _, VObs b => wrap (m_rsub b x)
    | VScal p, VScal q => Ok (VScal (nsub O p q))
    | _, _ => Err ETypeError
    end.
  Definition py_mul (x y : val T) : result (val T) :=
    match x, y with
    | VObs a, _ => wrap (m_mul a y)
    | _, VObs b => wrap (m_rmul b x)
    | VScal p, VScal q => Ok (VScal (nmul O p q))
    | _, _ => Err ETypeError
    end.

  (* bottom-up evaluation of the expression with the real operators, left operand first *)
  Fixpoint build (e : oexpr T) : result (val T) :=
    match e with
    | Leaf i => Ok (VObs (Prim i))
    | Const q => Ok (VScal q)
    | Junk => Ok VJunk
    | Neg a => bind (build a) py_neg
    | Add a b => bind (build a) (fun x => bind (build b) (fun y => py_add x y))
    | Sub a b => bind (build a) (fun x => bind (build b) (fun y => py_sub x y))
    | Mul a b => bind (build a) (fun x => bind (build b) (fun y => py_mul x y))
    end.

  (* ---- syntactic classification of an expression (what kind of Python value it denotes) *)
  Inductive kind : Type := KScal | KObs | KJunk.
  Definition kjoin (k1 k2 : kind) : kind :=
    match k1, k2 with KObs, _ => KObs | _, KObs => KObs | _, _ => KScal end.
  Fixpoint kind_of (e : oexpr T) : kind :=
    match e with
    | Leaf _ => KObs | Const _ => KScal | Junk => KJunk
    | Neg a => match kind_of a with KJunk => KScal | k => k end
    | Add a b | Sub a b | Mul a b => kjoin (kind_of a) (kind_of b)
    end.
  Definition is_junk (e : oexpr T) : bool := match e with Junk => true | _ => false end.
  Definition is_obs_kind (e : oexpr T) : bool := match kind_of e with KObs => true | _ => false end.

  (* the exact rejection predicate: an operator applied directly to a non-numeric operand, or a
     product whose two factors both denote observables (both contain a leaf), anywhere in e *)
  Fixpoint rejects (e : oexpr T) : bool :=
    match e with
    | Leaf _ | Const _ | Junk => false
    | Neg a => is_junk a || rejects a
    | Add a b | Sub a b => is_junk a || is_junk b || rejects a || rejects b
    | Mul a b => is_junk a || is_junk b || rejects a || rejects b || (is_obs_kind a && is_obs_kind b)
    end.

  Fixpoint has_leaf (e : oexpr T) : bool :=
    match e with
    | Leaf _ => true | Const _ | Junk => false
    | Neg a => has_leaf a
    | Add a b | Sub a b | Mul a b => has_leaf a || has_leaf b
    end.

  (* ---- apply *)
  Definition badd (x y : bval T) : bval T :=
    match x, y with
    | BS p, BS q => BS (nadd O p q)
    | BS p, BV v => BV (map (fun t => nadd O p t) v)
    | BV v, BS q => BV (map (fun t => nadd O t q) v)
    | BV u, BV v => BV (vadd O u v)
    end.
  Definition bscale (c : T) (x : bval T) : bval T :=
    match x with BS q => BS (nmul O c q) | BV v => BV (map (fun t => nmul O c t) v) end.

  (* SumObservable.apply:  result = 0.0; += left if scalar; += right if scalar;
     then + left.apply if observable; then + right.apply if observable.
     ProdObservable.apply: self.left * self.right.apply(...) *)
  Fixpoint apply (o : obs T) (rho : nat -> list T) : bval T :=
    match o with
    | Prim i => BV (rho i)
    | SumO l r =>
        let r0 := BS (n0 O) in
        let r1 := match l with Scal q => badd r0 (BS q) | Obs _ => r0 end in
        let r2 := match r with Scal q => badd r1 (BS q) | Obs _ => r1 end in
        let r3 := match l with Obs a => badd r2 (apply a rho) | Scal _ => r2 end in
        match r with Obs b => badd r3 (apply b rho) | Scal _ => r3 end
    | ProdO c a => bscale c (apply a rho)
    end.

  (* ---- the reference semantics of the source expression: per-sample arithmetic *)
  Fixpoint evalpt (e : oexpr T) (env : nat -> T) : T :=
    match e with
    | Leaf i => env i
    | Const q => q
    | Junk => n0 O
    | Neg a => nopp O (evalpt a env)
    | Add a b => nadd O (evalpt a env) (evalpt b env)
    | Sub a b => nsub O (evalpt a env) (evalpt b env)
    | Mul a b => nmul O (evalpt a env) (evalpt b env)
    end.
  Definition env_at (rho : nat -> list T) (k : nat) : nat -> T := fun i => nth k (rho i) (n0 O).
  Definition pointwise (e : oexpr T) (rho : nat -> list T) (n : nat) : list T :=
    map (fun k => evalpt e (env_at rho k)) (seq 0 n).

  (* ---- statistics_from_samples: torch.var_mean (unbiased), std_error = sqrt(variance / n) *)
  Definition stats_of (xs : list T) : stats T :=
    let n := length xs in
    let m := ndiv O (sum O xs) (nofnat O n) in
    let ss := sum O (map (fun x => sqr O (nsub O x m)) xs) in
    let v := ndiv O ss (nofnat O (n - 1)) in
    mkStats m v (nsqrt O (ndiv O v (nofnat O n))) n.

  (* None: apply did not return a tensor (only for a hand-made SumObservable(scalar, scalar)) *)
  Definition statistics_from_samples (o : obs T) (rho : nat -> list T) : option (stats T) :=
    match apply o rho with BV v => Some (stats_of v) | BS _ => None end.

  (* well-formedness of a built object: every SumObservable has at least one observable operand *)
  Fixpoint wf_obs (o : obs T) : bool :=
    match o with
    | Prim _ => true
    | SumO (Scal _) (Scal _) => false
    | SumO l r =>
        (match l with Obs a => wf_obs a | Scal _ => true end) &&
        (match r with Obs b => wf_obs b | Scal _ => true end)
    | ProdO _ a => wf_obs a
    end.

  (* leaves of the wire interface: a valuation given as a list (leaf i -> i-th list) *)
  Definition rho_of (vals : list (list T)) : nat -> list T := fun i => nth i vals [].
End Build.
