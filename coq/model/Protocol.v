(* Protocol.v — the event protocol of NeuralStateBase.fit (qucumber/nn_states/neural_state.py)
   as a pure, executable state machine, CallbackList dispatch, the Timer callback and the
   stop_training setter.  Definitions only (proofs: theory/ProtocolT.v).

   The code that is modelled (neural_state.py, fit):

       if self.stop_training: return                         # nothing at all, not even TrainStart
       callbacks = CallbackList(callbacks or []); if time: callbacks.append(Timer())
       ...
       callbacks.on_train_start(self)
       num_batches = ceil(N / pos_batch_size)
       for ep in range(starting_epoch, epochs + 1):
           data_iterator = self._shuffle_data(...)           # zip of ceil(N/pos_batch_size) batches
           callbacks.on_epoch_start(self, ep)
           for b, batch in enumerate(data_iterator):
               callbacks.on_batch_start(self, ep, b)
               ... gradients ...; optimizer.step()           # the only write to the parameters
               callbacks.on_batch_end(self, ep, b)
               if self.stop_training: break
           if scheduler is not None: scheduler.step()        # also when the batch loop broke
           callbacks.on_epoch_end(self, ep)
           if self.stop_training: break
       callbacks.on_train_end(self)                          # always

   Besides the six callback events the machine emits two internal events, [OptStep e b]
   (optimizer.step; the only place the version counter of the parameters increments) and
   [SchedStep e] (scheduler.step, only when a scheduler was given).  [inject h] tells whether
   some callback raises the stop flag while handling the callback event just emitted, [h]
   being the callback-visible history up to and including that event; it is consulted on
   callback events only.  Every log entry carries the version of the parameters at that
   moment (what a snapshot taken by a callback would show). *)
From Coq Require Import List ZArith Bool Arith.
Import ListNotations.

Inductive event : Type :=
| TrainStart
| EpochStart (e : Z)
| BatchStart (e : Z) (b : nat)
| BatchEnd (e : Z) (b : nat)
| EpochEnd (e : Z)
| TrainEnd
| OptStep (e : Z) (b : nat)
| SchedStep (e : Z).

Definition is_cb (ev : event) : bool :=
  match ev with OptStep _ _ | SchedStep _ => false | _ => true end.
Definition is_opt (ev : event) : bool := match ev with OptStep _ _ => true | _ => false end.
Definition is_sched (ev : event) : bool := match ev with SchedStep _ => true | _ => false end.
Definition is_batch_start (ev : event) : bool := match ev with BatchStart _ _ => true | _ => false end.
Definition is_batch_end (ev : event) : bool := match ev with BatchEnd _ _ => true | _ => false end.
Definition is_epoch_start (ev : event) : bool := match ev with EpochStart _ => true | _ => false end.
Definition is_epoch_end (ev : event) : bool := match ev with EpochEnd _ => true | _ => false end.
Definition is_train_start (ev : event) : bool := match ev with TrainStart => true | _ => false end.
Definition is_train_end (ev : event) : bool := match ev with TrainEnd => true | _ => false end.

(* projection to the callback-visible trace *)
Definition vis (t : list event) : list event := filter is_cb t.
Definition count (f : event -> bool) (t : list event) : nat := length (filter f t).

(* machine state: the log (event, version of the parameters at that moment), the sticky
   stop flag, the version counter *)
Record st : Type := mkst { log : list (event * nat); stop : bool; ver : nat }.

Definition trace (s : st) : list event := map fst (log s).
Definition ctrace (s : st) : list event := vis (trace s).
Definition vlog (s : st) : list (event * nat) := filter (fun p => is_cb (fst p)) (log s).

Definition injector : Type := list event -> bool.

(* one emission.  Callback events consult [inject] (the flag is only ever raised: callbacks
   that lower it are outside the property); OptStep bumps the version; nothing else does. *)
Definition emit (inj : injector) (s : st) (ev : event) : st :=
  let v := if is_opt ev then S (ver s) else ver s in
  let l := log s ++ [(ev, v)] in
  mkst l (if is_cb ev then stop s || inj (vis (map fst l)) else stop s) v.

(* the batch loop: [n] batches remain, the next one has index [b] *)
Fixpoint batches (inj : injector) (e : Z) (b n : nat) (s : st) : st :=
  match n with
  | O => s
  | S n' =>
      let s1 := emit inj s (BatchStart e b) in
      let s2 := emit inj s1 (OptStep e b) in
      let s3 := emit inj s2 (BatchEnd e b) in
      if stop s3 then s3 else batches inj e (S b) n' s3
  end.

Definition epoch_body (inj : injector) (sched : bool) (e : Z) (nb : nat) (s : st) : st :=
  let s1 := emit inj s (EpochStart e) in
  let s2 := batches inj e 0 nb s1 in
  let s3 := if sched then emit inj s2 (SchedStep e) else s2 in
  emit inj s3 (EpochEnd e).

(* the epoch loop: [k] epochs remain, the next one is [e] *)
Fixpoint epochs_loop (inj : injector) (sched : bool) (nb : nat) (e : Z) (k : nat) (s : st) : st :=
  match k with
  | O => s
  | S k' =>
      let s' := epoch_body inj sched e nb s in
      if stop s' then s' else epochs_loop inj sched nb (e + 1)%Z k' s'
  end.

(* len(range(starting_epoch, epochs + 1)) *)
Definition num_epochs (start epochs : Z) : nat := Z.to_nat (epochs + 1 - start)%Z.

Definition fit (inj : injector) (sched : bool) (start epochs : Z) (nb : nat)
           (stop0 : bool) (ver0 : nat) : st :=
  if stop0 then mkst [] true ver0
  else
    let s1 := emit inj (mkst [] false ver0) TrainStart in
    let s2 := epochs_loop inj sched nb start (num_epochs start epochs) s1 in
    emit inj s2 TrainEnd.

(* number of batches of one epoch: the zip in _shuffle_data has
   len(range(0, N, pos_batch_size)) = ceil(N / pos_batch_size) elements (pos_batch_size >= 1) *)
Definition num_batches (N bs : nat) : nat := (N + bs - 1) / bs.

Definition fit_data (inj : injector) (sched : bool) (start epochs : Z) (N bs : nat)
           (stop0 : bool) (ver0 : nat) : st :=
  fit inj sched start epochs (num_batches N bs) stop0 ver0.

(* ---------------------------------------------------------------- specification side *)

(* the flag after history [acc ++ rest], starting from history [acc] with the flag down:
   some non-empty prefix made a callback raise it *)
Fixpoint raised_from (inj : injector) (acc rest : list event) : bool :=
  match rest with
  | [] => false
  | x :: r => inj (acc ++ [x]) || raised_from inj (acc ++ [x]) r
  end.
Definition raised (inj : injector) (h : list event) : bool := raised_from inj [] h.

(* the deterministic successor function of the protocol: the event that follows [x] when the
   flag is [u] after [x] has been handled *)
Definition after_batches (sched : bool) (e : Z) : event :=
  if sched then SchedStep e else EpochEnd e.

Definition step (sched : bool) (start epochs : Z) (nb : nat) (u : bool) (x : event) : option event :=
  match x with
  | TrainStart => Some (if (start <=? epochs)%Z then EpochStart start else TrainEnd)
  | EpochStart e => Some (if Nat.eqb nb 0 then after_batches sched e else BatchStart e 0)
  | BatchStart e b => Some (OptStep e b)
  | OptStep e b => Some (BatchEnd e b)
  | BatchEnd e b => Some (if u || (nb <=? S b) then after_batches sched e else BatchStart e (S b))
  | SchedStep e => Some (EpochEnd e)
  | EpochEnd e => Some (if u || (epochs <? e + 1)%Z then TrainEnd else EpochStart (e + 1)%Z)
  | TrainEnd => None
  end.

(* the complete run when nobody ever asks to stop *)
Fixpoint full_batches (e : Z) (b n v : nat) : list (event * nat) :=
  match n with
  | O => []
  | S n' => (BatchStart e b, v) :: (OptStep e b, S v) :: (BatchEnd e b, S v) :: full_batches e (S b) n' (S v)
  end.

Definition full_epoch (sched : bool) (nb : nat) (e : Z) (v : nat) : list (event * nat) :=
  (EpochStart e, v) :: full_batches e 0 nb v
    ++ (if sched then [(SchedStep e, nb + v)] else []) ++ [(EpochEnd e, nb + v)].

Fixpoint full_epochs (sched : bool) (nb : nat) (e : Z) (k v : nat) : list (event * nat) :=
  match k with
  | O => []
  | S k' => full_epoch sched nb e v ++ full_epochs sched nb (e + 1)%Z k' (nb + v)
  end.

Definition full_run (sched : bool) (start epochs : Z) (nb v : nat) : list (event * nat) :=
  let k := num_epochs start epochs in
  (TrainStart, v) :: full_epochs sched nb start k v ++ [(TrainEnd, k * nb + v)].

(* an executable recogniser of the documented grammar of the callback-visible trace
     TrainStart (EpochStart e (BatchStart e b BatchEnd e b)^{b = 0,1,..} EpochEnd e)^{e = start,start+1,..} TrainEnd *)
Definition event_eqb (x y : event) : bool :=
  match x, y with
  | TrainStart, TrainStart => true
  | EpochStart e, EpochStart e' => Z.eqb e e'
  | BatchStart e b, BatchStart e' b' => Z.eqb e e' && Nat.eqb b b'
  | BatchEnd e b, BatchEnd e' b' => Z.eqb e e' && Nat.eqb b b'
  | EpochEnd e, EpochEnd e' => Z.eqb e e'
  | TrainEnd, TrainEnd => true
  | OptStep e b, OptStep e' b' => Z.eqb e e' && Nat.eqb b b'
  | SchedStep e, SchedStep e' => Z.eqb e e'
  | _, _ => false
  end.

(* state of the recogniser (after the leading TrainStart): between epochs, next epoch e |
   inside epoch e, next batch b | inside batch (e, b) | after TrainEnd *)
Inductive rstate : Type :=
| RBetween (e : Z) | RInEpoch (e : Z) (b : nat) | RInBatch (e : Z) (b : nat) | RDone.

Definition rstep (r : rstate) (x : event) : option rstate :=
  match r, x with
  | RBetween e, EpochStart e' => if Z.eqb e e' then Some (RInEpoch e 0) else None
  | RBetween _, TrainEnd => Some RDone
  | RInEpoch e b, BatchStart e' b' => if Z.eqb e e' && Nat.eqb b b' then Some (RInBatch e b) else None
  | RInEpoch e _, EpochEnd e' => if Z.eqb e e' then Some (RBetween (e + 1)%Z) else None
  | RInBatch e b, BatchEnd e' b' => if Z.eqb e e' && Nat.eqb b b' then Some (RInEpoch e (S b)) else None
  | _, _ => None
  end.

Fixpoint rrun (r : rstate) (t : list event) : option rstate :=
  match t with
  | [] => Some r
  | x :: t' => match rstep r x with Some r' => rrun r' t' | None => None end
  end.

Definition recognise (start : Z) (t : list event) : bool :=
  match t with
  | TrainStart :: t' => match rrun (RBetween start) t' with Some RDone => true | _ => false end
  | _ => false
  end.

(* ---------------------------------------------------------------- CallbackList dispatch *)

(* a user callback: does it raise the flag while handling the event that ends history [h] *)
Definition callback : Type := list event -> bool.

(* for cb in self.callbacks: cb.on_xxx(...)  — threads the flag and the order of delivery *)
Fixpoint dispatch (cbs : list callback) (i : nat) (h : list event) (flag : bool) (dl : list nat)
  : bool * list nat :=
  match cbs with
  | [] => (flag, dl)
  | c :: r => dispatch r (S i) h (flag || c h) (dl ++ [i])
  end.

(* Timer never touches the flag *)
Definition timer_cb : callback := fun _ => false.
(* callbacks = CallbackList(callbacks); if time: callbacks.append(Timer()) *)
Definition with_timer (time : bool) (cbs : list callback) : list callback :=
  if time then cbs ++ [timer_cb] else cbs.

Definition inject_of (cbs : list callback) : injector :=
  fun h => fst (dispatch cbs 0 h false []).

(* the (callback index, event) deliveries of a whole callback-visible trace *)
Fixpoint deliveries_from (cbs : list callback) (acc rest : list event) : list (nat * event) :=
  match rest with
  | [] => []
  | x :: r => map (fun i => (i, x)) (snd (dispatch cbs 0 (acc ++ [x]) false []))
              ++ deliveries_from cbs (acc ++ [x]) r
  end.
Definition deliveries (cbs : list callback) (t : list event) : list (nat * event) :=
  deliveries_from cbs [] t.

Definition fit_cbs (cbs : list callback) (time sched : bool) (start epochs : Z) (nb : nat)
           (stop0 : bool) (ver0 : nat) : st :=
  fit (inject_of (with_timer time cbs)) sched start epochs nb stop0 ver0.

(* what the Timer (verbose) prints.  It is the last callback, so at every event it sees the
   flag after all user callbacks handled that event. *)
Inductive tmsg : Type := TermBatch (e : Z) (b : nat) | TermEpoch (e : Z) | Elapsed.

Fixpoint timer_from (inj : injector) (acc : list event) (flag notified : bool) (rest : list event)
  : list tmsg :=
  match rest with
  | [] => []
  | x :: r =>
      let acc' := acc ++ [x] in
      let flag' := flag || inj acc' in
      match x with
      | BatchEnd e b =>
          if flag' && negb notified then TermBatch e b :: timer_from inj acc' flag' true r
          else timer_from inj acc' flag' notified r
      | EpochEnd e =>
          if flag' && negb notified then TermEpoch e :: timer_from inj acc' flag' true r
          else timer_from inj acc' flag' notified r
      | TrainEnd => Elapsed :: timer_from inj acc' flag' notified r
      | _ => timer_from inj acc' flag' notified r
      end
  end.
Definition timer_msgs (inj : injector) (t : list event) : list tmsg := timer_from inj [] false false t.
Definition is_term (m : tmsg) : bool := match m with Elapsed => false | _ => true end.

(* ---------------------------------------------------------------- the stop_training setter *)
(* kinds of values a caller may assign: only a genuine bool is accepted (isinstance(v, bool)) *)
Inductive pyval : Type := VBool (b : bool) | VInt (z : Z) | VNone | VOther.
Inductive setres : Type := SetOk (flag : bool) | SetValueError.
Definition set_stop (v : pyval) : setres :=
  match v with VBool b => SetOk b | _ => SetValueError end.

(* scripted injector used by the correspondence check: raise at callback-event index [i] *)
Definition raise_at (i : nat) : injector := fun h => Nat.eqb (length h) (S i).
Definition never : injector := fun _ => false.
(* callback list of length [m] in which callback [j] raises at event index [i] *)
Definition scripted_cbs (m j i : nat) : list callback :=
  map (fun c => if Nat.eqb c j then raise_at i else never) (seq 0 m).
