(* Bits.v — basis states, Hilbert-space enumeration and indexing.
   [subspace_vector], [generate_hilbert_space] and [idx] follow the code's arithmetic
   (neural_state.py / unitaries.py); [all_bits] is the structural specification. *)
From Coq Require Import List NArith Bool Arith.
Import ListNotations.

Notation bits := (list bool) (only parsing).

(* structural enumeration: site 0 is the head and the most significant bit *)
Fixpoint all_bits (n : nat) : list bits :=
  match n with
  | O => [[]]
  | S m => map (cons false) (all_bits m) ++ map (cons true) (all_bits m)
  end.

(* ((num & (1 << arange(size))) > 0)[::-1] *)
Definition subspace_vector (n : nat) (k : N) : bits :=
  rev (map (fun j => N.testbit k (N.of_nat j)) (seq 0 n)).

Definition max_size : nat := 20.

(* dim = arange(2**size); rows built with the same bit test *)
Definition hilbert_rows (n : nat) : list bits :=
  map (fun k => subspace_vector n (N.of_nat k)) (seq 0 (2 ^ n)).

Definition generate_hilbert_space (n : nat) : option (list bits) :=
  if Nat.ltb max_size n then None else Some (hilbert_rows n).

(* powers = 2 ** (arange(n, 0, -1) - 1);  idx = states @ powers *)
Definition powers (n : nat) : list N :=
  map (fun j => N.pow 2 (N.of_nat (j - 1))) (rev (seq 1 n)).

Fixpoint dotN (s : bits) (p : list N) : N :=
  match s, p with
  | b :: s', x :: p' => N.add (if b then x else 0%N) (dotN s' p')
  | _, _ => 0%N
  end.

Definition idx (s : bits) : N := dotN s (powers (length s)).

(* flip_spin(i, samples) *)
Fixpoint flip (i : nat) (s : bits) : bits :=
  match s, i with
  | [], _ => []
  | b :: r, O => negb b :: r
  | b :: r, S j => b :: flip j r
  end.

Definition bits_eqb (a b : bits) : bool :=
  (Nat.eqb (length a) (length b)) && forallb (fun p => Bool.eqb (fst p) (snd p)) (combine a b).
