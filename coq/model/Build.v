(* Build.v — construction / reset contracts (C20).  EXECUTABLE DEFINITIONS ONLY.
   Network objects with identities whose parameters are cells (nn.Parameter objects / storages) in a cell heap.
   Mirrors: rbm/binary_rbm.py and rbm/purification_rbm.py (__init__, initialize_parameters), the constructors
   of PositiveWaveFunction / ComplexWaveFunction / DensityMatrix (sizes path, module= path with
   copy.deepcopy for the phase network), NeuralStateBase.reinitialize_parameters, the fit guards, and — numeric,
   polymorphic in NumOps — the auxiliary-bias block of the phase gradient (purification_rbm.gamma_grad,
   density_matrix.pi_grad(phase=True), ph_grads, rotated_gradient, gradient, positive_phase_gradients,
   compute_batch_gradients) together with optimizer update rules. *)
From Coq Require Import List Arith Bool ZArith.
From QModel Require Import Num CBase Store.
Import ListNotations.

Inductive bval := VZero | VTok (t : nat).        (* an all-zeros tensor | opaque (drawn / trained) content *)
Inductive nkind := Binary | Purif.
Record cell := mkCell { c_shape : list nat; c_val : bval }.
Record netobj := mkNetObj {
  no_kind : nkind; no_nv : nat; no_nh : nat; no_na : nat;     (* num_visible / num_hidden / num_aux attributes *)
  no_params : list (nat * nat) }.                             (* parameter name -> cell identity *)
Record bheap := mkBHeap { b_nets : list (nat * netobj); b_cells : list (nat * cell); b_next : nat }.
Record bstate := mkBState { bs_kind : skind; bs_am : nat; bs_ph : option nat }.

(* shapes created by initialize_parameters from the size attributes *)
Definition net_shapes (k : nkind) (nv nh na : nat) : list (nat * list nat) :=
  match k with
  | Binary => [(P_WEIGHTS, [nh; nv]); (P_VB, [nv]); (P_HB, [nh])]
  | Purif => [(P_WW, [nh; nv]); (P_WU, [na; nv]); (P_VB, [nv]); (P_HB, [nh]); (P_AB, [na])]
  end.
Definition is_weight (p : nat) : bool := (p =? P_WEIGHTS) || (p =? P_WW) || (p =? P_WU).

(* initialize_parameters: weights = randn/sqrt(nv) (the drawn content is an explicit argument), biases = zeros;
   every parameter is a NEW nn.Parameter (new cell) *)
Fixpoint init_values (shapes : list (nat * list nat)) (draws : list nat) : list (nat * cell) :=
  match shapes with
  | [] => []
  | (p, sh) :: r =>
      if is_weight p
      then match draws with
           | d :: ds => (p, mkCell sh (VTok d)) :: init_values r ds
           | [] => (p, mkCell sh (VTok 0)) :: init_values r []
           end
      else (p, mkCell sh VZero) :: init_values r draws
  end.
Fixpoint alloc_cells (vals : list (nat * cell)) (next : nat) : list (nat * nat) * list (nat * cell) :=
  match vals with
  | [] => ([], [])
  | (p, c) :: r => let a := alloc_cells r (S next) in ((p, next) :: fst a, (next, c) :: snd a)
  end.
Definition initialize_parameters (n : nat) (draws : list nat) (H : bheap) : bheap :=
  match assoc n (b_nets H) with
  | None => H
  | Some no =>
      let vals := init_values (net_shapes (no_kind no) (no_nv no) (no_nh no) (no_na no)) draws in
      let a := alloc_cells vals (b_next H) in
      mkBHeap (dict_set n (mkNetObj (no_kind no) (no_nv no) (no_nh no) (no_na no) (fst a)) (b_nets H))
              (snd a ++ b_cells H) (b_next H + length vals)
  end.
(* RBM constructors: a new network object, then initialize_parameters *)
Definition new_net (k : nkind) (nv nh na : nat) (draws : list nat) (H : bheap) : bheap * nat :=
  let n := b_next H in
  let H1 := mkBHeap ((n, mkNetObj k nv nh na []) :: b_nets H) (b_cells H) (S n) in
  (initialize_parameters n draws H1, n).
(* the size defaults of the two constructors (tied to the source by the source-translation kernels of C20) *)
Definition binary_nh (nv : nat) (nh : option nat) : nat :=
  match nh with Some h => if h =? 0 then nv else h | None => nv end.                     (* `if num_hidden` *)
Definition purif_size (nv : nat) (n : option nat) : nat :=
  match n with Some h => h | None => nv end.                                              (* `is not None` *)
Definition binary_new (nv : nat) (nh : option nat) :=
  new_net Binary nv (binary_nh nv nh) 0.
Definition purif_new (nv : nat) (nh na : option nat) :=
  new_net Purif nv (purif_size nv nh) (purif_size nv na).

(* state constructors, sizes path *)
Definition of_sizes (k : skind) (nv : nat) (nh na : option nat) (d_am d_ph : list nat) (H : bheap) : bheap * bstate :=
  match k with
  | Positive => let a := binary_new nv nh d_am H in (fst a, mkBState Positive (snd a) None)
  | Complex => let a := binary_new nv nh d_am H in let b := binary_new nv nh d_ph (fst a) in
               (fst b, mkBState Complex (snd a) (Some (snd b)))
  | Mixed => let a := purif_new nv nh na d_am H in let b := purif_new nv nh na d_ph (fst a) in
             (fst b, mkBState Mixed (snd a) (Some (snd b)))
  end.

(* copy.deepcopy(module): a new network object with the same attributes whose parameters are NEW cells with
   equal shapes and values *)
Definition cell_of (H : bheap) (c : nat) : cell :=
  match assoc c (b_cells H) with Some x => x | None => mkCell [] VZero end.
Definition deepcopy (m : nat) (H : bheap) : bheap * option nat :=
  match assoc m (b_nets H) with
  | None => (H, None)
  | Some no =>
      let vals := map (fun pc => (fst pc, cell_of H (snd pc))) (no_params no) in
      let n := b_next H in
      let a := alloc_cells vals (S n) in
      (mkBHeap ((n, mkNetObj (no_kind no) (no_nv no) (no_nh no) (no_na no) (fst a)) :: b_nets H)
               (snd a ++ b_cells H) (S n + length vals), Some n)
  end.
(* state constructors, module= path: rbm_am IS the module; rbm_ph = copy.deepcopy(module).
   DensityMatrix reads module.num_aux, which a BinaryRBM does not have (AttributeError -> None). *)
Definition of_module (k : skind) (m : nat) (H : bheap) : bheap * option bstate :=
  match assoc m (b_nets H) with
  | None => (H, None)
  | Some no =>
      match k with
      | Positive => (H, Some (mkBState Positive m None))
      | Complex => let a := deepcopy m H in (fst a, Some (mkBState Complex m (snd a)))
      | Mixed => let a := deepcopy m H in
                 match no_kind no with
                 | Purif => (fst a, Some (mkBState Mixed m (snd a)))
                 | Binary => (fst a, None)
                 end
      end
  end.

(* On the module= path the constructors' size arguments (num_visible, num_hidden, num_aux) are IGNORED: the state's
   num_visible / num_hidden / num_aux are read from rbm_am, i.e. from the module. *)
Definition of_module_args (k : skind) (nv : nat) (nh na : option nat) (m : nat) (H : bheap) : bheap * option bstate :=
  of_module k m H.

(* in-place write to one parameter of one network (param.data[...] = ..., optimizer.step, load_state_dict) *)
Definition write_net (n p : nat) (v : bval) (H : bheap) : bheap :=
  match assoc n (b_nets H) with
  | None => H
  | Some no =>
      match assoc p (no_params no) with
      | None => H
      | Some c => mkBHeap (b_nets H) (dict_set c (mkCell (c_shape (cell_of H c)) v) (b_cells H)) (b_next H)
      end
  end.
Definition write_many (n : nat) (ws : list (nat * bval)) (H : bheap) : bheap :=
  fold_left (fun acc w => write_net n (fst w) (snd w) acc) ws H.

(* reinitialize_parameters: for net in self.networks: getattr(self, net).initialize_parameters() *)
Definition reinitialize (st : bstate) (d_am d_ph : list nat) (H : bheap) : bheap :=
  let H1 := initialize_parameters (bs_am st) d_am H in
  match bs_ph st with Some ph => initialize_parameters ph d_ph H1 | None => H1 end.

(* observation: the (name, shape, value) triples of a network, through its cells *)
Definition net_values (H : bheap) (n : nat) : list (nat * option cell) :=
  match assoc n (b_nets H) with
  | Some no => map (fun pc => (fst pc, assoc (snd pc) (b_cells H))) (no_params no)
  | None => []
  end.
Definition net_cells (H : bheap) (n : nat) : list nat :=
  match assoc n (b_nets H) with Some no => map snd (no_params no) | None => [] end.
Definition net_sizes (H : bheap) (n : nat) : option (nkind * nat * nat * nat) :=
  match assoc n (b_nets H) with Some no => Some (no_kind no, no_nv no, no_nh no, no_na no) | None => None end.

Definition state_sizes (H : bheap) (st : bstate) : option (nkind * nat * nat * nat) := net_sizes H (bs_am st).

(* ---- fit guards ---- *)
Inductive effect := EvTrainStart | EvEpochStart | EvBatchStart | OptimizerBuilt | RngDraw | ParamWrite | EvOther (n : nat).
(* ComplexWaveFunction.fit / DensityMatrix.fit: `if input_bases is None: raise ValueError` is the first statement;
   NeuralStateBase.fit: `if self.stop_training: return` precedes everything else; [body] = what the base fit does *)
Definition fit (k : skind) (has_bases stop_flag : bool) (body : list effect) : list effect * res :=
  match k, has_bases with
  | Complex, false => ([], Err EValue)
  | Mixed, false => ([], Err EValue)
  | _, _ => if stop_flag then ([], Ok) else (body, Ok)
  end.

(* ---- the auxiliary-bias block of the phase network's gradient, and optimizers ---- *)
Section PhaseAux.
  Context {T : Type} (O : NumOps T).
  (* purification_rbm.gamma_grad: ab_grad = zeros_like(aux_bias); make_complex(real) has a zero imaginary part *)
  Definition gamma_grad_ab (na : nat) : list (cx (T:=T)) := repeat (c0 O) na.
  (* density_matrix.pi_grad(phase=True): ab_grad_real = zeros_like(rbm_ph.aux_bias), ab_grad_imag = its clone *)
  Definition pi_grad_phase_ab (na : nat) : list (cx (T:=T)) := repeat (n0 O, n0 O) na.
  (* ph_grads = scalar_mult(rbm_ph.gamma_grad(v, v, eta=-1), I) + pi_grad(v, v, phase=True) *)
  Definition ph_grads_ab (na : nat) : list (cx (T:=T)) :=
    cvadd O (map (fun g => cmul O g (ci O)) (gamma_grad_ab na)) (pi_grad_phase_ab na).
  (* rotated_gradient, phase part: for each sample b with weight w_b = 1/(UrhoU_b + 1e-8) and rotation
     coefficients u_ijb:  sum_b w_b * ( - Re sum_ij u_ijb * g_ij );  [samples] = list of (w_b, [u_ijb]) *)
  Definition rotated_ab (na : nat) (samples : list (T * list (cx (T:=T)))) : list T :=
    map (fun g => sum O (map (fun s => nmul O (fst s) (nopp O (fst (csum O (map (fun u => cmul O u g) (snd s))))))
                             samples))
        (ph_grads_ab na).
  (* NeuralStateBase.gradient: one group per unique basis; an all-Z group contributes the float 0.0 *)
  Definition group_ab (na : nat) (g : option (list (T * list (cx (T:=T))))) : list T :=
    match g with Some smp => rotated_ab na smp | None => repeat (n0 O) na end.
  (* positive_phase_gradients divides by the batch size; compute_batch_gradients subtracts a negative phase
     from grad[0] only ("No negative signal for the phase parameters") *)
  Definition batch_grad_ab (na : nat) (groups : list (option (list (T * list (cx (T:=T)))))) (bs : T) : list T :=
    map (fun x => ndiv O x bs)
        (fold_left (fun acc g => vadd O acc (group_ab na g)) groups (repeat (n0 O) na)).

  (* an optimizer: state S, one step on (other parameters, aux-bias block) given their gradients *)
  Definition optimizer (S : Type) := S -> (list T * list T) -> (list T * list T) -> (list T * list T) * S.
  (* a training history: per batch, the gradient of all other phase parameters (whatever it is), the basis
     groups and the batch size *)
  Definition batch := (list T * list (option (list (T * list (cx (T:=T))))) * T)%type.
  Fixpoint train {S} (opt : optimizer S) (na : nat) (hist : list batch) (s : S) (p : list T * list T)
    : (list T * list T) * S :=
    match hist with
    | [] => (p, s)
    | (grest, groups, bs) :: r =>
        let a := opt s p (grest, batch_grad_ab na groups bs) in
        train opt na r (snd a) (fst a)
    end.

  (* torch.optim.SGD (momentum, dampening, weight_decay, nesterov), coordinate-wise *)
  Record sgd_cfg := mkSgd { sgd_lr : T; sgd_mu : T; sgd_damp : T; sgd_wd : T; sgd_nesterov : bool; sgd_has_mu : bool }.
  Definition map2 (f : T -> T -> T) (a b : list T) : list T := map (fun x => f (fst x) (snd x)) (combine a b).
  Definition sgd_block (c : sgd_cfg) (buf : option (list T)) (p g : list T) : list T * option (list T) :=
    let g1 := map2 (fun gi pi => nadd O gi (nmul O (sgd_wd c) pi)) g p in
    if sgd_has_mu c then
      let buf' := match buf with
                  | None => g1
                  | Some b => map2 (fun bi gi => nadd O (nmul O (sgd_mu c) bi) (nmul O (nsub O (n1 O) (sgd_damp c)) gi)) b g1
                  end in
      let g2 := if sgd_nesterov c then map2 (fun gi bi => nadd O gi (nmul O (sgd_mu c) bi)) g1 buf' else buf' in
      (map2 (fun pi gi => nsub O pi (nmul O (sgd_lr c) gi)) p g2, Some buf')
    else (map2 (fun pi gi => nsub O pi (nmul O (sgd_lr c) gi)) p g1, None).
  Definition sgd (c : sgd_cfg) : optimizer (option (list T) * option (list T)) :=
    fun s p g =>
      let a := sgd_block c (fst s) (fst p) (fst g) in
      let b := sgd_block c (snd s) (snd p) (snd g) in
      ((fst a, fst b), (snd a, snd b)).

  (* torch.optim.Adam (weight_decay, no amsgrad), coordinate-wise *)
  Record adam_cfg := mkAdam { ad_lr : T; ad_b1 : T; ad_b2 : T; ad_eps : T; ad_wd : T }.
  Fixpoint npow (x : T) (n : nat) : T := match n with 0 => n1 O | S m => nmul O x (npow x m) end.
  Definition adam_block (c : adam_cfg) (t : nat) (m v p g : list T) : list T * (list T * list T) :=
    let g1 := map2 (fun gi pi => nadd O gi (nmul O (ad_wd c) pi)) g p in
    let m' := map2 (fun mi gi => nadd O (nmul O (ad_b1 c) mi) (nmul O (nsub O (n1 O) (ad_b1 c)) gi)) m g1 in
    let v' := map2 (fun vi gi => nadd O (nmul O (ad_b2 c) vi) (nmul O (nsub O (n1 O) (ad_b2 c)) (nmul O gi gi))) v g1 in
    let bc1 := nsub O (n1 O) (npow (ad_b1 c) t) in
    let bc2 := nsub O (n1 O) (npow (ad_b2 c) t) in
    let upd := map2 (fun mi vi => ndiv O (ndiv O mi bc1) (nadd O (nsqrt O (ndiv O vi bc2)) (ad_eps c))) m' v' in
    (map2 (fun pi ui => nsub O pi (nmul O (ad_lr c) ui)) p upd, (m', v')).
  (* state: step count, (m, v) for the other parameters, (m, v) for the aux-bias block (zeros initially) *)
  Definition adam (c : adam_cfg) : optimizer (nat * (list T * list T) * (list T * list T)) :=
    fun s p g =>
      let t := S (fst (fst s)) in
      let a := adam_block c t (fst (snd (fst s))) (snd (snd (fst s))) (fst p) (fst g) in
      let b := adam_block c t (fst (snd s)) (snd (snd s)) (snd p) (snd g) in
      ((fst a, fst b), (t, snd a, snd b)).
End PhaseAux.
