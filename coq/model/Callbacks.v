(* Callbacks.v — model of qucumber/callbacks: MetricEvaluator, ObservableEvaluator
   (+ ObservableStatistics), ModelSaver, Logger, EarlyStopping, VarianceBasedEarlyStopping.
   EXECUTABLE DEFINITIONS ONLY (no proofs).

   A training run is abstracted as the list of its EpochEnd events [(epoch, s)], where [s : S]
   is the (abstract) state of the network at the end of that epoch; every callback is a state
   machine stepped by [on_epoch_end].  What a metric / observable evaluates to is a function
   [metrics : S -> vals] of that state (the "value stream"); a second form of the evaluator run
   takes the values from an explicit per-evaluation stream.  Names (of metrics, observables,
   statistics, criteria) are strings, modelled as lists of character codes. *)
From Coq Require Import List ZArith Bool Arith.
From QModel Require Import Num.
Import ListNotations.

(* ------------------------------------------------------------------ names *)
Definition name := list nat.

Fixpoint name_eqb (a b : name) : bool :=
  match a, b with
  | [], [] => true
  | x :: a', y :: b' => Nat.eqb x y && name_eqb a' b'
  | _, _ => false
  end.

Definition ch_s : nat := 115.          (* "s" *)
Definition ch_us : nat := 95.          (* "_" *)
Definition n_epoch : name := [101; 112; 111; 99; 104].
Definition n_mean : name := [109; 101; 97; 110].
Definition n_variance : name := [118; 97; 114; 105; 97; 110; 99; 101].
Definition n_std_error : name := [115; 116; 100; 95; 101; 114; 114; 111; 114].
Definition n_relative : name := [114; 101; 108; 97; 116; 105; 118; 101].
Definition n_absolute : name := [97; 98; 115; 111; 108; 117; 116; 101].

(* str.endswith(c) for a one-character suffix;  s[:-1] is [removelast] *)
Definition ends_with (c : nat) (n : name) : bool :=
  match rev n with x :: _ => Nat.eqb x c | [] => false end.

(* ObservableStatistics.__getattr__:  stat = statistic[:-1] if statistic.endswith("s") else statistic *)
Definition strip_s (n : name) : name := if ends_with ch_s n then removelast n else n.

(* str.strip() (ASCII white space) and str.lower() (ASCII letters) *)
Definition is_space (c : nat) : bool :=
  Nat.eqb c 32 || (Nat.leb 9 c && Nat.leb c 13) || (Nat.leb 28 c && Nat.leb c 31).
Fixpoint lstrip (n : name) : name :=
  match n with c :: r => if is_space c then lstrip r else n | [] => [] end.
Definition strip (n : name) : name := rev (lstrip (rev (lstrip n))).
Definition lower_ch (c : nat) : nat := if Nat.leb 65 c && Nat.leb c 90 then c + 32 else c.
Definition normalize (n : name) : name := map lower_ch (strip n).

(* ------------------------------------------------------------------ errors *)
Inductive err := IndexError | KeyError | AttributeError | TypeError | ValueError.
Inductive result (A : Type) := Ok (a : A) | Err (e : err).
Arguments Ok {A}. Arguments Err {A}.
Definition bind {A B} (r : result A) (f : A -> result B) : result B :=
  match r with Ok a => f a | Err e => Err e end.

(* ------------------------------------------------------------------ dictionaries, lists *)
Fixpoint lookup {V : Type} (n : name) (d : list (name * V)) : option V :=
  match d with
  | [] => None
  | (k, v) :: r => if name_eqb k n then Some v else lookup n r
  end.
Definition has_key {V : Type} (n : name) (d : list (name * V)) : bool :=
  match lookup n d with Some _ => true | None => false end.

Fixpoint mapM {A B : Type} (f : A -> option B) (l : list A) : option (list B) :=
  match l with
  | [] => Some []
  | a :: r => match f a, mapM f r with Some b, Some bs => Some (b :: bs) | _, _ => None end
  end.

Definition last_opt {A : Type} (l : list A) : option A :=
  match rev l with x :: _ => Some x | [] => None end.

(* Python sequence indexing: index i of a sequence of length len; negative indices count
   from the end; None = IndexError *)
Definition norm_index (len : nat) (i : Z) : option nat :=
  if (0 <=? i)%Z then (if (i <? Z.of_nat len)%Z then Some (Z.to_nat i) else None)
  else if (- Z.of_nat len <=? i)%Z then Some (Z.to_nat (Z.of_nat len + i)) else None.

(* ------------------------------------------------------------------ the period gate *)
(* epoch % period == 0   (Python's % and Coq's Z.modulo agree: sign of the divisor) *)
Definition fires (p e : Z) : bool := Z.eqb (Z.modulo e p) 0.

(* ================================================================== evaluators *)
Section Evaluator.
  Context {S V : Type}.
  Definition vals := list (name * V).

  (* past_values, last; ev_log = the rows appended to the CSV log file (never cleared) *)
  Record evaluator := mkEv {
    ev_period : Z;
    ev_past : list (Z * vals);
    ev_last : vals;
    ev_log : list (Z * vals) }.

  Definition ev_new (p : Z) : evaluator := mkEv p [] [] [].

  (* MetricEvaluator.on_epoch_end / ObservableEvaluator.on_epoch_end *)
  Definition ev_on_epoch_end (metrics : S -> vals) (ev : evaluator) (e : Z) (s : S) : evaluator :=
    if fires (ev_period ev) e then
      let v := metrics s in
      mkEv (ev_period ev) (ev_past ev ++ [(e, v)]) v (ev_log ev ++ [(e, v)])
    else ev.

  Fixpoint ev_run (metrics : S -> vals) (ev : evaluator) (run : list (Z * S)) : evaluator :=
    match run with
    | [] => ev
    | (e, s) :: r => ev_run metrics (ev_on_epoch_end metrics ev e s) r
    end.

  (* the same run when the values come from an explicit stream, one item per evaluation;
     an exhausted stream = the metric function raises and the run is aborted *)
  Fixpoint ev_run_stream (ev : evaluator) (epochs : list Z) (stream : list vals) : evaluator :=
    match epochs with
    | [] => ev
    | e :: r =>
        if fires (ev_period ev) e then
          match stream with
          | v :: st => ev_run_stream (mkEv (ev_period ev) (ev_past ev ++ [(e, v)]) v (ev_log ev ++ [(e, v)])) r st
          | [] => ev
          end
        else ev_run_stream ev r stream
    end.

  Definition ev_clear_history (ev : evaluator) : evaluator :=
    mkEv (ev_period ev) [] [] (ev_log ev).

  (* accessors *)
  Definition ev_len (ev : evaluator) : nat := length (ev_past ev).
  Definition ev_epochs (ev : evaluator) : list Z := map fst (ev_past ev).
  (* __getattr__/__getitem__: [values[name] for _, values in past_values]; KeyError -> AttributeError *)
  Definition ev_array (n : name) (ev : evaluator) : result (list V) :=
    match mapM (fun r => lookup n (snd r)) (ev_past ev) with
    | Some l => Ok l
    | None => Err AttributeError
    end.
  (* get_value(name, index=None):  past_values[index if index is not None else -1][-1][name] *)
  Definition ev_get_value (n : name) (idx : option Z) (ev : evaluator) : result V :=
    let i := match idx with Some i => i | None => (-1)%Z end in
    match norm_index (length (ev_past ev)) i with
    | None => Err IndexError
    | Some k =>
        match nth_error (ev_past ev) k with
        | None => Err IndexError
        | Some (_, d) => match lookup n d with Some v => Ok v | None => Err KeyError end
        end
    end.

  (* several evaluators in one callback list (CallbackList.on_epoch_end calls each in order) *)
  Definition cbs_on_epoch_end (cbs : list ((S -> vals) * evaluator)) (e : Z) (s : S) :=
    map (fun c => (fst c, ev_on_epoch_end (fst c) (snd c) e s)) cbs.
  Fixpoint cbs_run (cbs : list ((S -> vals) * evaluator)) (run : list (Z * S)) :=
    match run with
    | [] => cbs
    | (e, s) :: r => cbs_run (cbs_on_epoch_end cbs e s) r
    end.

  (* CSV: DictWriter(fieldnames).writerow(row): one cell per field, in field order, a missing key
     gives an empty cell (None) *)
  Definition csv_row (fields : list name) (e : Z) (d : vals) : Z * list (option V) :=
    (e, map (fun f => lookup f d) fields).
  Definition csv_body (fields : list name) (log : list (Z * vals)) :=
    map (fun r => csv_row fields (fst r) (snd r)) log.
End Evaluator.
Arguments evaluator : clear implicits.
Arguments vals : clear implicits.

(* ------------------------------------------------------------------ ObservableStatistics *)
Section ObsStats.
  Context {T : Type}.
  Definition stats := list (name * T).      (* {"mean":..,"variance":..,"std_error":..,..} *)

  (* ObservableEvaluator.__getattr__(obs).data *)
  Definition oe_data (obs : name) (ev : evaluator stats) : result (list stats) :=
    ev_array obs ev.

  (* ObservableStatistics.__getattr__(statistic) *)
  Definition os_get (statistic : name) (data : list stats) : result (list T) :=
    let stat := strip_s statistic in
    let use :=
      match data with
      | d0 :: _ => if has_key stat d0 then stat else statistic
      | [] => statistic
      end in
    match mapM (lookup use) data with Some l => Ok l | None => Err AttributeError end.

  (* CSV of the ObservableEvaluator: fields  <obs>_mean, <obs>_variance, <obs>_std_error per
     observable; the row has a key <obs>_<stat> for every statistic, extras ignored *)
  Definition obs_field (obs stat : name) : name := obs ++ [ch_us] ++ stat.
  Definition obs_csv_fields (observables : list name) : list name :=
    flat_map (fun o => [obs_field o n_mean; obs_field o n_variance; obs_field o n_std_error]) observables.
  Definition obs_flat_row (d : vals stats) : list (name * T) :=
    flat_map (fun os => map (fun sv => (obs_field (fst os) (fst sv), snd sv)) (snd os)) d.
  Definition obs_csv_body (observables : list name) (log : list (Z * vals stats)) :=
    map (fun r => @csv_row T (obs_csv_fields observables) (fst r) (obs_flat_row (snd r))) log.
End ObsStats.
Arguments stats : clear implicits.

(* ================================================================== ModelSaver, Logger *)
Section Saver.
  Context {S P M : Type}.
  (* metadata argument: callable(nn_state, epoch) | dict | None *)
  Inductive md_spec := MdCallable (f : S -> Z -> M) | MdDict (m : M) | MdNone.
  (* file_name.format("initial") / file_name.format(epoch) *)
  Inductive fname := FInitial | FEpoch (e : Z).
  (* torch.save(metadata) when metadata_only, else nn_state.save(path, metadata) *)
  Inductive content := MetaOnly (m : M) | Full (params : P) (m : M).

  Record saver := mkSaver {
    sv_period : Z; sv_save_initial : bool; sv_metadata : md_spec; sv_metadata_only : bool }.

  Definition sv_save (params : S -> P) (empty : M) (sv : saver) (s : S) (e : Z) : content :=
    let m := match sv_metadata sv with MdCallable f => f s e | MdDict m => m | MdNone => empty end in
    if sv_metadata_only sv then MetaOnly m else Full (params s) m.

  Definition sv_on_train_start params empty (sv : saver) (s0 : S) : list (fname * content) :=
    if sv_save_initial sv then [(FInitial, sv_save params empty sv s0 0%Z)] else [].
  Definition sv_on_epoch_end params empty (sv : saver) (e : Z) (s : S) : list (fname * content) :=
    if fires (sv_period sv) e then [(FEpoch e, sv_save params empty sv s e)] else [].

  (* the writes of one fit, in order *)
  Definition sv_fit params empty (sv : saver) (s0 : S) (run : list (Z * S)) : list (fname * content) :=
    sv_on_train_start params empty sv s0 ++
    flat_map (fun es => sv_on_epoch_end params empty sv (fst es) (snd es)) run.

  Definition fname_eqb (a b : fname) : bool :=
    match a, b with
    | FInitial, FInitial => true
    | FEpoch x, FEpoch y => Z.eqb x y
    | _, _ => false
    end.
  (* the file store after a sequence of writes: the last write to a name wins *)
  Fixpoint store_get (f : fname) (writes : list (fname * content)) : option content :=
    match writes with
    | [] => None
    | (g, c) :: r =>
        match store_get f r with
        | Some c' => Some c'
        | None => if fname_eqb g f then Some c else None
        end
    end.
End Saver.
Arguments md_spec : clear implicits.
Arguments content : clear implicits.
Arguments saver : clear implicits.

Section Logger.
  Context {S Msg : Type}.
  (* Logger.on_epoch_end: logger_fn(msg_gen(nn_state, epoch, **kwargs)) at multiples of period *)
  Definition lg_on_epoch_end (p : Z) (msg_gen : S -> Z -> Msg) (e : Z) (s : S) : list Msg :=
    if fires p e then [msg_gen s e] else [].
  Definition lg_run (p : Z) (msg_gen : S -> Z -> Msg) (run : list (Z * S)) : list Msg :=
    flat_map (fun es => lg_on_epoch_end p msg_gen (fst es) (snd es)) run.
End Logger.

(* ================================================================== EarlyStopping *)
Inductive criterion := Relative | Absolute | Variance.
Inductive evkind := KMetric | KObservable | KOther.

Definition criterion_table (c : name) : result criterion :=
  if name_eqb c n_relative then Ok Relative
  else if name_eqb c n_absolute then Ok Absolute
  else if name_eqb c n_variance then Ok Variance
  else Err ValueError.

(* EarlyStopping.__init__: which exception, or the selected criterion *)
Definition es_construct (k : evkind) (crit : name) : result criterion :=
  match k with
  | KMetric => if name_eqb (normalize crit) n_variance then Err TypeError
               else criterion_table (normalize crit)
  | KObservable => criterion_table (normalize crit)
  | KOther => Err TypeError
  end.
(* VarianceBasedEarlyStopping.__init__ = EarlyStopping.__init__(..., criterion="variance") *)
Definition vbes_construct (k : evkind) : result criterion := es_construct k n_variance.

Section Stopper.
  Context {T : Type} (O : NumOps T).

  (* the three deviations; prev = M_{t-p}, cur = M_t, prevvar = variance at t-p *)
  Definition es_deviation (c : criterion) (prev cur prevvar : T) : T :=
    let change := nsub O prev cur in
    match c with
    | Relative => nabs O (ndiv O change prev)
    | Absolute => nabs O change
    | Variance => ndiv O (nabs O change) (nsqrt O prevvar)
    end.

  (* the decision on a plain history of (value, variance) pairs, with the code's indexing:
     gate len > patience, look-back index -patience-1, current index -1 *)
  Definition es_rule (c : criterion) (p : nat) (tol : T) (hist : list (T * T)) : bool :=
    if Nat.ltb p (length hist) then
      match norm_index (length hist) (- Z.of_nat p - 1), norm_index (length hist) (-1) with
      | Some i, Some j =>
          match nth_error hist i, nth_error hist j with
          | Some (prev, pvar), Some (cur, _) => nltb O (es_deviation c prev cur pvar) tol
          | _, _ => false
          end
      | _, _ => false
      end
    else false.

  Record stopper := mkStop {
    st_period : Z; st_tol : T; st_patience : nat; st_name : name; st_crit : criterion;
    st_last_epoch : option Z }.

  Section OverEvaluator.
    Context {S V : Type}.
    (* value_getter / variance_getter applied to what get_value returns:
       MetricEvaluator: the value itself (no variance_getter attribute);
       ObservableEvaluator: d["mean"], d["variance"] *)
    Context (value_of : V -> result T).
    Context (variance_of : V -> result T).

    Definition es_get (f : V -> result T) (st : stopper) (idx : option Z) (ev : evaluator V) : result T :=
      bind (ev_get_value (st_name st) idx ev) f.

    Definition es_current_deviation (st : stopper) (ev : evaluator V) : result T :=
      let back := Some (- Z.of_nat (st_patience st) - 1)%Z in
      bind (es_get value_of st back ev) (fun prev =>
      bind (es_get value_of st None ev) (fun cur =>
      match st_crit st with
      | Variance => bind (es_get variance_of st back ev) (fun pvar => Ok (es_deviation Variance prev cur pvar))
      | c => Ok (es_deviation c prev cur prev)
      end)).

    (* EarlyStopping.on_epoch_end: (stop flag raised?, stopper afterwards) *)
    Definition es_on_epoch_end (st : stopper) (ev : evaluator V) (e : Z) : result (bool * stopper) :=
      if fires (st_period st) e then
        if Nat.ltb (st_patience st) (ev_len ev) then
          bind (es_current_deviation st ev) (fun d =>
            if nltb O d (st_tol st)
            then Ok (true, mkStop (st_period st) (st_tol st) (st_patience st) (st_name st) (st_crit st) (Some e))
            else Ok (false, st))
        else Ok (false, st)
      else Ok (false, st).

    (* fit with the callback list [evaluator; stopper] (ev_first = true) or [stopper; evaluator]:
       after all callbacks of an epoch have run, the loop breaks if stop_training was set *)
    Inductive outcome := Completed | Stopped (e : Z) | Raised (x : err) (e : Z).

    Fixpoint es_fit (ev_first : bool) (metrics : S -> vals V) (ev : evaluator V) (st : stopper)
             (plan : list (Z * S)) : evaluator V * stopper * outcome * list Z :=
      match plan with
      | [] => (ev, st, Completed, [])
      | (e, s) :: rest =>
          let ev' := ev_on_epoch_end metrics ev e s in
          match es_on_epoch_end st (if ev_first then ev' else ev) e with
          | Err x => ((if ev_first then ev' else ev), st, Raised x e, [e])
          | Ok (true, st') => (ev', st', Stopped e, [e])
          | Ok (false, st') =>
              let '(evf, stf, o, es) := es_fit ev_first metrics ev' st' rest in (evf, stf, o, e :: es)
          end
      end.
  End OverEvaluator.

  (* the getters of the two evaluator kinds *)
  Definition metric_value_of (v : T) : result T := Ok v.
  Definition metric_variance_of (v : T) : result T := Err AttributeError.
  Definition obs_value_of (d : stats T) : result T :=
    match lookup n_mean d with Some v => Ok v | None => Err KeyError end.
  Definition obs_variance_of (d : stats T) : result T :=
    match lookup n_variance d with Some v => Ok v | None => Err KeyError end.
End Stopper.
Arguments stopper : clear implicits.
