(* Gibbs.v — block-Gibbs sampling of BinaryRBM / PurificationRBM
   (rbm/binary_rbm.py, rbm/purification_rbm.py: sample_*, gibbs_steps;
    nn_states/neural_state.py: sample).
   EXECUTABLE DEFINITIONS ONLY.

   * [bern], [bern_prod]      : Bernoulli factor / product over the units of one layer
   * [b_kernel], [p_kernel]   : one block step as a Markov kernel on visible states
   * [kpow]                   : k-step kernel
   * [b_gibbs_steps], [p_gibbs_steps] : the sampler as a deterministic function of the bits that
       torch.bernoulli returned; it also returns the probability vectors it requested, in call order
   * [heap], [b_gibbs_call], [p_gibbs_call] : storage model of the [overwrite] contract. *)
From Coq Require Import List ZArith Bool.
From QModel Require Import Num Bits Rbm.
Import ListNotations.

Section Gibbs.
  Context {T : Type} (O : NumOps T).
  Local Notation "x * y" := (nmul O x y).

  (* P(unit = b) for a unit that is on with probability p *)
  Definition bern (p : T) (b : bool) : T := if b then p else nsub O (n1 O) p.

  (* independent units: product of the Bernoulli factors (stops at the shorter list) *)
  Fixpoint bern_prod (ps : list T) (bs : bits) : T :=
    match ps, bs with
    | p :: ps', b :: bs' => bern p b * bern_prod ps' bs'
    | _, _ => n1 O
    end.

  Definition indicator (a b : bits) : T := if bits_eqb a b then n1 O else n0 O.

  (* ---------------- BinaryRBM ---------------- *)
  (* one block step v -> h -> v' :  K s s' = sum_h P(h|s) P(s'|h) *)
  Definition b_kernel_term (r : brbm) (s s' h : bits) : T :=
    bern_prod (b_prob_h_given_v O r s) h * bern_prod (b_prob_v_given_h O r h) s'.

  Definition b_kernel (r : brbm) (s s' : bits) : T :=
    sum O (map (b_kernel_term r s s') (all_bits (length (bc r)))).

  (* ---------------- PurificationRBM ---------------- *)
  (* K s s' = sum_h sum_a P(h|s) P(a|s) P(s'|h,a) *)
  Definition p_kernel_term (r : prbm) (s s' h a : bits) : T :=
    (bern_prod (p_prob_h_given_v O r s) h * bern_prod (p_prob_a_given_v O r s) a)
    * bern_prod (p_prob_v_given_ha O r h a) s'.

  Definition p_kernel (r : prbm) (s s' : bits) : T :=
    sum O (map (fun h => sum O (map (p_kernel_term r s s' h) (all_bits (length (pd r)))))
               (all_bits (length (pc r)))).

  (* ---------------- k steps ---------------- *)
  Fixpoint kpow (nv : nat) (K : bits -> bits -> T) (k : nat) (s s' : bits) : T :=
    match k with
    | 0%nat => indicator s s'
    | S k' => sum O (map (fun t => K s t * kpow nv K k' t s') (all_bits nv))
    end.

  (* full matrices, row major in the order of all_bits (what the check compares) *)
  Definition kernel_matrix (nv : nat) (K : bits -> bits -> T) : list (list T) :=
    map (fun s => map (fun s' => K s s') (all_bits nv)) (all_bits nv).

  (* ---------------- the sampler, given the drawn bits ---------------- *)
  (* BinaryRBM.gibbs_steps: for _ in range(k): h <- bernoulli(P(h|v)); v <- bernoulli(P(v|h)).
     [draws] are the successive results of torch.bernoulli (h, v, h, v, ...).
     Returns the final visible state and the probability vectors handed to torch.bernoulli. *)
  Fixpoint b_gibbs_steps (r : brbm) (k : nat) (v : bits) (draws : list bits)
    : bits * list (list T) :=
    match k with
    | 0%nat => (v, [])
    | S k' =>
        match draws with
        | h :: v' :: rest =>
            let ph := b_prob_h_given_v O r v in
            let pv := b_prob_v_given_h O r h in
            let res := b_gibbs_steps r k' v' rest in
            (fst res, ph :: pv :: snd res)
        | _ => (v, [])              (* not enough draws supplied: stop *)
        end
    end.

  (* PurificationRBM.gibbs_steps: h <- P(h|v); a <- P(a|v); v <- P(v|h,a) *)
  Fixpoint p_gibbs_steps (r : prbm) (k : nat) (v : bits) (draws : list bits)
    : bits * list (list T) :=
    match k with
    | 0%nat => (v, [])
    | S k' =>
        match draws with
        | h :: a :: v' :: rest =>
            let ph := p_prob_h_given_v O r v in
            let pa := p_prob_a_given_v O r v in
            let pv := p_prob_v_given_ha O r h a in
            let res := p_gibbs_steps r k' v' rest in
            (fst res, ph :: pa :: pv :: snd res)
        | _ => (v, [])
        end
    end.

  (* probability of a recorded run: product of the Bernoulli factors of every draw under the
     probability vector that was requested for it *)
  Fixpoint run_weight (reqs : list (list T)) (draws : list bits) : T :=
    match reqs, draws with
    | p :: reqs', d :: draws' => bern_prod p d * run_weight reqs' draws'
    | _, _ => n1 O
    end.

  (* sizes of the successive draws of a k-step run *)
  Fixpoint b_draw_shape (nv nh k : nat) : list nat :=
    match k with 0%nat => [] | S k' => nh :: nv :: b_draw_shape nv nh k' end.
  Fixpoint p_draw_shape (nv nh na k : nat) : list nat :=
    match k with 0%nat => [] | S k' => nh :: na :: nv :: p_draw_shape nv nh na k' end.

  (* all draw sequences of a given shape (executable enumeration) *)
  Fixpoint all_draws (shape : list nat) : list (list bits) :=
    match shape with
    | [] => [[]]
    | n :: rest => flat_map (fun d => map (cons d) (all_draws rest)) (all_bits n)
    end.

  (* law of the sampler: total weight of the draw sequences that end in s' *)
  Definition b_sampler_law (r : brbm) (nv : nat) (k : nat) (s s' : bits) : T :=
    sum O (map (fun ds => let res := b_gibbs_steps r k s ds in
                          run_weight (snd res) ds * indicator (fst res) s')
               (all_draws (b_draw_shape nv (length (bc r)) k))).
  Definition p_sampler_law (r : prbm) (nv : nat) (k : nat) (s s' : bits) : T :=
    sum O (map (fun ds => let res := p_gibbs_steps r k s ds in
                          run_weight (snd res) ds * indicator (fst res) s')
               (all_draws (p_draw_shape nv (length (pc r)) (length (pd r)) k))).
End Gibbs.

(* ---------------- storage model of the overwrite contract ----------------
   gibbs_steps:  v = (initial_state if overwrite else initial_state.clone()); every step writes
   its visible draw into v's storage (torch.bernoulli(..., out=v)); returns v.
   A heap is a list of cells; an address is an index; [clone] allocates a new last cell. *)
Section Heap.
  Definition heap := list bits.
  Definition hread (hp : heap) (a : nat) : bits := nth a hp [].
  Fixpoint hwrite (hp : heap) (a : nat) (x : bits) : heap :=
    match hp, a with
    | [], _ => []
    | _ :: r, O => x :: r
    | c :: r, S a' => c :: hwrite r a' x
    end.
  Definition hclone (hp : heap) (a : nat) : heap * nat := (hp ++ [hread hp a], length hp).

  (* in-place loop: each step's visible draw is stored in cell [dst] (draws per step: [skip]
     latent draws, then the visible one) *)
  Fixpoint run_in_place (skip : nat) (k : nat) (hp : heap) (dst : nat) (draws : list bits) : heap :=
    match k with
    | O => hp
    | S k' =>
        match nth_error draws skip with
        | Some v' => run_in_place skip k' (hwrite hp dst v') dst (skipn (S skip) draws)
        | None => hp
        end
    end.

  (* returns the new heap and the address of the returned tensor.
     v = (initial_state if overwrite else initial_state.clone()).to(self.weights):
     [.to] returns its argument when the start tensor already has the parameters' dtype (and device)
     and otherwise a converted COPY ([same_dtype] = false); the loop updates v in place; afterwards
       if overwrite and v is not initial_state: initial_state.copy_(v)
     writes the result back into the caller's tensor; v is returned. *)
  Definition gibbs_call (skip : nat) (overwrite same_dtype : bool) (k : nat) (hp : heap) (src : nat)
             (draws : list bits) : heap * nat :=
    let (hp1, dst) := if overwrite && same_dtype then (hp, src) else hclone hp src in
    let hp2 := run_in_place skip k hp1 dst draws in
    let hp3 := if overwrite && negb same_dtype then hwrite hp2 src (hread hp2 dst) else hp2 in
    (hp3, dst).
  Definition b_gibbs_call := gibbs_call 1.
  Definition p_gibbs_call := gibbs_call 2.
End Heap.
