(* Batching.v — model of the batching / shuffling part of NeuralStateBase.fit
   (qucumber/nn_states/neural_state.py: _shuffle_data, the num_batches / neg_batch_size
   defaulting of fit) and of qucumber/utils/data.py: extract_refbasis_samples.
   EXECUTABLE DEFINITIONS ONLY (no proofs).  Rows are opaque: A = a row of the training
   data, B = a row of the measurement bases.  The random outcomes are arguments:
   [perm] = result of torch.randperm(N), [negidx] = result of torch.randint(M, (k,)).
   An index that is out of range makes torch raise IndexError: modelled as [None]. *)
From Coq Require Import List Arith Bool.
Import ListNotations.

(* ceil(n / b) for the sizes that occur (math.ceil of a float quotient) *)
Definition cdiv (n b : nat) : nat := (n + (b - 1)) / b.

Section Rows.
  Context {A : Type}.

  (* l[s:e] (Python slice, clipped at the end of the list) *)
  Definition slice (s e : nat) (l : list A) : list A := firstn (e - s) (skipn s l).

  (* range(0, n, b) *)
  Definition range_starts (n b : nat) : list nat := map (fun k => k * b) (seq 0 (cdiv n b)).

  (* [l[s : s + b] for s in range(0, n, b)] *)
  Definition slices (n b : nat) (l : list A) : list (list A) :=
    map (fun s => slice s (s + b) l) (range_starts n b).

  (* [l[s : s + b] for s in range(0, len(l), b)] : last chunk short, none if l is empty *)
  Definition chunks (b : nat) (l : list A) : list (list A) := slices (length l) b l.

  (* l[idxs] for an index tensor: IndexError (None) if some index is out of range *)
  Fixpoint gather (l : list A) (idxs : list nat) : option (list A) :=
    match idxs with
    | [] => Some []
    | i :: r =>
        match nth_error l i, gather l r with
        | Some x, Some xs => Some (x :: xs)
        | _, _ => None
        end
    end.

  (* l[mask] for a boolean mask: shapes must agree (IndexError otherwise) *)
  Fixpoint mask_select (l : list A) (m : list bool) : option (list A) :=
    match l, m with
    | [], [] => Some []
    | x :: l', b :: m' =>
        match mask_select l' m' with
        | None => None
        | Some r => Some (if b then x :: r else r)
        end
    | _, _ => None
    end.
End Rows.

Section Shuffle.
  Context {A B : Type}.

  (* one call of compute_batch_gradients: (samples_batch, neg_batch, bases_batch) *)
  Definition batch : Type := (list A * list A * option (list B))%type.
  Definition b_pos (x : batch) : list A := fst (fst x).
  Definition b_neg (x : batch) : list A := snd (fst x).
  Definition b_bases (x : batch) : option (list B) := snd x.

  (* extract_refbasis_samples: idx = (train_bases == "Z").all(dim=1); train_samples[idx] *)
  Definition extract_refbasis (isZ : B -> bool) (data : list A) (bases : list B) : option (list A) :=
    mask_select data (map isZ bases).

  (* zip(pos_batches, neg_batches): truncates to the shorter list *)
  Definition zip2 (ps ns : list (list A)) : list batch :=
    map (fun pn => (fst pn, snd pn, None)) (combine ps ns).

  (* zip(pos_batches, neg_batches, pos_batches_bases): truncates to the shortest list *)
  Definition zip3 (ps ns : list (list A)) (bs : list (list B)) : list batch :=
    map (fun pnb => (fst (fst pnb), snd (fst pnb), Some (snd pnb))) (combine (combine ps ns) bs).

  (* input_bases[pos_batch_perm.numpy()]: the numpy array of basis rows indexed by the permutation
     (an index ARRAY, so N = 1 yields a 1-row matrix like every other N) *)
  Definition np_take (bs : list B) (perm : list nat) : option (list B) := gather bs perm.

  (* _shuffle_data(pos_batch_size, neg_batch_size, num_batches, train_samples, input_bases, z_samples)
     [negidx] is only consulted where the code calls torch.randint. *)
  Definition shuffle_data (pos_bs neg_bs num_batches : nat) (data : list A)
             (bases : option (list B)) (zdata : list A) (perm negidx : list nat)
    : option (list batch) :=
    match gather data perm with                       (* train_samples[pos_batch_perm] *)
    | None => None
    | Some spos =>
        let sneg :=
          match bases with
          | None => if Nat.eqb neg_bs pos_bs then gather data perm   (* neg_batch_perm = pos_batch_perm *)
                    else gather data negidx
          | Some _ => gather zdata negidx
          end in
        match sneg with
        | None => None
        | Some sneg =>
            let pos_batches := chunks pos_bs spos in
            let neg_batches := chunks neg_bs sneg in
            match bases with
            | None => Some (zip2 pos_batches neg_batches)
            | Some bs =>
                match np_take bs perm with            (* input_bases[pos_batch_perm.numpy()] *)
                | None => None
                | Some sb =>
                    (* range(0, len(train_samples), pos_batch_size) *)
                    Some (zip3 pos_batches neg_batches (slices (length data) pos_bs sb))
                end
            end
        end
    end.

  (* the torch.randint(high, size=(k,)) call made by _shuffle_data, as (high, k); None when the
     code makes no such call (no bases and equal batch sizes: the positive permutation is reused) *)
  Definition randint_request (pos_bs neg_bs num_batches : nat) (data : list A)
             (bases : option (list B)) (zdata : list A) : option (nat * nat) :=
    match bases with
    | None => if Nat.eqb neg_bs pos_bs then None else Some (length data, num_batches * neg_bs)
    | Some _ => Some (length zdata, num_batches * neg_bs)
    end.

  (* neg_batch_size = neg_batch_size if neg_batch_size else pos_batch_size  (None and 0 are falsy) *)
  Definition default_neg (pos_bs : nat) (neg_opt : option nat) : nat :=
    match neg_opt with
    | Some (S k) => S k
    | _ => pos_bs
    end.

  (* the data pipeline of one epoch of fit: z_samples, num_batches = ceil(N / pos_batch_size),
     then _shuffle_data.  pos_batch_size = 0 makes the real ceil(N / 0) raise: None here, because
     [cdiv n 0 = 0] is only Coq's totalisation of division *)
  Definition fit_epoch (isZ : B -> bool) (pos_bs : nat) (neg_opt : option nat) (data : list A)
             (bases : option (list B)) (perm negidx : list nat) : option (list batch) :=
    let neg_bs := default_neg pos_bs neg_opt in
    if Nat.eqb pos_bs 0 then None                     (* ceil(N / 0) raises ZeroDivisionError *)
    else
    let nb := cdiv (length data) pos_bs in
    match bases with
    | None => shuffle_data pos_bs neg_bs nb data None [] perm negidx
    | Some bs =>
        match extract_refbasis isZ data bs with
        | None => None
        | Some z => shuffle_data pos_bs neg_bs nb data (Some bs) z perm negidx
        end
    end.

  Definition fit_randint_request (isZ : B -> bool) (pos_bs : nat) (neg_opt : option nat) (data : list A)
             (bases : option (list B)) : option (nat * nat) :=
    let neg_bs := default_neg pos_bs neg_opt in
    let nb := cdiv (length data) pos_bs in
    match bases with
    | None => randint_request pos_bs neg_bs nb data None []
    | Some bs =>
        match extract_refbasis isZ data bs with
        | None => None
        | Some z => randint_request pos_bs neg_bs nb data (Some bs) z
        end
    end.
End Shuffle.

(* a basis row as the character codes of its letters; "Z" = 90 *)
Definition is_Z_row (r : list nat) : bool := forallb (Nat.eqb 90) r.
