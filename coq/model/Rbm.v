(* Rbm.v — BinaryRBM (rbm/binary_rbm.py) and PurificationRBM (rbm/purification_rbm.py):
   effective energies, conditionals, energy gradients, gamma, partition function.
   Executable definitions only.  Visible/hidden/auxiliary configurations are 0/1
   vectors ([bits]); parameters are lists over the number type. *)
From Coq Require Import List ZArith Bool.
From QModel Require Import Num Bits.
Import ListNotations.

Section Rbm.
  Context {T : Type} (O : NumOps T).
  Local Notation "x + y" := (nadd O x y).
  Local Notation "x * y" := (nmul O x y).
  Local Notation "- x" := (nopp O x).

  (* ---------------- BinaryRBM ---------------- *)
  Record brbm := mkB { bW : list (list T);   (* num_hidden rows x num_visible *)
                       bb : list T;          (* visible_bias *)
                       bc : list T }.        (* hidden_bias  *)

  (* effective_energy(v) = -(v.b + sum softplus(W v + c)) *)
  Definition b_eff_energy (r : brbm) (v : bits) : T :=
    - (dotb O (bb r) v + sum O (map (softplus O) (linearb O (bW r) (bc r) v))).

  (* prob_h_given_v = sigmoid(W v + c) *)
  Definition b_prob_h_given_v (r : brbm) (v : bits) : list T :=
    map (sigmoid O) (linearb O (bW r) (bc r) v).

  (* prob_v_given_h = sigmoid(h W + b) *)
  Definition b_prob_v_given_h (r : brbm) (h : bits) : list T :=
    map (sigmoid O) (vadd O (vecmatb O (length (bb r)) h (bW r)) (bb r)).

  (* full energy of a (v,h) pair: the exponent whose hidden marginal is exp(-eff_energy) *)
  Definition b_joint_exponent (r : brbm) (v h : bits) : T :=
    dotb O (bb r) v + dotb O (linearb O (bW r) (bc r) v) h.

  (* effective_energy_gradient(v, reduce=False) for one row:
     [ -p_i v_j  (row major i,j) ; -v ; -p ] *)
  Definition outerb (p : list T) (v : bits) : list T :=
    flat_map (fun pi => map (fun vj => nmul O pi (b2t O vj)) v) p.

  Definition b_energy_grad (r : brbm) (v : bits) : list T :=
    let p := b_prob_h_given_v r v in
    vopp O (outerb p v) ++ vopp O (map (b2t O) v) ++ vopp O p.

  (* reduce=True over a batch: the sum of the per-row gradients *)
  Fixpoint vsum (n : nat) (rows : list (list T)) : list T :=
    match rows with [] => repeat (n0 O) n | x :: r => vadd O x (vsum n r) end.

  Definition b_num_pars (r : brbm) : nat :=
    length (bW r) * length (bb r) + length (bb r) + length (bc r).

  Definition b_energy_grad_batch (r : brbm) (vs : list bits) : list T :=
    vsum (b_num_pars r) (map (b_energy_grad r) vs).

  (* partition(space) = exp(logsumexp(-E)) *)
  Definition b_partition (r : brbm) (space : list bits) : T :=
    nexp O (nln O (sum O (map (fun v => nexp O (- (b_eff_energy r v))) space))).

  (* ---------------- PurificationRBM ---------------- *)
  Record prbm := mkP { pW : list (list T);   (* num_hidden x num_visible *)
                       pU : list (list T);   (* num_aux x num_visible *)
                       pb : list T; pc : list T; pd : list T }.

  (* effective_energy(v) with the auxiliary units traced out *)
  Definition p_eff_energy (r : prbm) (v : bits) : T :=
    - ((dotb O (pb r) v + sum O (map (softplus O) (linearb O (pW r) (pc r) v)))
       + sum O (map (softplus O) (linearb O (pU r) (pd r) v))).

  (* effective_energy(v, a): auxiliary configuration given *)
  Definition p_eff_energy_va (r : prbm) (v a : bits) : T :=
    - (((dotb O (pb r) v + sum O (map (softplus O) (linearb O (pW r) (pc r) v)))
        + dotb O (pd r) a) + dotb O (matvecb O (pU r) v) a).

  Definition p_prob_h_given_v (r : prbm) (v : bits) : list T :=
    map (sigmoid O) (linearb O (pW r) (pc r) v).
  Definition p_prob_a_given_v (r : prbm) (v : bits) : list T :=
    map (sigmoid O) (linearb O (pU r) (pd r) v).
  Definition p_prob_v_given_ha (r : prbm) (h a : bits) : list T :=
    map (sigmoid O)
      (vadd O (vadd O (vecmatb O (length (pb r)) h (pW r)) (pb r))
              (vecmatb O (length (pb r)) a (pU r))).

  Definition p_energy_grad (r : prbm) (v : bits) : list T :=
    let ph := p_prob_h_given_v r v in
    let pa := p_prob_a_given_v r v in
    vopp O (outerb ph v) ++ vopp O (outerb pa v) ++ vopp O (map (b2t O) v)
      ++ vopp O ph ++ vopp O pa.

  Definition p_num_pars (r : prbm) : nat :=
    length (pW r) * length (pb r) + length (pU r) * length (pb r)
    + length (pb r) + length (pc r) + length (pd r).

  Definition p_energy_grad_batch (r : prbm) (vs : list bits) : list T :=
    vsum (p_num_pars r) (map (p_energy_grad r) vs).

  Definition p_partition (r : prbm) (space : list bits) : T :=
    nexp O (nln O (sum O (map (fun v => nexp O (- (p_eff_energy r v))) space))).

  (* the visible part shared by gamma: v.b + sum softplus(W v + c) *)
  Definition p_vis_term (r : prbm) (v : bits) : T :=
    dotb O (pb r) v + sum O (map (softplus O) (linearb O (pW r) (pc r) v)).

  (* gamma(v, vp, eta) = 0.5 * (vis(v) + sign(eta) * vis(vp));  eta = +1 / -1 *)
  Definition p_gamma (r : prbm) (plus : bool) (v vp : bits) : T :=
    half O (p_vis_term r v + (if plus then p_vis_term r vp else - (p_vis_term r vp))).

  (* mixing_term(x) = (0.5 U) x + d *)
  Definition p_stack_binary (r : prbm) : brbm :=
    mkB (pW r ++ pU r) (pb r) (pc r ++ pd r).
End Rbm.

Arguments mkB {T}. Arguments bW {T}. Arguments bb {T}. Arguments bc {T}.
Arguments mkP {T}. Arguments pW {T}. Arguments pU {T}. Arguments pb {T}. Arguments pc {T}. Arguments pd {T}.
