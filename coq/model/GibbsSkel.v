(* GibbsSkel.v — data-flow skeletons of the block-Gibbs loops (BinaryRBM.gibbs_steps, PurificationRBM.gibbs_steps):
   what the source-translation tie of C05 extracts from the CURRENT source (harness/srctie.py, kind "gibbs-skeleton"),
   and an interpreter giving every skeleton a meaning as a sampler driven by the recorded Bernoulli draws.
   EXECUTABLE DEFINITIONS ONLY (proofs: theory/GibbsSkelT.v).

   One loop iteration is a list of steps "draw register [dst] from the conditional [cond] evaluated at the current
   contents of [src1] (and [src2])"; registers are the three tensors of the loop: v (the chain state), h, a. *)
From Coq Require Import List ZArith Bool.
From QModel Require Import Num Bits Rbm Gibbs.
Import ListNotations.

Inductive reg := RV | RH | RA | RX.      (* RX: any other tensor the loop writes to / reads from *)
Inductive cnd := CHgV | CAgV | CVgH | CVgHA.
Record gstep := mkG { g_dst : reg; g_cond : cnd; g_src1 : reg; g_src2 : reg }.

Definition reg_eqb (a b : reg) : bool :=
  match a, b with RV, RV | RH, RH | RA, RA | RX, RX => true | _, _ => false end.
Definition cnd_eqb (a b : cnd) : bool :=
  match a, b with CHgV, CHgV | CAgV, CAgV | CVgH, CVgH | CVgHA, CVgHA => true | _, _ => false end.
Definition gstep_eqb (a b : gstep) : bool :=
  reg_eqb (g_dst a) (g_dst b) && cnd_eqb (g_cond a) (g_cond b) && reg_eqb (g_src1 a) (g_src1 b)
  && (match g_cond a with CVgHA => reg_eqb (g_src2 a) (g_src2 b) | _ => true end).
Fixpoint gbody_eqb (a b : list gstep) : bool :=
  match a, b with
  | [], [] => true
  | x :: a', y :: b' => gstep_eqb x y && gbody_eqb a' b'
  | _, _ => false
  end.

Section Interp.
  Context {T : Type}.
  (* the conditionals of the network the loop belongs to *)
  Variable ph pa pvh : bits -> list T.
  Variable pvha : bits -> bits -> list T.

  Definition regs : Type := (bits * bits * bits * bits)%type.       (* v, h, a, x *)
  Definition rget (rs : regs) (r : reg) : bits :=
    let '(v, h, a, x) := rs in match r with RV => v | RH => h | RA => a | RX => x end.
  Definition rset (rs : regs) (r : reg) (x : bits) : regs :=
    let '(v, h, a, x0) := rs in match r with RV => (x, h, a, x0) | RH => (v, x, a, x0) | RA => (v, h, x, x0) | RX => (v, h, a, x) end.
  Definition cprobs (c : cnd) (x y : bits) : list T :=
    match c with CHgV => ph x | CAgV => pa x | CVgH => pvh x | CVgHA => pvha x y end.

  (* one iteration: every step consumes one recorded draw; None = not enough draws supplied *)
  Fixpoint run_body (body : list gstep) (rs : regs) (draws : list bits) : option (regs * list (list T) * list bits) :=
    match body with
    | [] => Some (rs, [], draws)
    | st :: rest =>
        match draws with
        | d :: ds =>
            let p := cprobs (g_cond st) (rget rs (g_src1 st)) (rget rs (g_src2 st)) in
            match run_body rest (rset rs (g_dst st) d) ds with
            | Some (rs', reqs, ds') => Some (rs', p :: reqs, ds')
            | None => None
            end
        | [] => None
        end
    end.

  Fixpoint run_loop (body : list gstep) (k : nat) (rs : regs) (draws : list bits) : regs * list (list T) :=
    match k with
    | O => (rs, [])
    | S k' =>
        match run_body body rs draws with
        | Some (rs', reqs, ds') => let res := run_loop body k' rs' ds' in (fst res, reqs ++ snd res)
        | None => (rs, [])
        end
    end.

  (* the sampler: final chain state and the probability vectors requested, in order *)
  Definition run_gibbs (body : list gstep) (k : nat) (v h0 a0 : bits) (draws : list bits) : bits * list (list T) :=
    let res := run_loop body k (v, h0, a0, v) draws in (rget (fst res) RV, snd res).
End Interp.

(* the loops of the code as modelled by Gibbs.b_gibbs_steps / p_gibbs_steps *)
Definition canonical_b : list gstep := [mkG RH CHgV RV RV; mkG RV CVgH RH RH].
Definition canonical_p : list gstep := [mkG RH CHgV RV RV; mkG RA CAgV RV RV; mkG RV CVgHA RH RA].
