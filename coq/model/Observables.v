(* Observables.v — per-sample values of the built-in observables (observables/pauli.py,
   interactions.py, entanglement.py, utils.py) and the importance-sampling interface of
   the states (nn_states/{wavefunction,density_matrix,neural_state}.py).
   EXECUTABLE DEFINITIONS ONLY; polymorphic in NumOps.  Complex numbers are pairs (re, im).

   A state enters only through its importance-sampling numerator / denominator:
     pure  : numerator(vp, v) = psi(vp)          denominator(v) = psi(v)
     mixed : numerator(vp, v) = rho(vp, v)       denominator(v) = (probability(v), 0)      *)
From Coq Require Import List ZArith Bool Arith.
From QModel Require Import Num Bits CBase.
Import ListNotations.

Section Observables.
  Context {T : Type} (O : NumOps T).
  Local Notation cpx := (T * T)%type.

  (* ---------- importance-sampling interface ---------- *)
  Record istate := mkIS {
    is_num : bits -> bits -> cpx;      (* importance_sampling_numerator(vp, v) *)
    is_den : bits -> cpx }.            (* importance_sampling_denominator(v)   *)

  Definition pure_state (psi : bits -> cpx) : istate :=
    mkIS (fun vp _ => psi vp) (fun v => psi v).
  Definition mixed_state (rho : bits -> bits -> cpx) (p : bits -> T) : istate :=
    mkIS (fun vp v => rho vp v) (fun v => (p v, n0 O)).

  (* cplx.absolute_value(y) = sqrt(real(y * conj(y))) *)
  Definition cabs_e (y : cpx) : T := nsqrt O (fst (cmul O y (cconj O y))).
  (* cplx.elementwise_division(x, y) = (x * conj(y)) / absolute_value(y)^2 *)
  Definition cdiv_e (x y : cpx) : cpx :=
    let m := cmul O x (cconj O y) in
    let d := nmul O (cabs_e y) (cabs_e y) in
    (ndiv O (fst m) d, ndiv O (snd m) d).

  (* importance_sampling_weight(vp, v) *)
  Definition is_weight (st : istate) (vp v : bits) : cpx :=
    cdiv_e (is_num st vp v) (is_den st v).

  (* utils.to_pm1: x*2 - 1 *)
  Definition to_pm1 (x : T) : T := nsub O (nmul O x (two O)) (n1 O).
  Definition spin (s : bits) (i : nat) : T := to_pm1 (b2t O (nth i s false)).
  Definition finish (absolute : bool) (x : T) : T := if absolute then nabs O x else x.

  (* ---------- SigmaX / SigmaY / SigmaZ: value for one sample row ---------- *)
  (* numer_sum starts at 0 and adds, for i = 0..n-1, numerator(flip_spin(i, s), s) *)
  Definition numer_sum (term : nat -> cpx) (n : nat) : cpx :=
    fold_left (fun acc i => cadd O acc (term i)) (seq 0 n) (c0 O).

  Definition sigma_x_term (st : istate) (s : bits) (i : nat) : cpx := is_num st (flip i s) s.
  (* coeff = (0, to_pm1(s_i));  numer = numerator * coeff *)
  Definition sigma_y_term (st : istate) (s : bits) (i : nat) : cpx :=
    cmul O (is_num st (flip i s) s) (n0 O, spin s i).

  Definition site_avg (st : istate) (term : nat -> cpx) (s : bits) : T :=
    ndiv O (fst (cdiv_e (numer_sum term (length s)) (is_den st s))) (nofnat O (length s)).

  Definition sigma_x (absolute : bool) (st : istate) (s : bits) : T :=
    finish absolute (site_avg st (sigma_x_term st s) s).
  Definition sigma_y (absolute : bool) (st : istate) (s : bits) : T :=
    finish absolute (site_avg st (sigma_y_term st s) s).
  (* to_pm1(samples.mean(1)) *)
  Definition sigma_z (absolute : bool) (s : bits) : T :=
    finish absolute (to_pm1 (mean O (map (b2t O) s))).

  (* ---------- NeighbourInteraction ---------- *)
  Definition pm1 (s : bits) : list T := map (fun b => to_pm1 (b2t O b)) s.
  (* z[:-c]  (empty for c = 0, as in Python) and z[c:] *)
  Definition drop_last (c : nat) (z : list T) : list T :=
    if Nat.eqb c 0 then [] else firstn (length z - c) z.
  Definition neighbour (pbc : bool) (c : nat) (s : bits) : T :=
    let z := pm1 s in
    let L := length s in
    let terms :=
      if pbc then map (fun i => nmul O (nth i z (n0 O)) (nth ((i + c) mod L) z (n0 O))) (seq 0 L)
      else map (fun p => nmul O (fst p) (snd p)) (combine (drop_last c z) (skipn c z)) in
    ndiv O (sum O terms) (nofnat O L).

  (* ---------- SWAP ---------- *)
  (* swap(s1, s2, A) with the region as a mask: sites in A are exchanged *)
  Fixpoint swap_mask (A : list bool) (s1 s2 : bits) : bits * bits :=
    match A, s1, s2 with
    | a :: A', x :: s1', y :: s2' =>
        let r := swap_mask A' s1' s2' in
        if a then (y :: fst r, x :: snd r) else (x :: fst r, y :: snd r)
    | _, _, _ => (s1, s2)
    end.
  (* the region given as a list of site indices (int / list / array / tensor forms) *)
  Definition mask_of_sites (n : nat) (A : list nat) : list bool :=
    map (fun j => existsb (Nat.eqb j) A) (seq 0 n).
  Definition swap_sites (s1 s2 : bits) (A : list nat) : bits * bits :=
    swap_mask (mask_of_sites (length s1) A) s1 s2.

  (* real(weight(s1', s1) * weight(s2', s2)) *)
  Definition swap_value (st : istate) (A : list bool) (s1 s2 : bits) : T :=
    let r := swap_mask A s1 s2 in
    fst (cmul O (is_weight st (fst r) s1) (is_weight st (snd r) s2)).

  (* torch.roll(rows, 1, 0): row i of the result is row i-1 (row 0 is the last row) *)
  Definition roll1 {X : Type} (l : list X) : list X :=
    match rev l with [] => [] | x :: r => x :: rev r end.

  Definition swap_apply (st : istate) (A : list nat) (rows : list bits) : list T :=
    map (fun p => swap_value st (mask_of_sites (length (fst p)) A) (fst p) (snd p))
        (combine rows (roll1 rows)).
End Observables.
