(* Effects.v — effect language for C14 (seeded reproducibility / evaluation never alters the model).

   Executable definitions only (no proofs, no Reals).  A *function table* is what the
   translator harness/translate_effects.py regenerates from the Python sources on every
   run: one record per function/method with the effect atoms its own body may perform and
   the functions it may call (conservative, name-based resolution).  This file defines
     - the atoms,
     - the table records,
     - the closure of a root over the call graph (depth-first search over a binary-trie
       set, fuel = number of functions) together with a *self-check* ([closed]) so that
       the result never has to be trusted: [closure_atoms] returns [None] unless the set
       it computed contains the root and is closed under the callee relation,
     - the forbidden-atom predicates per operation class.                                 *)
From Coq Require Import List Bool PArith Init.Byte.
Import ListNotations.

(* names (qualified Python names, module names) are byte lists with a string notation;
   Coq's [string] is deliberately not used: its extraction would shadow OCaml's String module *)
Inductive name : Type := Name (l : list byte).
Definition name_of_bytes (l : list byte) : name := Name l.
Definition bytes_of_name (n : name) : list byte := match n with Name l => l end.
Declare Scope name_scope.
Delimit Scope name_scope with name.
String Notation name name_of_bytes bytes_of_name : name_scope.

Inductive atom : Type :=
| RngTorch                      (* DRAWING from torch's global generator (the one set_random_seed seeds) *)
| RngReseed                     (* re-seeding / overwriting the state of a torch generator (manual_seed, seed, set_rng_state, the torch.random module) *)
| RngNumpy                      (* numpy.random global / any numpy generator *)
| RngPython                     (* Python's random module *)
| Clock                         (* time / datetime *)
| ClockTimer                    (* time.* inside callbacks/timer.py (elapsed time is only stored and printed) *)
| Environ                       (* os.environ, sys.argv, id(), hash(), ... *)
| SetIteration                  (* iteration order of a set feeds a result (hash-seed dependent) *)
| ParamWrite                    (* writes a torch parameter tensor (assignment, .data =, in-place op, out=, load_state_dict, optimizer.step) *)
| FileWrite                     (* torch.save, open(), csv writer, mkdir ... *)
| UnknownModule (m : name).     (* anything the translator could not classify (fail closed) *)

Record fn : Type := mkfn {
  fid      : positive;          (* index of the function in the table (1-based) *)
  fname    : name;              (* qualified Python name, for reports *)
  fatoms   : list atom;         (* atoms the body itself may perform *)
  fcallees : list positive      (* functions the body may call *)
}.

(* ---------------------------------------------------------------- sets / maps keyed by positive *)
Inductive pset : Type := PLeaf | PNode (l : pset) (b : bool) (r : pset).

Fixpoint pmem (p : positive) (s : pset) : bool :=
  match s with
  | PLeaf => false
  | PNode l b r => match p with xH => b | xO q => pmem q l | xI q => pmem q r end
  end.

Fixpoint padd (p : positive) (s : pset) : pset :=
  match s with
  | PLeaf => match p with
             | xH => PNode PLeaf true PLeaf
             | xO q => PNode (padd q PLeaf) false PLeaf
             | xI q => PNode PLeaf false (padd q PLeaf)
             end
  | PNode l b r => match p with
                   | xH => PNode l true r
                   | xO q => PNode (padd q l) b r
                   | xI q => PNode l b (padd q r)
                   end
  end.

Inductive pmap (A : Type) : Type := MLeaf | MNode (l : pmap A) (v : option A) (r : pmap A).
Arguments MLeaf {A}.
Arguments MNode {A} l v r.

Fixpoint mget {A} (p : positive) (m : pmap A) : option A :=
  match m with
  | MLeaf => None
  | MNode l v r => match p with xH => v | xO q => mget q l | xI q => mget q r end
  end.

Fixpoint mset {A} (p : positive) (a : A) (m : pmap A) : pmap A :=
  match m with
  | MLeaf => match p with
             | xH => MNode MLeaf (Some a) MLeaf
             | xO q => MNode (mset q a MLeaf) None MLeaf
             | xI q => MNode MLeaf None (mset q a MLeaf)
             end
  | MNode l v r => match p with
                   | xH => MNode l (Some a) r
                   | xO q => MNode (mset q a l) v r
                   | xI q => MNode l v (mset q a r)
                   end
  end.

(* callees by id; several records with the same id are merged (union of callees) *)
Definition index (tbl : list fn) : pmap (list positive) :=
  fold_left (fun m r => mset (fid r)
                             (match mget (fid r) m with Some cs => fcallees r ++ cs | None => fcallees r end) m)
            tbl MLeaf.

(* ---------------------------------------------------------------- reachability *)
(* Depth-first search.  [fuel] bounds the recursion depth; along one recursion branch every
   frame has added a new element to [seen], so depth <= number of distinct ids and
   fuel = S (length tbl) is enough.  If the fuel were too small the result would not be
   closed and [closure_atoms] would answer None (fail closed). *)
Fixpoint dfs (fuel : nat) (m : pmap (list positive)) (seen : pset) (x : positive) : pset :=
  if pmem x seen then seen else
  match fuel with
  | O => seen
  | S k => match mget x m with
           | None => padd x seen
           | Some cs => fold_left (dfs k m) cs (padd x seen)
           end
  end.

Definition reach (tbl : list fn) (roots : list positive) : pset :=
  fold_left (dfs (S (length tbl)) (index tbl)) roots PLeaf.

(* the self-check: S is closed under "callee of a record whose id is in S" *)
Definition closed (tbl : list fn) (s : pset) : bool :=
  forallb (fun r => if pmem (fid r) s then forallb (fun y => pmem y s) (fcallees r) else true) tbl.

Definition atoms_in (tbl : list fn) (s : pset) : list atom :=
  flat_map (fun r => if pmem (fid r) s then fatoms r else []) tbl.

(* closure of the atoms of a list of roots over the call graph; None = could not be certified *)
Definition closure_atoms (tbl : list fn) (roots : list positive) : option (list atom) :=
  let s := reach tbl roots in
  if forallb (fun x => pmem x s) roots && closed tbl s then Some (atoms_in tbl s) else None.

(* ---------------------------------------------------------------- forbidden atoms *)
Definition is_unknown (a : atom) : bool := match a with UnknownModule _ => true | _ => false end.

(* sources of nondeterminism other than the seeded torch generator *)
Definition foreign_source (a : atom) : bool :=
  match a with
  | RngNumpy | RngPython | Clock | Environ | SetIteration | UnknownModule _ => true
  | _ => false
  end.

Definition param_write (a : atom) : bool :=
  match a with ParamWrite | UnknownModule _ => true | _ => false end.

Definition reseed (a : atom) : bool :=
  match a with RngReseed | UnknownModule _ => true | _ => false end.

(* forbidden outside the seeding operation: foreign sources and re-seeding of the torch generator *)
Definition foreign_or_reseed (a : atom) : bool := foreign_source a || reseed a.

(* forbidden in read-only operations: the above and parameter writes *)
Definition foreign_or_write (a : atom) : bool := foreign_or_reseed a || param_write a.

Definition rng_torch (a : atom) : bool :=
  match a with RngTorch | RngReseed | UnknownModule _ => true | _ => false end.

Definition any_clock (a : atom) : bool :=
  match a with Clock | ClockTimer | UnknownModule _ => true | _ => false end.

(* operation classes of the public API (the translator emits one id list per class) *)
Inductive opclass : Type :=
| OSeed | OInit | OLoad | OFit                                   (* may write parameters *)
| OSample | OStatistics | OObservable | OMetric | ORotation | OSave | OGradient | OEval | OKernel | OData
| OOther.        (* every public function the translator could not classify: strictest forbidden set (fail closed) *)

Definition read_only (c : opclass) : bool :=
  match c with OSeed | OInit | OLoad | OFit => false | _ => true end.

Definition forbidden (c : opclass) (a : atom) : bool :=
  if read_only c then foreign_or_write a
  else match c with OSeed => foreign_source a | _ => foreign_or_reseed a end.

(* the decision procedure used by props/C14.v: no atom of the closure of the roots is bad *)
Definition roots_ok (bad : atom -> bool) (tbl : list fn) (roots : list positive) : bool :=
  match closure_atoms tbl roots with
  | Some A => forallb (fun a => negb (bad a)) A
  | None => false
  end.

(* per-root version (what the theorems quantify over) *)
Definition ops_ok (bad : atom -> bool) (tbl : list fn) (roots : list positive) : bool :=
  forallb (fun x => roots_ok bad tbl [x]) roots.

(* table sanity: ids are 1..n in order (so reports can name functions by position) *)
Fixpoint ids_from (p : positive) (tbl : list fn) : bool :=
  match tbl with
  | [] => true
  | r :: t => Pos.eqb (fid r) p && ids_from (Pos.succ p) t
  end.

Definition name_of (tbl : list fn) (x : positive) : name :=
  match find (fun r => Pos.eqb (fid r) x) tbl with Some r => fname r | None => Name [] end.
