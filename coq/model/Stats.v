(* Stats.v — model of qucumber/observables/utils.py (_update_statistics),
   observable.py (statistics, statistics_from_samples) and system.py (System.statistics).
   EXECUTABLE DEFINITIONS ONLY (no proofs).  Numbers are polymorphic in [NumOps T].

   Conventions
   * a running / per-chunk statistic is a triple (mean, variance, count); the variance is an
     [option T]: [None] stands for the code's nan (torch.var_mean of a single value, or
     float("nan") returned by _update_statistics while the running total is a single value).
   * the Markov-chain sampler (nn_state.sample) is external behaviour: it is an explicit
     function argument [samp] of the schedule model, never a postulate.  Its result for draw
     number i may depend on i (random outcome), on k, on the requested number of chains and on
     the chain states handed in. *)
From Coq Require Import List ZArith Bool Arith.
From QModel Require Import Num.
Import ListNotations.

Section Stats.
  Context {T : Type} (O : NumOps T).

  Definition stat : Type := (T * option T * nat)%type.

  (* running_mean = 0.0; running_variance = 0.0; running_length = 0 *)
  Definition init_stat : stat := (n0 O, Some (n0 O), 0).

  (* scaled_var = var * (len - 1) if len > 1 else 0.0
     — the variance argument of a chunk with fewer than two values is ignored;
       a nan variance of a longer chunk propagates (None) *)
  Definition scaled_var (v : option T) (len : nat) : option T :=
    if 1 <? len then option_map (fun x => nmul O x (nofnat O (len - 1))) v
    else Some (n0 O).

  (* _update_statistics(avg_a, var_a, len_a, avg_b, var_b, len_b) *)
  Definition update_statistics (a b : stat) : stat :=
    let '(avg_a, var_a, len_a) := a in
    let '(avg_b, var_b, len_b) := b in
    if (len_a =? len_b) && (len_b =? 0) then (n0 O, Some (n0 O), 0)
    else
      let new_len := len_a + len_b in
      let new_mean :=
        ndiv O (nadd O (nmul O avg_a (nofnat O len_a)) (nmul O avg_b (nofnat O len_b)))
               (nofnat O new_len) in
      let delta := nsub O avg_b avg_a in
      let new_var :=
        match scaled_var var_a len_a, scaled_var var_b len_b with
        | Some sa, Some sb =>
            let s := nadd O (nadd O sa sb)
                       (ndiv O (nmul O (nmul O (nmul O delta delta) (nofnat O len_a)) (nofnat O len_b))
                               (nofnat O new_len)) in
            if 1 <? new_len then Some (ndiv O s (nofnat O (new_len - 1))) else None
        | _, _ => None
        end in
      (new_mean, new_var, new_len).

  (* ---- one-pass statistics (torch.var_mean: mean and unbiased variance) ---- *)
  Definition ssq (xs : list T) (c : T) : T := sum O (map (fun x => sqr O (nsub O x c)) xs).

  Definition variance (xs : list T) : option T :=
    if 1 <? length xs
    then Some (ndiv O (ssq xs (mean O xs)) (nofnat O (length xs - 1)))
    else None.

  Definition stats (xs : list T) : stat := (mean O xs, variance xs, length xs).

  (* running merge over a list of chunks, starting from the initial triple *)
  Definition merge_chunks (cs : list (list T)) : stat :=
    fold_left (fun run c => update_statistics run (stats c)) cs init_stat.

  (* std_error = sqrt(variance / n) (nan stays nan) *)
  Definition std_error (v : option T) (n : nat) : option T :=
    option_map (fun x => nsqrt O (ndiv O x (nofnat O n))) v.

  (* the returned dictionary: mean, variance, std_error, num_samples *)
  Definition result : Type := (T * option T * option T * nat)%type.

  Definition finish (s : stat) : result :=
    let '(m, v, n) := s in (m, v, std_error v n, n).

  (* ObservableBase.statistics_from_samples on the observable values of a batch *)
  Definition statistics_from_samples (vals : list T) : result := finish (stats vals).

  (* ---- the schedule of ObservableBase.statistics / System.statistics (pure nat) ---- *)

  (* int(np.ceil(a / b)) for b > 0 *)
  Definition ceil_div (a b : nat) : nat := (a + (b - 1)) / b.

  (* number of parallel chains: len(initial_state) if given, else
     min(num_chains, num_samples) if num_chains != 0 else num_samples *)
  Definition num_chains_eff (init_len : option nat) (num_chains num_samples : nat) : nat :=
    match init_len with
    | Some l => l
    | None => if num_chains =? 0 then num_samples else Nat.min num_chains num_samples
    end.

  Definition num_draws (num_samples chains : nat) : nat := ceil_div num_samples chains.

  (* num_gibbs_steps = burn_in if i == 0 else steps *)
  Definition k_at (burn_in steps i : nat) : nat := if i =? 0 then burn_in else steps.

  Definition k_schedule (burn_in steps draws : nat) : list nat :=
    map (k_at burn_in steps) (seq 0 draws).

  (* which tensor object the first sample() call receives as initial_state:
     nothing / the caller's own tensor (overwrite) / a private clone of it *)
  Inductive init_kind := InitNone | InitCaller | InitClone.

  Definition first_init_kind (has_init overwrite : bool) : init_kind :=
    if has_init then (if overwrite then InitCaller else InitClone) else InitNone.

  Section Run.
    Context {C : Type}.                       (* chain states: a batch of visible configurations *)
    Variable clen : C -> nat.                 (* len(initial_state) *)
    Variable samp : nat -> nat -> nat -> option C -> C.
        (* samp i k num_samples initial_state: the states returned by the i-th sample() call *)

    Record call := mkCall { c_k : nat; c_n : nat; c_init : option C; c_ret : C }.

    (* for i in range(num_time_steps): chains = nn_state.sample(num_samples=num_chains,
         k=burn_in if i == 0 else steps, initial_state=chains, overwrite=True) *)
    Fixpoint draw_loop (n i burn_in steps chains : nat) (cur : option C) : list call :=
      match n with
      | 0 => []
      | S n' =>
          let k := k_at burn_in steps i in
          let r := samp i k chains cur in
          mkCall k chains cur r :: draw_loop n' (S i) burn_in steps chains (Some r)
      end.

    Definition chains_of (init : option C) (num_chains num_samples : nat) : nat :=
      num_chains_eff (option_map clen init) num_chains num_samples.

    (* the sequence of sample() calls made by statistics(); a clone has the same values, so
       at the level of values the first initial_state is [init] whether or not overwrite is set *)
    Definition trace (init : option C) (num_samples num_chains burn_in steps : nat) : list call :=
      let chains := chains_of init num_chains num_samples in
      draw_loop (num_draws num_samples chains) 0 burn_in steps chains init.

    (* sample_stats = statistics_from_samples(chains); merged with len_b = num_chains *)
    Definition chunk_of (obs : C -> list T) (chains : nat) (c : C) : stat :=
      let xs := obs c in (mean O xs, variance xs, chains).

    Definition running (obs : C -> list T) (chains : nat) (tr : list call) : stat :=
      fold_left (fun run cl => update_statistics run (chunk_of obs chains (c_ret cl))) tr init_stat.

    (* ObservableBase.statistics *)
    Definition statistics (obs : C -> list T) (init : option C)
               (num_samples num_chains burn_in steps : nat) : result :=
      let chains := chains_of init num_chains num_samples in
      finish (running obs chains (trace init num_samples num_chains burn_in steps)).

    (* the caller's initial_state tensor after the call: sample(..., overwrite=True) writes the
       new chain states into the tensor it is given, so with overwrite the caller's tensor holds
       the states of the last draw; otherwise the draws work on the clone *)
    Definition caller_tensor_after (overwrite : bool) (init : C) (tr : list call) : C :=
      if overwrite then last (map c_ret tr) init else init.

    (* System.statistics: per draw, every observable is merged with the same total_samples,
       which is increased after the inner loop *)
    Definition sys_state : Type := (list (T * option T) * nat)%type.

    Definition sys_step (obss : list (C -> list T)) (chains : nat) (st : sys_state) (cl : call)
      : sys_state :=
      let '(mvs, total) := st in
      (map (fun p : (C -> list T) * (T * option T) =>
              let '(obs, (m, v)) := p in
              let '(m', v', _) := update_statistics (m, v, total) (chunk_of obs chains (c_ret cl)) in
              (m', v'))
           (combine obss mvs),
       total + chains).

    Definition sys_running (obss : list (C -> list T)) (chains : nat) (tr : list call) : sys_state :=
      fold_left (sys_step obss chains) tr (map (fun _ => (n0 O, Some (n0 O))) obss, 0).

    Definition system_statistics (obss : list (C -> list T)) (init : option C)
               (num_samples num_chains burn_in steps : nat) : list result :=
      let chains := chains_of init num_chains num_samples in
      let '(mvs, total) := sys_running obss chains (trace init num_samples num_chains burn_in steps) in
      map (fun mv : T * option T => let '(m, v) := mv in (m, v, std_error v total, total)) mvs.
  End Run.
End Stats.
