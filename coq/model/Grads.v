(* Grads.v — the gradient layer of QuCumber (C03).  EXECUTABLE DEFINITIONS ONLY.
   Mirrors
     utils/gradients_utils.py      vector_to_grads  (and torch's parameters_to_vector)
     rbm/purification_rbm.py       gamma_grad
     nn_states/density_matrix.py   pi_grad, am_grads, ph_grads, rotated_gradient
     nn_states/complex_wavefunction.py  am_grads, ph_grads, rotated_gradient
     nn_states/neural_state.py     gradient (grouping by unique basis), positive_phase_gradients,
                                   compute_exact_gradients
     nn_states/positive_wavefunction.py gradient / positive_phase_gradients / compute_exact_grads wrappers
   The per-row energy gradients (effective_energy_gradient, reduce / no reduce) are in Rbm.v.
   Gradient vectors are flat lists in the order [W ; (U) ; b ; c ; (d)], matrices row major —
   the order of nn.Module.parameters() (registration order), see the Layout section. *)
From Coq Require Import List ZArith NArith Bool Arith.
From QModel Require Import Num Bits Rbm States CBase Unitaries.
Import ListNotations.

(* ------------------------------------------------------------------------------------------
   Layout: parameters_to_vector / vector_to_grads over a list of parameter tensors.
   Polymorphic in the element type (no arithmetic is involved). *)
Section Layout.
  Context {A : Type}.

  Inductive ptensor := PM (m : list (list A)) | PV (v : list A).
  Inductive pshape := SM (r c : nat) | SV (n : nat).

  (* param.size() *)
  Definition shape_of (p : ptensor) : pshape :=
    match p with
    | PM m => SM (length m) (length (hd [] m))
    | PV v => SV (length v)
    end.
  (* param.numel() *)
  Definition numel (s : pshape) : nat := match s with SM r c => r * c | SV n => n end.

  (* tensor.view(-1): row major *)
  Definition flat1 (p : ptensor) : list A := match p with PM m => concat m | PV v => v end.
  (* torch.nn.utils.parameters_to_vector: concatenation in iteration order *)
  Definition parameters_to_vector (ps : list ptensor) : list A := flat_map flat1 ps.

  (* vec.view(r, c): r consecutive rows of c entries *)
  Fixpoint chunk (r c : nat) (v : list A) : list (list A) :=
    match r with
    | O => []
    | S r' => firstn c v :: chunk r' c (skipn c v)
    end.
  Definition view (s : pshape) (v : list A) : ptensor :=
    match s with SM r c => PM (chunk r c v) | SV _ => PV v end.

  (* vector_to_grads: pointer walks over the vector; each parameter receives
     vec[pointer : pointer + numel].view(param.size()) *)
  Fixpoint vector_to_grads (shapes : list pshape) (vec : list A) : list ptensor :=
    match shapes with
    | [] => []
    | s :: rest => view s (firstn (numel s) vec) :: vector_to_grads rest (skipn (numel s) vec)
    end.

  (* a matrix all of whose rows have the length of the first one *)
  Definition wf_tensor (p : ptensor) : Prop :=
    match p with PM m => Forall (fun row => length row = length (hd [] m)) m | PV _ => True end.

  (* plain splitting of a vector into consecutive blocks of given sizes *)
  Fixpoint split_blocks (sizes : list nat) (vec : list A) : list (list A) :=
    match sizes with
    | [] => []
    | n :: rest => firstn n vec :: split_blocks rest (skipn n vec)
    end.
End Layout.
Arguments ptensor : clear implicits.

Section Grads.
  Context {T : Type} (O : NumOps T).
  Local Notation cx := (cx (T:=T)).
  Local Notation "x + y" := (nadd O x y).
  Local Notation "x - y" := (nsub O x y).
  Local Notation "x * y" := (nmul O x y).
  Local Notation "x / y" := (ndiv O x y).
  Local Notation "- x" := (nopp O x).

  (* ---------------- parameters() of the two RBM modules, in registration order -------------- *)
  Definition b_params (r : brbm (T:=T)) : list (ptensor T) := [PM (bW r); PV (bb r); PV (bc r)].
  Definition p_params (r : prbm (T:=T)) : list (ptensor T) :=
    [PM (pW r); PM (pU r); PV (pb r); PV (pc r); PV (pd r)].
  Definition b_flatten (r : brbm) : list T := parameters_to_vector (b_params r).
  Definition p_flatten (r : prbm) : list T := parameters_to_vector (p_params r).
  Definition b_shapes (nh nv : nat) : list pshape := [SM nh nv; SV nv; SV nh].
  Definition p_shapes (nh na nv : nat) : list pshape := [SM nh nv; SM na nv; SV nv; SV nh; SV na].

  (* reading a flat vector back as a network (what vector_to_grads writes into .grad, and what
     "parameter number k" means) *)
  Definition b_of_vec (nh nv : nat) (vec : list T) : brbm :=
    match vector_to_grads (b_shapes nh nv) vec with
    | [PM w; PV b; PV c] => mkB w b c
    | _ => mkB [] [] []
    end.
  Definition p_of_vec (nh na nv : nat) (vec : list T) : prbm :=
    match vector_to_grads (p_shapes nh na nv) vec with
    | [PM w; PM u; PV b; PV c; PV d] => mkP w u b c d
    | _ => mkP [] [] [] [] []
    end.

  (* ---------------- small vector helpers ---------------- *)
  Definition vzero (n : nat) : list T := repeat (n0 O) n.
  Definition cvzero (n : nat) : list cx := repeat (c0 O) n.
  Fixpoint cvsum (n : nat) (rows : list (list cx)) : list cx :=
    match rows with [] => cvzero n | x :: r => cvadd O x (cvsum n r) end.
  Definition pt5 : T := n1 O / two O.                         (* the literal 0.5 *)
  Definition eps8 : T := n1 O / nofZ O 100000000%Z.           (* the literal 1e-8 *)
  Definition sg (plus : bool) (x : T) : T := if plus then x else - x.   (* np.sign(eta) * x *)
  Definition bvec (v : bits) : list T := map (b2t O) v.

  (* ---------------- PurificationRBM.gamma_grad (real part; the imaginary part is zeros) ------
     one (v, vp) pair; expand=True puts pair (i, j) at [i][j], expand=False pairs row i with row i *)
  Definition half_comb (plus : bool) (a b : list T) : list T :=
    map (fun p => pt5 * (fst p + sg plus (snd p))) (combine a b).

  Definition p_gamma_grad (r : prbm) (plus : bool) (v vp : bits) : list T :=
    let ph := p_prob_h_given_v O r v in
    let php := p_prob_h_given_v O r vp in
    half_comb plus (outerb O ph v) (outerb O php vp)
    ++ vzero (length (concat (pU r)))
    ++ half_comb plus (bvec v) (bvec vp)
    ++ half_comb plus ph php
    ++ vzero (length (pd r)).

  (* ---------------- DensityMatrix.pi_grad ---------------- *)
  (* cplx.sigmoid(x, y) = exp(z) / (1 + exp(z)),  z = x + i y *)
  Definition csigmoid (x y : T) : cx :=
    let e : cx := (nexp O x * ncos O y, nexp O x * nsin O y) in
    cdiv O e (cadd O (c1 O) e).

  (* mixing_term(x) = F.linear(x, 0.5 * U, d) for a real vector x *)
  Definition mixing_term (r : prbm) (x : list T) : list T :=
    map (fun p => dot O x (map (fun u => pt5 * u) (fst p)) + snd p) (combine (pU r) (pd r)).

  Definition pi_grad_args (am ph : prbm) (expand : bool) (v vp : bits) : list (T * T) :=
    if expand then
      combine (map (fun x => pt5 * x) (vadd O (linearb O (pU am) (pd am) v) (linearb O (pU am) (pd am) vp)))
              (map (fun x => pt5 * x) (vsub O (matvecb O (pU ph) v) (matvecb O (pU ph) vp)))
    else
      combine (mixing_term am (vadd O (bvec v) (bvec vp)))
              (mixing_term ph (vsub O (bvec v) (bvec vp))).

  Definition p_pi_grad (am ph : prbm) (phase expand : bool) (v vp : bits) : list cx :=
    let sig0 := map (fun xy => csigmoid (fst xy) (snd xy)) (pi_grad_args am ph expand v vp) in
    let sig := if phase then map (fun z => cmul O z (ci O)) sig0 else sig0 in
    let temp := if phase then vsub O (bvec v) (bvec vp) else vadd O (bvec v) (bvec vp) in
    cvzero (length (concat (pW am)))
    ++ flat_map (fun s => map (fun tk => (pt5 * (fst s * tk), pt5 * (snd s * tk))) temp) sig
    ++ cvzero (length (pb am))
    ++ cvzero (length (pc am))
    ++ (if phase then cvzero (length (pd ph)) else sig).

  (* DensityMatrix.am_grads / ph_grads at the pair (v_i, v_j) *)
  Definition dm_am_grads (am ph : prbm) (vi vj : bits) : list cx :=
    cvadd O (map (cofR O) (p_gamma_grad am true vi vj)) (p_pi_grad am ph false true vi vj).
  Definition dm_ph_grads (am ph : prbm) (vi vj : bits) : list cx :=
    cvadd O (map (fun x => cmul O (cofR O x) (ci O)) (p_gamma_grad ph false vi vj))
            (p_pi_grad am ph true true vi vj).

  (* ComplexWaveFunction.am_grads / ph_grads for one state *)
  Definition cw_am_grads (am : brbm) (v : bits) : list cx := map (cofR O) (b_energy_grad O am v).
  Definition cw_ph_grads (ph : brbm) (v : bits) : list cx :=
    map (fun x => cmul O (cofR O x) (ci O)) (b_energy_grad O ph v).

  (* ---------------- rotated_gradient, one measured outcome ---------------- *)
  (* pure:  Upsi_v[i] = Ut(v_i) psi(v_i);  Upsi = sum_i;  grad[g] = Re( inverse(Upsi) * sum_i Upsi_v[i] raw[i][g] ) *)
  Definition cw_rot_with (am ph : brbm) (user : list umat) (basis : list letter) (s : bits)
             (n : nat) (raw : bits -> list cx) : list T :=
    let vs := expansions basis s in
    let term v := cmul O (ut_coeff O user basis s v) (cplx_psi O am ph v) in
    let upsi := csum O (map term vs) in
    let rg := cvsum n (map (fun v => map (cmul O (term v)) (raw v)) vs) in
    map (fun z => fst (cmul O (cinv O upsi) z)) rg.

  Definition cw_rot1 (am ph : brbm) (user : list umat) (basis : list letter) (s : bits) : list T * list T :=
    (cw_rot_with am ph user basis s (b_num_pars am) (cw_am_grads am),
     cw_rot_with am ph user basis s (b_num_pars ph) (cw_ph_grads ph)).

  (* mixed: UrhoU_v[i][j] = Ut(v_i) conj(Ut(v_j)) rho(v_i, v_j);  P = sum_ij Re;
     grad[g] = (1 / (P + 1e-8)) * ( - sum_ij Re( UrhoU_v[i][j] raw[i][j][g] ) ) *)
  Definition dm_weight (am ph : prbm) (user : list umat) (basis : list letter) (s vi vj : bits) : cx :=
    cmul O (cmul O (ut_coeff O user basis s vi) (cconj O (ut_coeff O user basis s vj))) (dm_rho O am ph vi vj).

  Definition dm_rot_with (am ph : prbm) (user : list umat) (basis : list letter) (s : bits)
             (n : nat) (raw : bits -> bits -> list cx) : list T :=
    let vs := expansions basis s in
    let P := rho_prob1 O user basis (dm_rho O am ph) s in
    let inv := n1 O / (P + eps8) in
    let rg := vsum O n (map (fun vi => vsum O n (map (fun vj =>
                 map (fun z => fst (cmul O (dm_weight am ph user basis s vi vj) z)) (raw vi vj)) vs)) vs) in
    map (fun x => inv * (- x)) rg.

  Definition dm_rot1 (am ph : prbm) (user : list umat) (basis : list letter) (s : bits) : list T * list T :=
    (dm_rot_with am ph user basis s (p_num_pars am) (dm_am_grads am ph),
     dm_rot_with am ph user basis s (p_num_pars ph) (dm_ph_grads am ph)).

  (* ---------------- NeuralStateBase.gradient ---------------- *)
  (* a state type, as far as [gradient] is concerned *)
  Record gstate := mkG {
    g_nam : nat;                                   (* rbm_am.num_pars *)
    g_nph : nat;                                   (* rbm_ph.num_pars *)
    g_egrad : bits -> list T;                      (* rbm_am.effective_energy_gradient, one row *)
    g_rot1 : list letter -> bits -> list T * list T;   (* rotated_gradient, one row *)
    g_prob : bits -> T }.                          (* probability(v, Z=1) *)

  Definition cw_gstate (am ph : brbm) (user : list umat) : gstate :=
    mkG (b_num_pars am) (b_num_pars ph) (b_energy_grad O am) (cw_rot1 am ph user)
        (fun v => probability O am v (n1 O)).
  Definition dm_gstate (am ph : prbm) (user : list umat) : gstate :=
    mkG (p_num_pars am) (p_num_pars ph) (p_energy_grad O am) (dm_rot1 am ph user)
        (fun v => dm_probability O am v (n1 O)).

  Section Generic.
    Variable G : gstate.

    (* effective_energy_gradient(samples) (reduce=True) *)
    Definition egrad_batch (vs : list bits) : list T := vsum O (g_nam G) (map (g_egrad G) vs).

    (* rotated_gradient(basis, samples): the einsum over the batch index sums the rows *)
    Definition rotated_gradient (basis : list letter) (samples : list bits) : list T * list T :=
      (vsum O (g_nam G) (map (fun s => fst (g_rot1 G basis s)) samples),
       vsum O (g_nph G) (map (fun s => snd (g_rot1 G basis s)) samples)).

    (* one basis group: all-Z rows take the energy-gradient path and contribute 0.0 to the phase net *)
    Definition group_grad (g : list letter * list bits) : list T * list T :=
      if forallb is_Z (fst g) then (egrad_batch (snd g), vzero (g_nph G))
      else rotated_gradient (fst g) (snd g).

    (* accumulation over an arbitrary list of groups *)
    Definition gradient_groups (groups : list (list letter * list bits)) : list T * list T :=
      (vsum O (g_nam G) (map (fun g => fst (group_grad g)) groups),
       vsum O (g_nph G) (map (fun g => snd (group_grad g)) groups)).
  End Generic.

  (* np.unique(bases, axis=0, return_inverse=True): sorted distinct rows; group i holds the rows
     whose basis is unique_bases[i], in batch order *)
  Definition letter_rank (a : letter) : nat :=
    match a with LX => 0 | LY => 1 | LZ => 2 | LU k => 3 + k end.
  Fixpoint basis_cmp (a b : list letter) : comparison :=
    match a, b with
    | [], [] => Eq
    | [], _ => Lt
    | _, [] => Gt
    | x :: a', y :: b' =>
        match Nat.compare (letter_rank x) (letter_rank y) with
        | Eq => basis_cmp a' b'
        | c => c
        end
    end.
  Fixpoint insert_unique (x : list letter) (l : list (list letter)) : list (list letter) :=
    match l with
    | [] => [x]
    | y :: r =>
        match basis_cmp x y with
        | Lt => x :: y :: r
        | Eq => y :: r
        | Gt => y :: insert_unique x r
        end
    end.
  Definition unique_sorted (l : list (list letter)) : list (list letter) :=
    fold_right insert_unique [] l.
  Definition basis_eqb (a b : list letter) : bool :=
    match basis_cmp a b with Eq => true | _ => false end.
  Definition unique_groups (batch : list (list letter * bits)) : list (list letter * list bits) :=
    map (fun u => (u, map snd (filter (fun x => basis_eqb u (fst x)) batch)))
        (unique_sorted (map fst batch)).

  (* gradient(samples, bases): batch = rows (basis_s, sample_s);
     the 1-D call form is the batch of one row *)
  Definition gradient (G : gstate) (batch : list (list letter * bits)) : list T * list T :=
    gradient_groups G (unique_groups batch).

  Definition div_len (n : nat) (g : list T) : list T := map (fun x => x / nofnat O n) g.

  Definition positive_phase_gradients (G : gstate) (batch : list (list letter * bits)) : list T * list T :=
    let g := gradient G batch in
    (div_len (length batch) (fst g), div_len (length batch) (snd g)).

  (* negative phase:  probs = probability(space, Z=1); probs /= probs.sum();
     mv(effective_energy_gradient(space, reduce=False).t(), probs) *)
  Definition neg_phase (G : gstate) (space : list bits) : list T :=
    let Z := sum O (map (g_prob G) space) in
    vsum O (g_nam G) (map (fun v => vscale O (g_prob G v / Z) (g_egrad G v)) space).

  Definition compute_exact_gradients (G : gstate) (batch : list (list letter * bits)) (space : list bits)
    : list T * list T :=
    let g := positive_phase_gradients G batch in
    (vsub O (fst g) (neg_phase G space), snd g).

  (* ---------------- PositiveWaveFunction (bases ignored; a single network) ---------------- *)
  Definition pos_gradient (am : brbm) (samples : list bits) : list T := b_energy_grad_batch O am samples.
  Definition pos_positive_phase (am : brbm) (samples : list bits) : list T :=
    div_len (length samples) (pos_gradient am samples).
  Definition pos_neg_phase (am : brbm) (space : list bits) : list T :=
    let Z := sum O (map (fun v => probability O am v (n1 O)) space) in
    vsum O (b_num_pars am) (map (fun v => vscale O (probability O am v (n1 O) / Z) (b_energy_grad O am v)) space).
  Definition pos_compute_exact_gradients (am : brbm) (samples space : list bits) : list T :=
    vsub O (pos_positive_phase am samples) (pos_neg_phase am space).
  (* the public alias (as repaired in /repo commit 96abd9c): forwards to compute_exact_gradients *)
  Definition pos_compute_exact_grads (am : brbm) (samples space : list bits) : list T :=
    pos_compute_exact_gradients am samples space.
End Grads.

Arguments mkG {T}. Arguments g_nam {T}. Arguments g_nph {T}. Arguments g_egrad {T}.
Arguments g_rot1 {T}. Arguments g_prob {T}.
