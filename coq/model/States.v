(* States.v — PositiveWaveFunction, ComplexWaveFunction (nn_states/*wavefunction.py)
   and DensityMatrix (nn_states/density_matrix.py): amplitude, phase, psi, probability,
   normalization; pi, rho.  Complex numbers are pairs (re, im). *)
From Coq Require Import List ZArith Bool.
From QModel Require Import Num Bits Rbm.
Import ListNotations.

Section States.
  Context {T : Type} (O : NumOps T).
  Local Notation "x + y" := (nadd O x y).
  Local Notation "x - y" := (nsub O x y).
  Local Notation "x * y" := (nmul O x y).
  Local Notation "x / y" := (ndiv O x y).
  Local Notation "- x" := (nopp O x).

  (* ---------- wavefunctions ---------- *)
  (* amplitude(v) = sqrt(exp(-E_am(v))) *)
  Definition amplitude (am : brbm (T:=T)) (v : bits) : T :=
    nsqrt O (nexp O (- (b_eff_energy O am v))).

  (* PositiveWaveFunction: phase = 0, psi = (amplitude, 0) *)
  Definition pos_phase (v : bits) : T := n0 O.
  Definition pos_psi (am : brbm) (v : bits) : T * T := (amplitude am v, n0 O).

  (* ComplexWaveFunction: phase = -0.5 * E_ph(v); psi = amp * (cos phase, sin phase) *)
  Definition cplx_phase (ph : brbm (T:=T)) (v : bits) : T :=
    nmul O (- (half O (n1 O))) (b_eff_energy O ph v).
  Definition cplx_psi (am ph : brbm) (v : bits) : T * T :=
    let a := amplitude am v in let p := cplx_phase ph v in
    (a * ncos O p, a * nsin O p).

  (* probability(v, Z) = exp(-E_am(v)) / Z *)
  Definition probability (am : brbm (T:=T)) (v : bits) (Z : T) : T :=
    nexp O (- (b_eff_energy O am v)) / Z.
  Definition normalization (am : brbm) (space : list bits) : T := b_partition O am space.

  (* ---------- density matrix ---------- *)
  (* pi(v, vp): per auxiliary unit k
       x_k = (U_am v + d + U_am vp + d)_k / 2,   y_k = (U_ph v - U_ph vp)_k / 2
       real = sum_k log sqrt(1 + 2 e^x cos y + e^{2x}),  imag = sum_k atan2(e^x sin y, 1 + e^x cos y) *)
  Definition pi_args (am ph : prbm (T:=T)) (v vp : bits) : list (T * T) :=
    let m_am := linearb O (pU am) (pd am) v in
    let mp_am := linearb O (pU am) (pd am) vp in
    let m_ph := matvecb O (pU ph) v in
    let mp_ph := matvecb O (pU ph) vp in
    combine (map (half O) (vadd O m_am mp_am)) (map (half O) (vsub O m_ph mp_ph)).

  Definition pi_real1 (xy : T * T) : T :=
    let (x, y) := xy in
    nln O (nsqrt O ((n1 O + (two O * nexp O x) * ncos O y) + nexp O (two O * x))).
  Definition pi_imag1 (xy : T * T) : T :=
    let (x, y) := xy in
    natan2 O (nexp O x * nsin O y) (n1 O + nexp O x * ncos O y).

  Definition dm_pi (am ph : prbm) (v vp : bits) : T * T :=
    let a := pi_args am ph v vp in
    (sum O (map pi_real1 a), sum O (map pi_imag1 a)).

  (* rho(v, vp) = exp(gamma+_am + Re pi) * (cos, sin)(gamma-_ph + Im pi) *)
  Definition dm_rho (am ph : prbm) (v vp : bits) : T * T :=
    let p := dm_pi am ph v vp in
    let amp := nexp O (p_gamma O am true v vp + fst p) in
    let phase := p_gamma O ph false v vp + snd p in
    (amp * ncos O phase, amp * nsin O phase).

  (* rho(v, expand=False) with vp=None: the diagonal shortcut = (probability(v), 0) *)
  Definition dm_probability (am : prbm (T:=T)) (v : bits) (Z : T) : T :=
    nexp O (- (p_eff_energy O am v)) / Z.
  Definition dm_rho_diag (am : prbm) (v : bits) : T * T := (dm_probability am v (n1 O), n0 O).
  Definition dm_normalization (am : prbm) (space : list bits) : T := p_partition O am space.

  (* full matrix rho(space, space), row major *)
  Definition dm_rho_matrix (am ph : prbm) (space : list bits) : list (list (T * T)) :=
    map (fun v => map (fun vp => dm_rho am ph v vp) space) space.
End States.
