(* CBase.v — complex scalars as pairs (re, im) over the number type; the scalar layer
   under Cplx.v (tensor-level mirror of utils/cplx.py) and Unitaries.v. *)
From Coq Require Import List ZArith Bool.
From QModel Require Import Num.
Import ListNotations.

Section CBase.
  Context {T : Type} (O : NumOps T).
  Definition cx := (T * T)%type.
  Definition c0 : cx := (n0 O, n0 O).
  Definition c1 : cx := (n1 O, n0 O).
  Definition ci : cx := (n0 O, n1 O).
  Definition cofR (x : T) : cx := (x, n0 O).
  Definition cadd (a b : cx) : cx := (nadd O (fst a) (fst b), nadd O (snd a) (snd b)).
  Definition csub (a b : cx) : cx := (nsub O (fst a) (fst b), nsub O (snd a) (snd b)).
  Definition copp (a : cx) : cx := (nopp O (fst a), nopp O (snd a)).
  (* (ar*br - ai*bi, ar*bi + ai*br): the formula of cplx.scalar_mult / matmul / einsum *)
  Definition cmul (a b : cx) : cx :=
    (nsub O (nmul O (fst a) (fst b)) (nmul O (snd a) (snd b)),
     nadd O (nmul O (fst a) (snd b)) (nmul O (snd a) (fst b))).
  Definition cconj (a : cx) : cx := (fst a, nopp O (snd a)).
  Definition cscale (x : T) (a : cx) : cx := (nmul O x (fst a), nmul O x (snd a)).
  Definition cnorm2 (a : cx) : T := nadd O (nmul O (fst a) (fst a)) (nmul O (snd a) (snd a)).
  Definition cabs (a : cx) : T := nsqrt O (cnorm2 a).
  (* inverse(z) = conj(z) / |z|^2 *)
  Definition cinv (a : cx) : cx :=
    let d := cnorm2 a in (ndiv O (fst a) d, ndiv O (nopp O (snd a)) d).
  Definition cdiv (a b : cx) : cx := cmul a (cinv b).
  Definition cexp_i (p : T) : cx := (ncos O p, nsin O p).
  Fixpoint csum (xs : list cx) : cx :=
    match xs with [] => c0 | x :: r => cadd x (csum r) end.
  Fixpoint cprod (xs : list cx) : cx :=
    match xs with [] => c1 | x :: r => cmul x (cprod r) end.
  Fixpoint cdot (xs ys : list cx) : cx :=        (* no conjugation *)
    match xs, ys with x :: xs', y :: ys' => cadd (cmul x y) (cdot xs' ys') | _, _ => c0 end.
  Definition cvadd (xs ys : list cx) : list cx := map (fun p => cadd (fst p) (snd p)) (combine xs ys).
  Definition cvscale (a : cx) (xs : list cx) : list cx := map (cmul a) xs.
End CBase.
