(* CDStep.v — one training step of NeuralStateBase.fit (nn_states/neural_state.py):
     compute_batch_gradients   (positive phase minus Gibbs-sampled negative phase / |neg_batch|)
     vector_to_grads           (utils/gradients_utils.py: pointer-sliced flat vector -> .grad of each parameter)
     torch.optim.SGD.step      (theta <- theta - lr * grad, plain SGD)
     the batch / epoch loops   (one optimizer step per batch, one scheduler step per epoch)
     StepLR                    (the recording scheduler used by the check)
   EXECUTABLE DEFINITIONS ONLY.  The Gibbs end state [vk] and the positive-phase gradient
   vectors are INPUTS (they are produced by code that C05 / C03 are about). *)
From Coq Require Import List ZArith Bool Arith.
From QModel Require Import Num Bits Rbm.
Import ListNotations.

(* param.size(): every parameter of the two RBM classes is a vector or a matrix *)
Inductive shape := SVec (n : nat) | SMat (r c : nat).

(* param.numel() *)
Definition numel (s : shape) : nat := match s with SVec n => n | SMat r c => r * c end.

(* parameters() registration order of BinaryRBM / PurificationRBM *)
Definition b_shapes (nv nh : nat) : list shape := [SMat nh nv; SVec nv; SVec nh].
Definition p_shapes (nv nh na : nat) : list shape := [SMat nh nv; SMat na nv; SVec nv; SVec nh; SVec na].

(* events seen by the optimizer / scheduler objects handed to fit *)
Inductive ev := EvOpt | EvSched.

Section CDStep.
  Context {T : Type} (O : NumOps T).

  (* ------------------------------------------------------------------ *)
  (* compute_batch_gradients                                             *)
  (* ------------------------------------------------------------------ *)

  (* tensor / python-float *)
  Definition vdivs (xs : list T) (d : T) : list T := map (fun x => ndiv O x d) xs.

  (* grad_model / float(neg_batch.shape[0]) : the divisor is the NEGATIVE batch size *)
  Definition cd_negative (grad_model : list T) (neg : list bits) : list T :=
    vdivs grad_model (nofnat O (length neg)).

  (* grad[0] -= negative ; the other entries of the list (the phase network) are untouched.
     [pos] = positive_phase_gradients(samples_batch, bases_batch): one vector per network. *)
  Definition cd_apply (pos : list (list T)) (negative : list T) : list (list T) :=
    match pos with
    | [] => []
    | g0 :: rest => vsub O g0 negative :: rest
    end.

  (* amplitude network = BinaryRBM (PositiveWaveFunction, ComplexWaveFunction) *)
  Definition cbg_binary (am : brbm (T:=T)) (pos : list (list T)) (neg vk : list bits) : list (list T) :=
    cd_apply pos (cd_negative (b_energy_grad_batch O am vk) neg).

  (* amplitude network = PurificationRBM (DensityMatrix) *)
  Definition cbg_purification (am : prbm (T:=T)) (pos : list (list T)) (neg vk : list bits) : list (list T) :=
    cd_apply pos (cd_negative (p_energy_grad_batch O am vk) neg).

  (* ------------------------------------------------------------------ *)
  (* vector_to_grads                                                     *)
  (* ------------------------------------------------------------------ *)
  Inductive tensor := TVec (xs : list T) | TMat (rows : list (list T)).

  (* row-major flattening (Tensor.view(-1)) *)
  Definition tflatten (t : tensor) : list T :=
    match t with TVec xs => xs | TMat rows => concat rows end.

  (* r rows of c consecutive entries *)
  Fixpoint chunks (c r : nat) (xs : list T) : list (list T) :=
    match r with
    | 0 => []
    | S r' => firstn c xs :: chunks c r' (skipn c xs)
    end.

  (* slice.view(param.size()) *)
  Definition view (s : shape) (xs : list T) : tensor :=
    match s with SVec _ => TVec xs | SMat r c => TMat (chunks c r xs) end.

  (* the loop of vector_to_grads: [pointer] runs over the flat vector; a slice that is too
     short cannot be viewed with the parameter's size (torch raises): None.  Surplus entries
     at the end of [vec] are silently ignored, as in the code. *)
  Fixpoint v2g_from (pointer : nat) (vec : list T) (shapes : list shape) : option (list tensor) :=
    match shapes with
    | [] => Some []
    | s :: rest =>
        let sl := firstn (numel s) (skipn pointer vec) in
        if Nat.eqb (length sl) (numel s) then
          match v2g_from (pointer + numel s) vec rest with
          | Some ts => Some (view s sl :: ts)
          | None => None
          end
        else None
    end.

  Definition vector_to_grads (vec : list T) (shapes : list shape) : option (list tensor) :=
    v2g_from 0 vec shapes.

  (* for i, net in enumerate(self.networks): vector_to_grads(all_grads[i], rbm.parameters()) *)
  Fixpoint assign_grads (all_grads : list (list T)) (net_shapes : list (list shape)) {struct net_shapes}
    : option (list (list tensor)) :=
    match net_shapes with
    | [] => Some []
    | sh :: rest =>
        match all_grads with
        | [] => None                       (* all_grads[i] : IndexError *)
        | g :: gs =>
            match vector_to_grads g sh, assign_grads gs rest with
            | Some ts, Some tss => Some (ts :: tss)
            | _, _ => None
            end
        end
    end.

  (* ------------------------------------------------------------------ *)
  (* plain SGD                                                           *)
  (* ------------------------------------------------------------------ *)
  Definition sgd_step (lr : T) (theta g : list T) : list T :=
    map (fun p => nsub O (fst p) (nmul O lr (snd p))) (combine theta g).

  Definition sgd_tensor (lr : T) (t g : tensor) : tensor :=
    match t, g with
    | TVec x, TVec y => TVec (sgd_step lr x y)
    | TMat x, TMat y => TMat (map (fun p => sgd_step lr (fst p) (snd p)) (combine x y))
    | _, _ => t
    end.

  (* optimizer.step(): every parameter with its own .grad *)
  Definition sgd_params (lr : T) (ts gs : list tensor) : list tensor :=
    map (fun p => sgd_tensor lr (fst p) (snd p)) (combine ts gs).

  (* one batch of fit for one network, on structured parameters:
     vector_to_grads then optimizer.step *)
  Definition batch_update (lr : T) (params : list tensor) (shapes : list shape) (g : list T)
    : option (list tensor) :=
    match vector_to_grads g shapes with
    | Some gs => Some (sgd_params lr params gs)
    | None => None
    end.

  (* ------------------------------------------------------------------ *)
  (* StepLR(step_size, gamma): lr after n scheduler steps                *)
  (* ------------------------------------------------------------------ *)
  Fixpoint steplr (lr0 gamma : T) (step_size n : nat) : T :=
    match n with
    | 0 => lr0
    | S m =>
        let prev := steplr lr0 gamma step_size m in
        if Nat.eqb (Nat.modulo (S m) step_size) 0 then nmul O prev gamma else prev
    end.

  (* ------------------------------------------------------------------ *)
  (* the batch loop and the epoch loop of fit, as a counting machine.    *)
  (*   B      : whatever a batch consists of                             *)
  (*   G b th : the flat gradient vector handed to the optimizer for     *)
  (*            batch b when the parameters are th                       *)
  (*   sched n: the learning rate after n scheduler steps                *)
  (* ------------------------------------------------------------------ *)
  Section Machine.
    Context {B : Type} (G : B -> list T -> list T).

    (* returns (theta, number of optimizer steps, log of (lr, grad) used at every step) *)
    Fixpoint run_batches (lr : T) (theta : list T) (nopt : nat) (bs : list B)
      : list T * nat * list (T * list T) :=
      match bs with
      | [] => (theta, nopt, [])
      | b :: r =>
          let g := G b theta in
          let '(th, n, log) := run_batches lr (sgd_step lr theta g) (S nopt) r in
          (th, n, (lr, g) :: log)
      end.

    Record result := mkResult {
      r_theta : list T; r_nopt : nat; r_nsched : nat;
      r_trace : list ev; r_log : list (T * list T) }.

    (* epochs = the batches actually processed in each epoch.
       has_sched = false models scheduler=None (no scheduler step, constant lr = sched nsched) *)
    Fixpoint run_epochs (sched : nat -> T) (has_sched : bool) (theta : list T) (nopt nsched : nat)
             (eps : list (list B)) : result :=
      match eps with
      | [] => mkResult theta nopt nsched [] []
      | bs :: rest =>
          let '(th, n, log) := run_batches (sched nsched) theta nopt bs in
          let ns := if has_sched then S nsched else nsched in
          let r := run_epochs sched has_sched th n ns rest in
          mkResult (r_theta r) (r_nopt r) (r_nsched r)
                   (map (fun _ => EvOpt) log ++ (if has_sched then [EvSched] else []) ++ r_trace r)
                   (log ++ r_log r)
      end.
  End Machine.
End CDStep.

Arguments TVec {T}. Arguments TMat {T}.
Arguments r_theta {T}. Arguments r_nopt {T}. Arguments r_nsched {T}.
Arguments r_trace {T}. Arguments r_log {T}.
