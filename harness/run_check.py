"""run_check.py Cxx [--tier quick|thorough] [--replay FILE] — entry point of every registered check."""
import os, sys, argparse, importlib
sys.path.insert(0, os.path.dirname(os.path.abspath(__file__)))
os.environ.setdefault("PYTHONHASHSEED", "0")


def main():
    ap = argparse.ArgumentParser()
    ap.add_argument("pid")
    ap.add_argument("--tier", default=os.environ.get("VERIF_TIER", "quick"))
    ap.add_argument("--replay", default=None)
    a = ap.parse_args()
    tier = a.tier if a.tier in ("quick", "thorough") else "quick"
    try:
        seed = int(os.environ.get("VERIF_SEED", "0"))
    except ValueError:
        seed = 0
    import common
    mod = importlib.import_module("checks." + a.pid.lower())
    sys.exit(common.run_property(a.pid, mod, tier, seed, a.replay))


if __name__ == "__main__":
    main()
