"""srctie.py — source-translation tie (second tie between /repo and the Coq model, next to the correspondence).

On every run the scalar / decision kernels listed in KERNELS are translated from /repo's CURRENT Python source
(Python `ast`, fail-closed: any construct outside the supported subset makes the kernel "untranslatable") into
Gallina definitions over Z / R / bool / option, and Coq re-proves, for ALL inputs, that each generated definition
equals the hand-written model function the property theorems are about (theory/TieLib.v tactics; the generated
file is coq/generated/SrcTie_<pid>.v, compiled in the run's scratch directory).  A kernel whose theorem checks is
tied to the model for every input, not only for the inputs the correspondence generated.

Supported subset: straight-line code with assignments, augmented assignments, if / else, conditional expressions,
`with` blocks (body only), returns; int / float / bool constants; + - * / // % ** 2, unary minus, not, and / or,
comparisons (chained too), `is None` / `is not None` on optional ints, abs, min, max, float(), int(),
float("nan"), ceil(a / b) / int(np.ceil(a / b)) on ints, np.sqrt, np.float64; names bound by the kernel's
parameter table; attribute reads / calls / subscripts ONLY through the kernel's atom patterns (source templates
with $holes).  `local` kernels take the value of a named local variable at its last assignment (descending into
`for` bodies: the loop variable becomes a free input, every variable assigned in the loop is unknown at its
head); statements that cannot rebind a local name are skipped there and an assignment the translator cannot
express makes that variable unknown (the kernel fails only if the result depends on it).

Trusted: this translator (the meaning it gives to the Python subset: unbounded ints as Z, floats as reals with
nan as None, `/` on ints exact), the kernel table below (which source function corresponds to which model
function, and the atom patterns)."""
import ast, json, os, re, subprocess, time, textwrap

# --------------------------------------------------------------------------- types
Z, F, OF, B, OZ = "Z", "F", "OF", "B", "OZ"
COQTY = {Z: "Z", F: "R", OF: "option R", B: "bool", OZ: "option Z", "LV": "list (list R)",
         # tensor kernels (row-wise semantics, see VecTr): vectors, matrices, 0/1 configurations, complex pairs
         "V": "list R", "M": "list (list R)", "BV": "bits", "OBV": "option bits", "C": "(R * R)", "LBV": "list bits", "MV": "bits", "MASK": "list bool"}


class Untranslatable(Exception):
    pass


class Poison:
    def __init__(self, why):
        self.why = why


BOTTOM = ("BOTTOM", None)       # a path that leaves the kernel (raise / early return in a `local` kernel)


def cty(t):
    if isinstance(t, tuple):
        return "(" + " * ".join(cty(x) for x in t) + ")"
    return COQTY.get(t, t)          # anything else is an opaque Coq type named by the kernel table


def fconst(x):
    if x != x:
        return "None", OF
    if x in (float("inf"), float("-inf")):
        raise Untranslatable("infinite float constant")
    p, q = float(x).as_integer_ratio()
    if q == 1:
        return "(IZR (%d))" % p, F
    return "(Rdiv (IZR (%d)) (IZR (%d)))" % (p, q), F


# --------------------------------------------------------------------------- pattern matching of atoms
def _match(pat, node, binds):
    """structural match of a pattern AST (holes are Names starting with H_) against a node"""
    if isinstance(pat, ast.Name) and pat.id.startswith("H_"):
        binds[pat.id[2:]] = node
        return True
    if type(pat) is not type(node):
        return False
    for f in pat._fields:
        if f in ("ctx", "kind", "type_comment"):
            continue
        a, b = getattr(pat, f, None), getattr(node, f, None)
        if isinstance(a, list):
            if not isinstance(b, list) or len(a) != len(b):
                return False
            for x, y in zip(a, b):
                if isinstance(x, ast.AST):
                    if not _match(x, y, binds):
                        return False
                elif x != y:
                    return False
        elif isinstance(a, ast.AST):
            if not isinstance(b, ast.AST) or not _match(a, b, binds):
                return False
        elif a != b:
            return False
    return True


def parse_pattern(src):
    return ast.parse(src.replace("$", "H_"), mode="eval").body


# --------------------------------------------------------------------------- hygiene of the source around a kernel (fail-closed)
RESERVED_BUILTINS = {"float", "int", "bool", "len", "abs", "min", "max", "slice", "dict", "list", "tuple", "hasattr", "getattr", "setattr", "isinstance",
                     "range", "reversed", "enumerate", "zip", "sum", "ValueError", "TypeError", "RuntimeError", "print", "super", "str", "type"}
MODULE_ALIASES = {"torch", "np", "cplx", "F", "nn", "math"}
DECORATOR_OK = re.compile(r"^(property|staticmethod|classmethod|abc\.abstractmethod|abstractmethod|auto_unsqueeze_args\((\d+(, \d+)*)?\))$")


PURE_FUNCS = {"isinstance", "len", "hasattr", "getattr", "callable", "type", "float", "int", "bool", "abs", "min", "max"}
PURE_METHODS = {"dim", "size", "numel", "keys", "items", "values", "get", "any", "all", "item", "startswith", "endswith", "lower", "upper"}


def effect_free(node):
    """an expression that cannot change anything: no walrus / yield / await, and no call except a few pure builtins and accessors"""
    for n in ast.walk(node):
        if isinstance(n, (ast.NamedExpr, ast.Yield, ast.YieldFrom, ast.Await, ast.Lambda)):
            return False
        if isinstance(n, ast.Call):
            if isinstance(n.func, ast.Name) and n.func.id in PURE_FUNCS:
                continue
            if isinstance(n.func, ast.Attribute) and n.func.attr in PURE_METHODS:
                continue
            return False
    return True


def scope_binders(body):
    """name -> number of binding occurrences in ONE scope (statements of the body, through if / for / while / with / try, not into nested defs or classes)"""
    out = {}
    def add(n):
        out[n] = out.get(n, 0) + 1
    def targets(t):
        for n in ast.walk(t):
            if isinstance(n, ast.Name) and isinstance(n.ctx, (ast.Store, ast.Del)):
                add(n.id)
    def walk(stmts):
        for st in stmts:
            if isinstance(st, (ast.FunctionDef, ast.AsyncFunctionDef, ast.ClassDef)):
                add(st.name)
                continue
            if isinstance(st, (ast.Import, ast.ImportFrom)):
                for a in st.names:
                    add((a.asname or a.name).split(".")[0])
                continue
            if isinstance(st, ast.Assign):
                for t in st.targets:
                    targets(t)
            elif isinstance(st, (ast.AugAssign, ast.AnnAssign)):
                targets(st.target)
            elif isinstance(st, (ast.For, ast.AsyncFor)):
                targets(st.target)
            elif isinstance(st, (ast.With, ast.AsyncWith)):
                for i in st.items:
                    if i.optional_vars is not None:
                        targets(i.optional_vars)
            elif isinstance(st, ast.Delete):
                for t in st.targets:
                    targets(t)
            for n in ast.walk(st) if not isinstance(st, (ast.If, ast.For, ast.While, ast.With, ast.Try)) else []:
                if isinstance(n, ast.NamedExpr):
                    targets(n.target)
            for fld in ("body", "orelse", "finalbody"):
                sub = getattr(st, fld, None)
                if isinstance(sub, list) and sub and isinstance(sub[0], ast.stmt):
                    walk(sub)
            for h in getattr(st, "handlers", []) or []:
                if h.name:
                    add(h.name)
                walk(h.body)
    walk(body)
    return out


def check_module_hygiene(tree, qual, helper_names, used_aliases=()):
    """Python resolves names at run time: the translator may only read a definition that is the ONLY binding of its name in its scope, and the
    builtins / module aliases it interprets must not be rebound anywhere in the file."""
    mod = scope_binders(tree.body)
    for n in ast.walk(tree):
        if isinstance(n, (ast.Global, ast.Nonlocal)):
            raise Untranslatable("a global / nonlocal declaration in the module (%s)" % ", ".join(n.names))
    every = {}
    for n in ast.walk(tree):
        if isinstance(n, ast.Name) and isinstance(n.ctx, (ast.Store, ast.Del)):
            every[n.id] = every.get(n.id, 0) + 1
        elif isinstance(n, (ast.FunctionDef, ast.AsyncFunctionDef, ast.ClassDef)):
            every[n.name] = every.get(n.name, 0) + 1
        elif isinstance(n, ast.arg):
            every[n.arg] = every.get(n.arg, 0) + 1
        elif isinstance(n, (ast.Import, ast.ImportFrom)):
            for a in n.names:
                nm = (a.asname or a.name).split(".")[0]
                every[nm] = every.get(nm, 0) + 1
        elif isinstance(n, ast.ExceptHandler) and n.name:
            every[n.name] = every.get(n.name, 0) + 1
    for b in RESERVED_BUILTINS:
        if every.get(b):
            raise Untranslatable("the builtin %s is rebound in the module" % b)
    imported = {}
    for st in tree.body:
        if isinstance(st, (ast.Import, ast.ImportFrom)):
            for a in st.names:
                nm = (a.asname or a.name).split(".")[0]
                imported[nm] = imported.get(nm, 0) + 1
    for m in used_aliases:
        if every.get(m, 0) != imported.get(m, 0) or imported.get(m, 0) > 1:
            raise Untranslatable("the module alias %s is bound other than by one top-level import" % m)
    parts = qual.split(".")
    if mod.get(parts[0], 0) != 1:
        raise Untranslatable("%s has %d bindings at module level" % (parts[0], mod.get(parts[0], 0)))
    body = tree.body
    for i, pname in enumerate(parts[:-1]):
        cls = [n for n in body if isinstance(n, ast.ClassDef) and n.name == pname]
        if len(cls) != 1:
            raise Untranslatable("class %s is not defined exactly once at the top of its scope" % pname)
        body = cls[0].body
        inner = scope_binders(body)
        nxt = parts[i + 1]
        if inner.get(nxt, 0) != 1:
            raise Untranslatable("%s has %d bindings in class %s" % (nxt, inner.get(nxt, 0), pname))
    scope = scope_binders(body) if len(parts) > 1 else mod
    for h in helper_names:
        if scope.get(h, 0) > 1:
            raise Untranslatable("helper %s has %d bindings in its scope" % (h, scope.get(h, 0)))
        if len(parts) > 1 and h in mod and False:
            pass
    if len(parts) == 1:
        for h in helper_names:
            if every.get(h, 0) != 1:
                raise Untranslatable("helper %s is bound %d times in the file" % (h, every.get(h, 0)))


STD_ALIASES = {"np": "numpy", "F": "torch.nn.functional", "nn": "torch.nn", "torch": "torch", "math": "math", "cplx": "cplx"}


def check_rebinding(tree, qual, protected, free_names, init_ok=()):
    """names the translator resolves statically must not be rebound dynamically: no attribute store / setattr on a protected
    method name anywhere in the file, no decorated / metaclassed kernel class, no renaming import of a free function the kernel
    or its atoms call, and the conventional module aliases must denote their modules"""
    in_init = set()
    for f_ in ast.walk(tree):
        if isinstance(f_, ast.FunctionDef) and f_.name == "__init__":
            in_init |= {id(n) for n in ast.walk(f_)}
    for n in ast.walk(tree):
        if isinstance(n, ast.Attribute) and isinstance(n.ctx, (ast.Store, ast.Del)) and n.attr in protected:
            if n.attr in init_ok and id(n) in in_init and isinstance(n.value, ast.Name) and n.value.id == "self":
                continue                      # a callable attribute chosen by the constructor (value_getter, deviation): an atom of the kernel table
            raise Untranslatable("attribute %s is assigned in the file (methods are read statically)" % n.attr)
        if isinstance(n, ast.Call) and isinstance(n.func, ast.Name) and n.func.id in ("setattr", "delattr") and len(n.args) >= 2:
            a = n.args[1]
            if not (isinstance(a, ast.Constant) and isinstance(a.value, str) and a.value not in protected):
                raise Untranslatable("setattr with a name the translator cannot exclude")
        if isinstance(n, (ast.Import, ast.ImportFrom)):
            for a in n.names:
                real = a.name.split(".")[-1]
                full = ((n.module + ".") if isinstance(n, ast.ImportFrom) and n.module else "") + a.name
                if a.asname and a.asname != real:
                    if a.asname in free_names:
                        raise Untranslatable("%s is imported under the name %s" % (a.name, a.asname))
                    if a.asname in STD_ALIASES and full != STD_ALIASES[a.asname]:
                        raise Untranslatable("the alias %s denotes %s" % (a.asname, full))
                elif (a.asname or a.name) in ("torch", "math") and isinstance(n, ast.ImportFrom):
                    raise Untranslatable("%s imported from %s" % (a.name, n.module))
    parts = qual.split(".")
    body = tree.body
    for pname in parts[:-1]:
        cls = [c for c in body if isinstance(c, ast.ClassDef) and c.name == pname]
        if len(cls) == 1:
            if cls[0].decorator_list or cls[0].keywords:
                raise Untranslatable("class %s is decorated / has a metaclass" % pname)
            body = cls[0].body


def check_function_hygiene(fn, what):
    for d in fn.decorator_list:
        if not DECORATOR_OK.match(ast.unparse(d)):
            raise Untranslatable("%s carries the decorator %s" % (what, ast.unparse(d)[:60]))
    if fn.args.posonlyargs:
        raise Untranslatable("%s has positional-only parameters" % what)
    for n in ast.walk(fn):
        if isinstance(n, (ast.Yield, ast.YieldFrom, ast.Await, ast.NamedExpr, ast.Global, ast.Nonlocal, ast.AsyncFunctionDef)):
            raise Untranslatable("%s contains %s" % (what, type(n).__name__))
        if isinstance(n, (ast.FunctionDef, ast.ClassDef)) and n is not fn and n.name in RESERVED_BUILTINS | MODULE_ALIASES:
            raise Untranslatable("%s rebinds %s" % (what, n.name))


# --------------------------------------------------------------------------- the translator
class Tr:
    def __init__(self, spec, funcs):
        self.spec = spec
        self.funcs = funcs                       # name -> ast.FunctionDef of sibling kernels (for inlining self._x())
        self.atoms = [(parse_pattern(p), coq, ty) for p, coq, ty in spec.get("atoms", [])]
        self.cur_kind = spec.get("kind", "function")
        self.n = 0
        self.depth = 0
        self.seen_target = False

    def atom_fresh(self, pat, env):
        """an atom names its subject literally: a kernel input mentioned in the pattern must still hold the value it had on entry"""
        base = getattr(self, "base_env", {})
        for n in ast.walk(pat):
            if isinstance(n, ast.Name) and not n.id.startswith("H_") and n.id in base and env.get(n.id) != base[n.id]:
                raise Untranslatable("an atom mentions %s, which was rebound before this point" % n.id)

    def hole_ok(self, k, se):
        must = self.spec.get("hole_must", {}).get(k)
        if must is not None and se != must:
            raise Untranslatable("the argument in hole $%s is %s, the kernel table requires %s" % (k, se[:40], must))

    def fresh(self, base):
        self.n += 1
        return "%s_%d" % (re.sub(r"\W", "_", base), self.n)

    # ---- coercions
    def coerce(self, e, t, to):
        if t == to:
            return e
        if t == Z and to == F:
            return "(IZR %s)" % e
        if t == Z and to == OF:
            return "(Some (IZR %s))" % e
        if t == F and to == OF:
            return "(Some %s)" % e
        if t == Z and to == OZ:
            return "(Some %s)" % e
        if t == B and to == Z:
            return "(if %s then 1%%Z else 0%%Z)" % e
        if isinstance(t, tuple) and isinstance(to, tuple) and len(t) == len(to):
            names = [self.fresh("c") for _ in t]
            return "(let '(%s) := %s in (%s))" % (", ".join(names), e, ", ".join(self.coerce(n, a, b) for n, a, b in zip(names, t, to)))
        raise Untranslatable("cannot coerce %s to %s" % (t, to))

    def join(self, t1, t2):
        if t1 == t2:
            return t1
        if isinstance(t1, tuple) and isinstance(t2, tuple) and len(t1) == len(t2):
            return tuple(self.join(a, b) for a, b in zip(t1, t2))
        order = {Z: 0, F: 1, OF: 2}
        if t1 in order and t2 in order:
            return t1 if order[t1] >= order[t2] else t2
        if {t1, t2} == {Z, OZ}:
            return OZ
        raise Untranslatable("branches of different types %s / %s" % (t1, t2))

    def truth(self, e, t):
        if t == B:
            return e
        if t == Z:
            return "(negb (Z.eqb %s 0%%Z))" % e
        if t == OZ:
            return "(truthy_oz %s)" % e
        if t == F:
            return "(negb (Reqb %s (IZR 0)))" % e
        raise Untranslatable("truth value of type %s" % (t,))

    # ---- expressions
    def expr(self, node, env):
        if isinstance(node, ast.Attribute):
            on = self.out_target(node)
            if on is not None and on in env:
                v = env[on]
                if isinstance(v, Poison):
                    raise Untranslatable("depends on %s (%s)" % (on, v.why))
                return v
        for pat, coq, ty in self.atoms:
            b = {}
            if _match(pat, node, b):
                self.atom_fresh(pat, env)
                out = coq
                for k, sub in sorted(b.items(), key=lambda kv: -len(kv[0])):
                    se, st = self.expr(sub, env)
                    self.hole_ok(k, se)
                    want = Z
                    out = out.replace("$" + k, self.coerce(se, st, want))
                return out, ty
        m = getattr(self, "e_" + type(node).__name__, None)
        if m is None:
            raise Untranslatable("expression %s" % type(node).__name__)
        return m(node, env)

    def e_Constant(self, node, env):
        v = node.value
        if isinstance(v, bool):
            return ("true" if v else "false"), B
        if isinstance(v, int):
            return "(%d)%%Z" % v, Z
        if isinstance(v, float):
            return fconst(v)
        raise Untranslatable("constant %r" % (v,))

    def e_Name(self, node, env):
        if node.id not in env:
            raise Untranslatable("name %s is not a kernel input or local" % node.id)
        v = env[node.id]
        if isinstance(v, Poison):
            raise Untranslatable("depends on %s (%s)" % (node.id, v.why))
        return v

    def e_Tuple(self, node, env):
        parts = [self.expr(e, env) for e in node.elts]
        return "(" + ", ".join(p[0] for p in parts) + ")", tuple(p[1] for p in parts)

    def arith(self, op, a, ta, b, tb):
        name = type(op).__name__
        if name == "Div":
            if OF in (ta, tb):
                return "(olift2 Rdiv %s %s)" % (self.coerce(a, ta, OF), self.coerce(b, tb, OF)), OF
            return "(Rdiv %s %s)" % (self.coerce(a, ta, F), self.coerce(b, tb, F)), F
        if name in ("FloorDiv", "Mod"):
            if ta == Z and tb == Z:
                return "(%s %s %s)" % ("Z.div" if name == "FloorDiv" else "Z.modulo", a, b), Z
            raise Untranslatable("// or % on non-integers")
        tab = {"Add": ("Z.add", "Rplus"), "Sub": ("Z.sub", "Rminus"), "Mult": ("Z.mul", "Rmult")}
        if name not in tab:
            raise Untranslatable("operator " + name)
        if ta == B:
            a, ta = self.coerce(a, B, Z), Z
        if tb == B:
            b, tb = self.coerce(b, B, Z), Z
        if ta == Z and tb == Z:
            return "(%s %s %s)" % (tab[name][0], a, b), Z
        if OF in (ta, tb):
            return "(olift2 %s %s %s)" % (tab[name][1], self.coerce(a, ta, OF), self.coerce(b, tb, OF)), OF
        if ta in (Z, F) and tb in (Z, F):
            return "(%s %s %s)" % (tab[name][1], self.coerce(a, ta, F), self.coerce(b, tb, F)), F
        raise Untranslatable("arithmetic on %s, %s" % (ta, tb))

    def e_BinOp(self, node, env):
        if isinstance(node.op, ast.Pow):
            if isinstance(node.right, ast.Constant) and node.right.value == 2:
                a, ta = self.expr(node.left, env)
                return self.arith(ast.Mult(), a, ta, a, ta)
            raise Untranslatable("power other than ** 2")
        a, ta = self.expr(node.left, env)
        b, tb = self.expr(node.right, env)
        return self.arith(node.op, a, ta, b, tb)

    def e_UnaryOp(self, node, env):
        a, ta = self.expr(node.operand, env)
        if isinstance(node.op, ast.USub):
            if ta == Z:
                return "(Z.opp %s)" % a, Z
            if ta == F:
                return "(Ropp %s)" % a, F
            if ta == OF:
                return "(olift1 Ropp %s)" % a, OF
        if isinstance(node.op, ast.UAdd) and ta in (Z, F, OF):
            return a, ta
        if isinstance(node.op, ast.Not):
            return "(negb %s)" % self.truth(a, ta), B
        raise Untranslatable("unary operator")

    def e_BoolOp(self, node, env):
        parts = [self.expr(v, env) for v in node.values]
        if all(t == B for _, t in parts):
            f = "andb" if isinstance(node.op, ast.And) else "orb"
            out = parts[-1][0]
            for e, _ in reversed(parts[:-1]):
                out = "(%s %s %s)" % (f, e, out)
            return out, B
        # value semantics of `x or y` / `x and y`
        out, tout = parts[-1]
        for e, t in reversed(parts[:-1]):
            if isinstance(node.op, ast.Or):
                if t == OZ and tout == Z:
                    v = self.fresh("v")
                    out = "(match %s with Some %s => if Z.eqb %s 0%%Z then %s else %s | None => %s end)" % (e, v, v, out, v, out)
                elif t == Z and tout == Z:
                    out = "(if Z.eqb %s 0%%Z then %s else %s)" % (e, out, e)
                else:
                    raise Untranslatable("`or` on %s, %s" % (t, tout))
            else:
                raise Untranslatable("`and` on non-booleans")
        return out, tout

    def cmp1(self, op, a, ta, b, tb):
        name = type(op).__name__
        if ta == B and tb == B and name in ("Eq", "NotEq", "Is", "IsNot"):
            e = "(Bool.eqb %s %s)" % (a, b)
            return e if name in ("Eq", "Is") else "(negb %s)" % e
        if ta == B:
            a, ta = self.coerce(a, B, Z), Z
        if tb == B:
            b, tb = self.coerce(b, B, Z), Z
        if ta == Z and tb == Z:
            tab = {"Lt": "(Z.ltb %s %s)", "LtE": "(Z.leb %s %s)", "Gt": "(Z.ltb %s %s)", "GtE": "(Z.leb %s %s)",
                   "Eq": "(Z.eqb %s %s)", "NotEq": "(negb (Z.eqb %s %s))"}
        elif ta in (Z, F) and tb in (Z, F):
            a, b = self.coerce(a, ta, F), self.coerce(b, tb, F)
            tab = {"Lt": "(Rltb %s %s)", "LtE": "(Rleb %s %s)", "Gt": "(Rltb %s %s)", "GtE": "(Rleb %s %s)",
                   "Eq": "(Reqb %s %s)", "NotEq": "(negb (Reqb %s %s))"}
        else:
            raise Untranslatable("comparison on %s, %s" % (ta, tb))
        if name not in tab:
            raise Untranslatable("comparison " + name)
        if name in ("Gt", "GtE"):
            a, b = b, a
        return tab[name] % (a, b)

    def e_Compare(self, node, env):
        # x is None / x is not None on an optional int
        if len(node.ops) == 1 and isinstance(node.ops[0], (ast.Is, ast.IsNot)) and isinstance(node.comparators[0], ast.Constant) \
                and node.comparators[0].value is None:
            a, ta = self.expr(node.left, env)
            if ta not in (OZ, "OBV"):
                raise Untranslatable("`is None` on a value that is never None here")
            e = "(match %s with Some _ => false | None => true end)" % a
            return (e if isinstance(node.ops[0], ast.Is) else "(negb %s)" % e), B
        items = [self.expr(node.left, env)] + [self.expr(c, env) for c in node.comparators]
        outs = [self.cmp1(op, items[i][0], items[i][1], items[i + 1][0], items[i + 1][1]) for i, op in enumerate(node.ops)]
        out = outs[-1]
        for e in reversed(outs[:-1]):
            out = "(andb %s %s)" % (e, out)
        return out, B

    def narrow(self, test, env):
        """(scrutinee expr, bound name, python var, nonzero_required) when the test narrows an optional int"""
        if isinstance(test, ast.Name) and test.id in env and not isinstance(env[test.id], Poison) and env[test.id][1] == OZ:
            return env[test.id][0], test.id, True, False
        if isinstance(test, ast.UnaryOp) and isinstance(test.op, ast.Not) and isinstance(test.operand, ast.Name) \
                and test.operand.id in env and not isinstance(env[test.operand.id], Poison) and env[test.operand.id][1] == OZ:
            return env[test.operand.id][0], test.operand.id, True, True          # `not x`: true when x is None or 0
        if isinstance(test, ast.Compare) and len(test.ops) == 1 and isinstance(test.left, ast.Name) \
                and isinstance(test.comparators[0], ast.Constant) and test.comparators[0].value is None \
                and test.left.id in env and not isinstance(env[test.left.id], Poison) and env[test.left.id][1] in (OZ, "OBV"):
            if isinstance(test.ops[0], ast.IsNot):
                return env[test.left.id][0], test.left.id, False, False
            if isinstance(test.ops[0], ast.Is):
                return env[test.left.id][0], test.left.id, False, True
        return None

    def branch(self, test, env, k_true, k_false):
        """if test then k_true(env') else k_false(env'), with narrowing of optional ints; k_* : env -> (expr, type)"""
        nar = self.narrow(test, env)
        if nar is not None:
            scrut, var, need_nz, negated = nar
            n = env.get("#n", 0) + 1
            v = "%s_%d" % (re.sub(r"\W", "_", var), n)
            env_some = dict(env); env_some[var] = (v, {OZ: Z, "OBV": "BV"}[env[var][1]]); env_some["#n"] = n
            if negated and need_nz:          # `not x`: the false branch has x = Some v with v <> 0
                a, ta = k_true(env)
                b, tb = k_false(env_some)
                a, b, t = self.unify(a, ta, b, tb)
                if a == b:
                    return a, t
                return "(match %s with Some %s => if Z.eqb %s 0%%Z then %s else %s | None => %s end)" % (scrut, v, v, a, b, a), t
            if negated:          # `x is None`: true branch has x = None
                a, ta = k_true(env)
                b, tb = k_false(env_some)
                a, b, t = self.unify(a, ta, b, tb)
                return "(match %s with Some %s => %s | None => %s end)" % (scrut, v, b, a), t
            a, ta = k_true(env_some)
            b, tb = k_false(env)
            b2, tb2 = k_false(env_some) if need_nz else (None, None)
            if need_nz:
                a, b2, t = self.unify(a, ta, b2, tb2)
                a, b, t = self.unify(a, t, b, tb)
                b2 = self.coerce(b2, tb2, t) if tb2 is not None and b2 is not BOTTOM[0] else b2
                if a == BOTTOM[0] and b2 == BOTTOM[0]:
                    return "(match %s with Some %s => %s | None => %s end)" % (scrut, v, a, b), t
                return "(match %s with Some %s => if Z.eqb %s 0%%Z then %s else %s | None => %s end)" % (scrut, v, v, b2, a, b), t
            a, b, t = self.unify(a, ta, b, tb)
            if a == b:
                return a, t
            return "(match %s with Some %s => %s | None => %s end)" % (scrut, v, a, b), t
        try:
            c, tc = self.expr(test, env)
            c = self.truth(c, tc)
            cerr = None
        except Untranslatable as ex:
            c, cerr = None, ex
        if c == "true":
            return k_true(env)
        if c == "false":
            return k_false(env)
        if c is None and not effect_free(test):
            raise cerr                        # a test outside the subset may do anything (in-place calls, walrus ...)
        a, ta = k_true(env)
        b, tb = k_false(env)
        a, b, t = self.unify(a, ta, b, tb)
        if a == b:
            return a, t                       # the value does not depend on the test
        if c is None:
            raise cerr
        if (a == BOTTOM[0] or b == BOTTOM[0]) and self.cur_kind == "function":
            # `if <test>: raise`: the kernel speaks about the non-raising inputs only, and only for tests the kernel table names
            if ast.unparse(test) not in self.spec.get("raise_tests", []):
                raise Untranslatable("a raising path under a test the kernel table does not list: %s" % ast.unparse(test)[:80])
        if a == BOTTOM[0]:
            return b, t
        if b == BOTTOM[0]:
            return a, t
        return "(if %s then %s else %s)" % (c, a, b), t

    def unify(self, a, ta, b, tb):
        if a == BOTTOM[0] and b == BOTTOM[0]:
            return a, b, None
        if a == BOTTOM[0]:
            return a, b, tb
        if b == BOTTOM[0]:
            return a, b, ta
        t = self.join(ta, tb)
        return self.coerce(a, ta, t), self.coerce(b, tb, t), t

    def e_IfExp(self, node, env):
        return self.branch(node.test, env, lambda e: self.expr(node.body, e), lambda e: self.expr(node.orelse, e))

    def e_Call(self, node, env):
        f = node.func
        fname = ast.unparse(f)
        args = node.args
        sibling = isinstance(f, ast.Attribute) and isinstance(f.value, ast.Name) and f.value.id == "self" and f.attr in self.funcs
        if node.keywords and not sibling:
            raise Untranslatable("keyword arguments in call %s" % fname)
        if fname == "float" and len(args) == 1:
            if isinstance(args[0], ast.Constant) and isinstance(args[0].value, str):
                if args[0].value.strip().lower() in ("nan", "+nan", "-nan"):
                    return "None", OF
                raise Untranslatable("float(%r)" % args[0].value)
            a, ta = self.expr(args[0], env)
            return (self.coerce(a, ta, F), F) if ta in (Z, F) else (a, ta)
        if fname in ("np.float64", "numpy.float64") and len(args) == 1:
            a, ta = self.expr(args[0], env)
            if ta in (Z, F):
                return self.coerce(a, ta, F), F
            if ta == OF:
                return a, OF
        if fname == "len" and len(args) == 1 and isinstance(args[0], ast.Name) and args[0].id in self.spec.get("len_of", []):
            v = env.get(args[0].id)
            if isinstance(v, tuple) and v[1] == Z:
                return v                      # an optional tensor input is represented by its length
            raise Untranslatable("len() of a value that may be None here")
        if fname == "abs" and len(args) == 1:
            a, ta = self.expr(args[0], env)
            if ta == Z:
                return "(Z.abs %s)" % a, Z
            if ta == F:
                return "(Rabs %s)" % a, F
            if ta == OF:
                return "(olift1 Rabs %s)" % a, OF
        if fname in ("min", "max") and len(args) == 2:
            a, ta = self.expr(args[0], env)
            b, tb = self.expr(args[1], env)
            if ta == Z and tb == Z:
                return "(Z.%s %s %s)" % (fname, a, b), Z
            if ta in (Z, F) and tb in (Z, F):
                return "(R%s %s %s)" % (fname, self.coerce(a, ta, F), self.coerce(b, tb, F)), F
        if fname in ("np.sqrt", "numpy.sqrt", "math.sqrt", "sqrt") and len(args) == 1:
            a, ta = self.expr(args[0], env)
            if ta in (Z, F):
                return "(sqrt %s)" % self.coerce(a, ta, F), F
            if ta == OF:
                return "(olift1 sqrt %s)" % a, OF
        if fname in ("ceil", "math.ceil", "np.ceil", "numpy.ceil") and len(args) == 1:
            q = args[0]
            if isinstance(q, ast.BinOp) and isinstance(q.op, ast.Div):
                a, ta = self.expr(q.left, env)
                b, tb = self.expr(q.right, env)
                if ta == Z and tb == Z:
                    return "(pyceil_div %s %s)" % (a, b), Z
            raise Untranslatable("ceil of something other than int / int")
        if fname == "slice" and len(args) == 3:
            parts = [self.expr(a, env) for a in args]
            if all(t == Z for _, t in parts):
                return "(" + ", ".join(e for e, _ in parts) + ")", (Z, Z, Z)
            raise Untranslatable("slice() of non-integers")
        if fname == "bool" and len(args) == 1:
            a, ta = self.expr(args[0], env)
            return self.truth(a, ta), B
        if fname == "int" and len(args) == 1:
            a, ta = self.expr(args[0], env)
            if ta == Z:
                return a, Z
            if ta == B:
                return self.coerce(a, B, Z), Z
            raise Untranslatable("int() of a non-integer")
        # self._helper(args): inline a sibling method, its parameters bound to the translated arguments
        if isinstance(f, ast.Attribute) and isinstance(f.value, ast.Name) and f.value.id == "self" and f.attr in self.funcs:
            if self.depth > 6:
                raise Untranslatable("inlining too deep")
            callee = self.funcs[f.attr]
            check_function_hygiene(callee, "helper " + f.attr)
            if callee.args.vararg or callee.args.kwarg:
                raise Untranslatable("helper %s with *args / **kwargs" % f.attr)
            params = [a.arg for a in callee.args.args if a.arg != "self"]
            if len(node.args) > len(params):
                raise Untranslatable("too many arguments for helper %s" % f.attr)
            cenv = {}                                  # a helper sees its own parameters only (free names must be atoms)
            cenv["#n"] = env.get("#n", 0) + 50 * (self.depth + 1)      # keep bound names apart from the caller's
            given = dict(zip(params, node.args))
            for kwd in node.keywords:
                if kwd.arg is None or kwd.arg not in params or kwd.arg in given:
                    raise Untranslatable("keyword arguments of helper %s" % f.attr)
                given[kwd.arg] = kwd.value
            defaults = dict(zip(params[len(params) - len(callee.args.defaults):], callee.args.defaults))
            for pn in params:
                src_node, src_env = (given[pn], env) if pn in given else (defaults.get(pn), {})
                if src_node is None:
                    raise Untranslatable("missing argument %s of helper %s" % (pn, f.attr))
                try:
                    if isinstance(src_node, ast.Constant) and src_node.value is None:
                        raise Untranslatable("None")
                    cenv[pn] = self.expr(src_node, src_env)
                except Untranslatable as ex:
                    cenv[pn] = Poison("argument %s: %s" % (pn, ex))
            self.depth += 1
            try:
                return self.block(list(callee.body), cenv, "function")
            finally:
                self.depth -= 1
        raise Untranslatable("call %s" % fname)

    # ---- statements
    def assigned(self, stmts):
        out = set()
        for s in stmts:
            for n in ast.walk(s):
                if isinstance(n, ast.Name) and isinstance(n.ctx, ast.Store):
                    out.add(n.id)
                elif isinstance(n, ast.Attribute) and isinstance(n.ctx, ast.Store):
                    on = self.out_target(n)
                    if on is not None:
                        out.add(on)
        return out

    def out_target(self, tgt):
        for pat, name in self.spec.get("outputs_pat", []):
            if _match(parse_pattern(pat), tgt, {}):
                return name
        return None

    def bind(self, env, var, e, t, rest_k):
        """let var := e in rest"""
        if re.fullmatch(r"[A-Za-z_][A-Za-z0-9_']*", e):
            env2 = dict(env); env2[var] = (e, t)          # plain alias: no binding needed
            return rest_k(env2)
        n = env.get("#n", 0) + 1
        v = "%s_%d" % (re.sub(r"\W", "_", var), n)
        env2 = dict(env); env2[var] = (v, t); env2["#n"] = n
        body, tb = rest_k(env2)
        if body == BOTTOM[0]:
            return body, tb
        if not re.search(r"\b%s\b" % re.escape(v), body):
            return body, tb                   # dead binding
        if body == v:
            return e, t                       # let x := e in x
        return "(let %s : %s := %s in\n  %s)" % (v, cty(t), e, body), tb

    def block(self, stmts, env, kind, target=None):
        if not stmts:
            if kind == "raises":
                return "false", B
            if kind == "local":
                v = env.get(target)
                if v is None:
                    raise Untranslatable("variable %s is never assigned" % target)
                if isinstance(v, Poison):
                    raise Untranslatable("%s depends on code outside the supported subset: %s" % (target, v.why))
                return v
            outs = self.spec.get("outputs")
            if outs:
                parts = []
                for name in outs:
                    v = env[name]
                    if isinstance(v, Poison):
                        raise Untranslatable("output %s: %s" % (name, v.why))
                    parts.append(v)
                if len(parts) == 1:
                    return parts[0]
                return "(" + ", ".join(p[0] for p in parts) + ")", tuple(p[1] for p in parts)
            raise Untranslatable("function can end without returning a value")
        if kind == "local" and target in env and target not in self.assigned(stmts) and self.seen_target:
            return self.block([], env, kind, target)          # past the last assignment of the target
        s, rest = stmts[0], stmts[1:]
        if kind == "local" and target in self.assigned([s]):
            self.seen_target = True
        K = lambda e: self.block(rest, e, kind, target)
        if isinstance(s, ast.Expr) and isinstance(s.value, ast.Constant) and isinstance(s.value.value, str):
            return K(env)                                  # docstring
        if isinstance(s, ast.Pass):
            return K(env)
        if isinstance(s, ast.Return):
            if kind == "raises":
                return "false", B
            if kind == "local":
                return BOTTOM
            if s.value is None:
                return self.block([], env, kind, target)
            return self.expr(s.value, env)
        if isinstance(s, ast.Raise):
            if kind == "raises":
                return "true", B
            return BOTTOM
        if isinstance(s, ast.With):
            env_w = dict(env)
            for it in s.items:
                ctx = ast.unparse(it.context_expr)
                if not (ctx.startswith(("np.errstate(", "torch.no_grad(", "open(")) and isinstance(it.context_expr, ast.Call)
                        and all(effect_free(a) for a in list(it.context_expr.args) + [k.value for k in it.context_expr.keywords])):
                    raise Untranslatable("with %s" % ctx[:60])
                if it.optional_vars is not None:
                    if not isinstance(it.optional_vars, ast.Name) or it.optional_vars.id in env or it.optional_vars.id in getattr(self, "base_env", {}):
                        raise Untranslatable("with ... as %s rebinds a name of the kernel" % ast.unparse(it.optional_vars))
                    env_w[it.optional_vars.id] = Poison("bound by a with statement")
            return self.block(list(s.body) + rest, env_w, kind, target)
        if isinstance(s, (ast.Assign, ast.AugAssign, ast.AnnAssign)):
            if isinstance(s, ast.Assign):
                if len(s.targets) != 1:
                    tgts = s.targets
                    return self._poison_or_fail(tgts, "chained assignment", env, kind, K)
                tgt, val = s.targets[0], s.value
            elif isinstance(s, ast.AnnAssign):
                tgt, val = s.target, s.value
                if val is None:
                    return K(env)
            else:
                tgt = s.target
                val = ast.BinOp(left=ast.Name(id=getattr(tgt, "id", "_"), ctx=ast.Load()), op=s.op, right=s.value) if isinstance(tgt, ast.Name) else None
                if val is None:
                    return self._poison_or_fail([tgt], "augmented assignment to a non-name", env, kind, K)
            oname = None if isinstance(tgt, ast.Name) else self.out_target(tgt)
            if isinstance(tgt, ast.Name) or oname is not None:
                var = tgt.id if isinstance(tgt, ast.Name) else oname
                try:
                    e, t = self.expr(val, env)
                except Untranslatable as ex:
                    if kind in ("local", "raises"):
                        env2 = dict(env); env2[var] = Poison(str(ex))
                        return K(env2)
                    raise
                if oname is not None and isinstance(env.get(oname), tuple) and env[oname][1] != t:
                    e, t = self.coerce(e, t, env[oname][1]), env[oname][1]
                return self.bind(env, var, e, t, K)
            if isinstance(tgt, ast.Tuple) and all(isinstance(x, ast.Name) for x in tgt.elts):
                try:
                    if isinstance(val, ast.Tuple) and len(val.elts) == len(tgt.elts):
                        parts = [self.expr(x, env) for x in val.elts]
                        def chain(i, e2):
                            if i == len(parts):
                                return K(e2)
                            return self.bind(e2, tgt.elts[i].id, parts[i][0], parts[i][1], lambda e3: chain(i + 1, e3))
                        return chain(0, env)
                    raise Untranslatable("tuple assignment from a non-tuple")
                except Untranslatable as ex:
                    return self._poison_or_fail(tgt.elts, str(ex), env, kind, K)
            return self._poison_or_fail([tgt], "assignment target %s" % ast.unparse(tgt), env, kind, K)
        if isinstance(s, ast.If):
            try:
                return self.branch(s.test, env,
                                   lambda e: self.block(list(s.body) + rest, e, kind, target),
                                   lambda e: self.block(list(s.orelse) + rest, e, kind, target))
            except Untranslatable as ex:
                if kind not in ("local", "raises"):
                    raise
                # the test (or a branch) is outside the subset: every name the statement assigns becomes unknown
                if not self._test_ok(s.test, env):
                    if any(isinstance(n, (ast.Continue, ast.Break)) for n in ast.walk(s)):
                        raise Untranslatable("continue / break under a condition outside the supported subset (%s)" % ex)
                    if not effect_free(s.test):
                        raise Untranslatable("a condition with side effects outside the supported subset (%s)" % ex)
                    if kind == "raises" and any(isinstance(n, ast.Raise) for n in ast.walk(s)):
                        raise Untranslatable("a raise under a condition outside the supported subset (%s)" % ex)
                    env2 = dict(env)
                    for n in self.assigned([s]):
                        env2[n] = Poison("assigned under a condition outside the supported subset (%s)" % ex)
                    return K(env2)
                raise
        if isinstance(s, ast.For) and kind == "raises":
            env2 = dict(env)
            for n in self.assigned([s]):
                env2[n] = Poison("assigned in a loop")
            if any(isinstance(n, ast.Raise) for n in ast.walk(s)):
                raise Untranslatable("raise inside a loop")
            return K(env2)
        if isinstance(s, ast.For) and kind == "local":
            # descend into the loop only if the target variable's last assignment is inside it
            if target in self.assigned([s]) and target not in self.assigned(rest):
                env2 = dict(env)
                for n in self.assigned(s.body):
                    # a loop-carried variable is unknown, unless the kernel table declares it as an input (then the theorem quantifies over its value)
                    env2[n] = self.spec.get("carried", {}).get(n) or Poison("loop-carried variable")
                lv = self.spec.get("loop_vars", {})
                if isinstance(s.target, ast.Name) and s.target.id in lv:
                    env2[s.target.id] = lv[s.target.id]
                else:
                    for n in self.assigned([s.target]):
                        env2[n] = Poison("loop variable not declared as kernel input")
                return self.block(list(s.body), env2, kind, target)
            env2 = dict(env)
            for n in self.assigned([s]):
                env2[n] = Poison("assigned in a loop")
            return K(env2)
        if kind == "raises" and any(isinstance(n, (ast.Raise, ast.Assert)) for n in ast.walk(s)):
            raise Untranslatable("a raise inside a %s statement" % type(s).__name__)
        if isinstance(s, (ast.Continue, ast.Break)):
            raise Untranslatable("%s on a path of the kernel" % type(s).__name__.lower())
        if kind in ("local", "raises"):
            if isinstance(s, (ast.Expr, ast.Assert, ast.Import, ast.ImportFrom, ast.Delete, ast.Global, ast.Nonlocal)):
                return K(env)
            env2 = dict(env)
            for n in self.assigned([s]):
                env2[n] = Poison("assigned in a %s statement" % type(s).__name__)
            return K(env2)
        if isinstance(s, ast.Expr):
            src = ast.unparse(s.value)
            for pat in self.spec.get("ignore_stmts", []):
                if _match(parse_pattern(pat), s.value, {}):
                    return K(env)
            raise Untranslatable("statement with an effect the kernel table does not list: %s" % src[:80])
        raise Untranslatable("statement %s" % type(s).__name__)

    def _test_ok(self, test, env):
        try:
            if self.narrow(test, env) is None:
                self.expr(test, env)
            return True
        except Untranslatable:
            return False

    def _poison_or_fail(self, tgts, why, env, kind, K):
        if kind not in ("local", "raises"):
            raise Untranslatable(why)
        env2 = dict(env)
        for t in tgts:
            for n in self.assigned([t]):
                env2[n] = Poison(why)
        return K(env2)




# --------------------------------------------------------------------------- tensor kernels (row-wise semantics)
class VecTr(Tr):
    """Translator for the row-wise tensor formulas of the RBMs and states.  A visible / hidden / auxiliary configuration
    is ONE 0/1 vector (type BV, Coq `bits`); parameters are vectors (V) and matrices (M, row major); results are reals (F),
    vectors or complex pairs (C).  The library evaluates the same expressions on batches by broadcasting over leading
    dimensions; only operations that act row by row are accepted (matmul with a parameter, F.linear, elementwise
    arithmetic and functions, sum over the last axis), so the batch result is the map of the row result — that reading of
    broadcasting is part of the trusted translator.  Device / dtype moves (.to), .data, out= buffers, in-place variants
    (add_, sigmoid_, clamp_, unsqueeze_ in a pairwise reading) are value-level identities / the plain operation."""

    def expr(self, node, env):
        # atoms with typed holes:  "self.rbm_am.effective_energy($v)"
        for pat, coq, ty in self.atoms:
            b = {}
            if _match(pat, node, b):
                self.atom_fresh(pat, env)
                out = coq
                for k, sub in sorted(b.items(), key=lambda kv: -len(kv[0])):
                    se, st = self.expr(sub, env)
                    self.hole_ok(k, se)
                    want = self.spec.get("hole_types", {}).get(k, "BV")
                    out = out.replace("$" + k, self.coerce(se, st, want))
                return out, ty
        m = getattr(self, "v_" + type(node).__name__, None)
        if m is not None:
            r = m(node, env)
            if r is not None:
                return r
        return Tr.expr(self, node, env)

    def coerce(self, e, t, to):
        if t == to:
            return e
        if t == "BV" and to == "V":
            return "(map (b2t ROps) %s)" % e
        if t == Z and to == F:
            return "(IZR %s)" % e
        return Tr.coerce(self, e, t, to)

    def join(self, t1, t2):
        if t1 == t2:
            return t1
        return Tr.join(self, t1, t2)

    # ---- nodes
    def v_Attribute(self, node, env):
        if node.attr == "data":                      # parameter.data: the same values
            return self.expr(node.value, env)
        return None

    def v_UnaryOp(self, node, env):
        if isinstance(node.op, ast.USub):
            a, ta = self.expr(node.operand, env)
            if ta == "V":
                return "(vopp ROps %s)" % a, "V"
            if ta == "BV":
                return "(vopp ROps %s)" % self.coerce(a, ta, "V"), "V"
            if ta in (F, Z):
                return "(Ropp %s)" % self.coerce(a, ta, F), F
        return None

    def v_BinOp(self, node, env):
        a, ta = self.expr(node.left, env)
        b, tb = self.expr(node.right, env)
        op = type(node.op).__name__
        vecs = ("V", "BV")
        if ta in vecs and tb in vecs and op in ("Add", "Sub"):
            return "(%s ROps %s %s)" % ("vadd" if op == "Add" else "vsub", self.coerce(a, ta, "V"), self.coerce(b, tb, "V")), "V"
        if ta == "V" and tb == "V" and op == "Mult":
            return "(vmul %s %s)" % (a, b), "V"
        if op == "Add" and ta in (F, Z) and tb == "V":
            return "(vaddc %s %s)" % (self.coerce(a, ta, F), b), "V"
        if op == "Add" and tb in (F, Z) and ta == "V":
            return "(vaddc %s %s)" % (self.coerce(b, tb, F), a), "V"
        if op == "Mult" and ta in (F, Z) and tb in vecs:
            return "(vscale ROps %s %s)" % (self.coerce(a, ta, F), self.coerce(b, tb, "V")), "V"
        if op == "Mult" and tb in (F, Z) and ta in vecs:
            return "(vscale ROps %s %s)" % (self.coerce(b, tb, F), self.coerce(a, ta, "V")), "V"
        if op == "Mult" and ta in (F, Z) and tb == "M":
            return "(map (vscale ROps %s) %s)" % (self.coerce(a, ta, F), b), "M"
        if op == "Div" and ta in vecs and tb in (F, Z):
            return "(map (fun x_ => Rdiv x_ %s) %s)" % (self.coerce(b, tb, F), self.coerce(a, ta, "V")), "V"
        if ta in (F, Z) and tb in (F, Z):
            if op == "Div":
                return "(Rdiv %s %s)" % (self.coerce(a, ta, F), self.coerce(b, tb, F)), F
            tab = {"Add": "Rplus", "Sub": "Rminus", "Mult": "Rmult"}
            if op in tab and (ta == F or tb == F):
                return "(%s %s %s)" % (tab[op], self.coerce(a, ta, F), self.coerce(b, tb, F)), F
            return None
        raise Untranslatable("tensor operator %s on %s, %s" % (op, ta, tb))

    def v_List(self, node, env):
        parts = [self.expr(e, env) for e in node.elts]
        if parts and all(t in ("V", "BV") for _, t in parts):
            return "[" + "; ".join(self.coerce(e, t, "V") for e, t in parts) + "]", "LV"
        return None

    def v_IfExp(self, node, env):
        # (v.unsqueeze(0) if v.dim() < 2 else v): rank normalisation, value-level identity
        t = node.test
        if isinstance(t, ast.Compare) and len(t.ops) == 1 and isinstance(t.ops[0], ast.Lt) and ast.unparse(t.comparators[0]) == "2" \
                and isinstance(t.left, ast.Call) and isinstance(t.left.func, ast.Attribute) and t.left.func.attr == "dim" \
                and isinstance(node.orelse, ast.Name) and ast.unparse(t.left.func.value) == node.orelse.id \
                and ast.unparse(node.body) == node.orelse.id + ".unsqueeze(0)":
            return self.expr(node.orelse, env)
        return None

    def block(self, stmts, env, kind, target=None):
        # grads[0] -= E  on a list of per-network gradient vectors: the head is replaced, the other entries are untouched
        if stmts and isinstance(stmts[0], ast.AugAssign) and isinstance(stmts[0].op, ast.Sub) and isinstance(stmts[0].target, ast.Subscript) \
                and isinstance(stmts[0].target.value, ast.Name) and ast.unparse(stmts[0].target.slice) == "0" \
                and isinstance(env.get(stmts[0].target.value.id), tuple) and env[stmts[0].target.value.id][1] == "LV":
            name = stmts[0].target.value.id
            e, t = self.expr(stmts[0].value, env)
            if t != "V":
                raise Untranslatable("in-place subtraction of a %s from a gradient vector" % t)
            new = "(match %s with [] => [] | g0_ :: rest_ => vsub ROps g0_ %s :: rest_ end)" % (env[name][0], e)
            return self.bind(env, name, new, "LV", lambda e2: self.block(stmts[1:], e2, kind, target))
        if stmts and isinstance(stmts[0], ast.Assign) and len(stmts[0].targets) == 1 and isinstance(stmts[0].targets[0], ast.Name):
            fr = set(env.get("#fresh", ()))
            val = stmts[0].value
            if isinstance(val, ast.Name):
                fr.discard(val.id); fr.discard(stmts[0].targets[0].id)      # two names for one tensor: neither is private any more
            elif self.is_fresh(val, env):
                fr.add(stmts[0].targets[0].id)
            else:
                fr.discard(stmts[0].targets[0].id)
                for n in ast.walk(val):                                      # a view / unknown call may keep hold of its operands
                    if isinstance(n, ast.Name):
                        fr.discard(n.id)
            env = dict(env); env["#fresh"] = frozenset(fr)
        if stmts and isinstance(stmts[0], ast.AugAssign) and isinstance(stmts[0].target, ast.Name) \
                and isinstance(env.get(stmts[0].target.id), tuple) and env[stmts[0].target.id][1] in ("V", "BV", "M", "Mt", "C", "LV", "LBV", "MV"):
            raise Untranslatable("augmented assignment to the tensor %s (in place: every alias changes)" % stmts[0].target.id)
        return Tr.block(self, stmts, env, kind, target)

    MAPS = {"exp": "exp", "sqrt": "sqrt", "cos": "cos", "sin": "sin", "sigmoid": "(sigmoid ROps)", "sigmoid_": "(sigmoid ROps)",
            "exp_": "exp", "sqrt_": "sqrt", "neg": "Ropp", "log": "ln"}

    FRESH_CALLS = {"torch.matmul", "torch.mv", "torch.dot", "torch.mul", "torch.zeros", "torch.zeros_like", "torch.ones", "F.linear", "F.softplus",
                   "torch.nn.functional.linear", "torch.nn.functional.softplus", "torch.sigmoid", "torch.sum", "torch.cat", "torch.atan2", "torch.exp",
                   "torch.einsum", "cplx.scalar_mult", "cplx.elementwise_mult", "cplx.make_complex", "cplx.absolute_value", "cplx.conjugate",
                   "make_complex", "scalar_mult", "elementwise_mult", "absolute_value", "conj", "inverse", "scalar_divide", "elementwise_division"}
    VIEW_METHODS = {"to", "view", "t", "unsqueeze", "squeeze", "reshape", "contiguous", "detach", "expand", "permute", "transpose", "flatten",
                    "unsqueeze_", "squeeze_", "data", "T", "real", "imag", "narrow", "select", "__getitem__"}

    def is_fresh(self, node, env=None):
        if isinstance(node, ast.Name):
            return env is not None and node.id in env.get("#fresh", ())
        return self._is_fresh(node, env)

    def _is_fresh(self, node, env=None):
        """a tensor nobody else can see: the result of an arithmetic operator or of a constructor / out-of-place torch function (with
        or without out=: the out buffers of this code base are scratch buffers), possibly followed by non-view methods"""
        if isinstance(node, (ast.BinOp, ast.UnaryOp)):
            return True
        if isinstance(node, ast.Call):
            if ast.unparse(node.func) in self.FRESH_CALLS or ast.unparse(node.func) in self.spec.get("fresh_calls", []):
                return True
            if ast.unparse(node.func) in ("real", "imag", "cplx.real", "cplx.imag") and len(node.args) == 1:
                return self.is_fresh(node.args[0], env)            # a view of a private tensor is private
            if isinstance(node.func, ast.Attribute):
                return self.is_fresh(node.func.value, env)          # a method (view or not) of a private tensor
        return False

    def inplace_guard(self, node, env):
        f = getattr(node, "func", None)
        if isinstance(node, ast.Call) and isinstance(f, ast.Attribute) and f.attr.endswith("_") and not f.attr.startswith("__") \
                and f.attr not in ("unsqueeze_", "squeeze_") and not self.is_fresh(f.value, env) and not self.spec.get("inplace_ok"):
            raise Untranslatable("in-place %s on a tensor that may be shared (%s)" % (f.attr, ast.unparse(f.value)[:50]))

    def v_Call(self, node, env):
        f = node.func
        fname = ast.unparse(f)
        self.inplace_guard(node, env)
        for k_ in node.keywords:
            if k_.arg == "out" and ast.unparse(k_.value) not in (["out"] + list(self.spec.get("out_ok", []))):
                raise Untranslatable("out=%s: only the function's own out parameter may receive a result" % ast.unparse(k_.value)[:40])
        kw = {k.arg: k.value for k in node.keywords}
        args = node.args
        if fname in ("torch.matmul", "torch.mv", "torch.dot") and len(args) == 2 and set(kw) <= {"out"}:
            a, ta = self.expr(args[0], env)
            b, tb = self.expr(args[1], env)
            if ta == "BV" and tb == "V":
                return "(dotb ROps %s %s)" % (b, a), F
            if ta == "V" and tb == "BV":
                if fname == "torch.matmul" and not self.spec.get("vector_left_ok"):
                    raise Untranslatable("matmul(<vector>, <batch>) is not row-wise")
                return "(dotb ROps %s %s)" % (a, b), F
            if ta == "V" and tb == "V":
                return "(dot ROps %s %s)" % (a, b), F
            if ta == "BV" and tb == "Mt":
                return "(matvecb ROps %s %s)" % (b, a), "V"
            if ta == "BV" and tb == "M":
                return "(vecmatb ROps %s %s %s)" % (self.spec["ncols"], a, b), "V"
            raise Untranslatable("matmul on %s, %s" % (ta, tb))
        if fname in ("F.linear", "torch.nn.functional.linear") and len(args) in (2, 3) and not kw:
            x, tx = self.expr(args[0], env)
            W, tW = self.expr(args[1], env)
            if tx == "BV" and tW == "Mt":                  # F.linear(h, W.t(), b) = h @ W + b
                r = "(vecmatb ROps %s %s %s)" % (self.spec["ncols"], x, W)
                if len(args) == 3:
                    c, tc = self.expr(args[2], env)
                    if tc != "V":
                        raise Untranslatable("F.linear bias of type %s" % tc)
                    r = "(vadd ROps %s %s)" % (r, c)
                return r, "V"
            if tx == "BV" and tW == "M":
                if len(args) == 3:
                    c, tc = self.expr(args[2], env)
                    if tc == "V":
                        return "(linearb ROps %s %s %s)" % (W, c, x), "V"
                else:
                    return "(matvecb ROps %s %s)" % (W, x), "V"
            raise Untranslatable("F.linear on %s, %s" % (tx, tW))
        if fname in ("F.softplus", "torch.nn.functional.softplus") and len(args) == 1 and not kw:
            x, tx = self.expr(args[0], env)
            if tx == "V":
                return "(map (softplus ROps) %s)" % x, "V"
            if tx == F:
                return "(softplus ROps %s)" % x, F
        if fname in ("torch.sigmoid",) and len(args) == 1 and set(kw) <= {"out"}:
            x, tx = self.expr(args[0], env)
            if tx == "V":
                return "(map (sigmoid ROps) %s)" % x, "V"
            if tx == F:
                return "(sigmoid ROps %s)" % x, F
        if fname == "torch.sum" and len(args) == 1 and not kw:
            if not self.spec.get("sum_all_ok"):
                raise Untranslatable("torch.sum without an axis sums over the batch as well")
            a, ta = self.expr(args[0], env)
            if ta == "V":
                return "(sum ROps %s)" % a, F
        if fname == "torch.atan2" and len(args) == 2 and not kw:
            a, ta = self.expr(args[0], env)
            b, tb = self.expr(args[1], env)
            if ta == "V" and tb == "V":
                return "(vatan2 %s %s)" % (a, b), "V"
            if ta == F and tb == F:
                return "(Ratan2 %s %s)" % (a, b), F
        if fname.startswith("cplx."):
            self.used_cplx = True
        if fname in ("cplx.real", "cplx.imag") and len(args) == 1 and not kw:
            a, ta = self.expr(args[0], env)
            if ta == "C":
                return "(%s %s)" % ("fst" if fname == "cplx.real" else "snd", a), F
        if fname == "cplx.make_complex" and len(args) == 1 and not kw:
            a, ta = self.expr(args[0], env)
            if ta == F:
                return "(%s, IZR 0)" % a, "C"
        if fname == "cplx.make_complex" and len(args) == 2 and not kw:
            a, ta = self.expr(args[0], env)
            b, tb = self.expr(args[1], env)
            if ta == F and tb == F:
                return "(%s, %s)" % (a, b), "C"
        if fname == "torch.cat" and len(args) == 1 and set(kw) == {"dim"} and ast.unparse(kw["dim"]) == "-1":
            a, ta = self.expr(args[0], env)
            if ta == "LV":
                return "(concat %s)" % a, "V"
        if fname in ("torch.zeros_like",) and len(args) == 1 and not kw:
            a, ta = self.expr(args[0], env)
            if ta == F:
                return "(IZR 0)", F
        if isinstance(f, ast.Attribute):
            meth = f.attr
            if meth == "to":                               # device move / cast to the dtype of another float tensor / to double
                ok = len(args) <= 1 and all(isinstance(a, (ast.Name, ast.Attribute)) and not ast.unparse(a).startswith("torch.")
                                            and all(isinstance(n, (ast.Name, ast.Attribute, ast.Load)) for n in ast.walk(a)) for a in args) \
                    and all(all(isinstance(n, (ast.Name, ast.Attribute, ast.Load)) for n in ast.walk(v)) for v in kw.values()) \
                    and set(kw) <= {"device", "dtype", "non_blocking"} and ("dtype" not in kw or ast.unparse(kw["dtype"]) in ("torch.double", "torch.float64"))
                if not ok:
                    raise Untranslatable("cast %s" % ast.unparse(node)[-70:])
                return self.expr(f.value, env)
            if meth == "t" and not args and not kw:
                x, tx = self.expr(f.value, env)
                if tx == "M":
                    return x, "Mt"
            if meth in ("sum",) and set(kw) <= set() and [ast.unparse(a) for a in args] in (([], ["-1"]) if self.spec.get("sum_all_ok") else (["-1"],)):
                x, tx = self.expr(f.value, env)
                if tx == "V":
                    return "(sum ROps %s)" % x, F
            if meth == "logsumexp" and not kw and [ast.unparse(a) for a in args] == ["0"]:
                x, tx = self.expr(f.value, env)
                if tx == "V":                               # over the rows of a batch (one real per row)
                    return "(ln (sum ROps (map exp %s)))" % x, F
            if meth in ("mean",) and not kw and [ast.unparse(a) for a in args] in (["1"], ["-1"]):
                x, tx = self.expr(f.value, env)
                if tx in ("V", "BV"):
                    return "(mean ROps %s)" % self.coerce(x, tx, "V"), F
            if meth in ("mul", "mul_", "div", "div_") and len(args) == 1 and not kw:
                x, tx = self.expr(f.value, env)
                y, ty = self.expr(args[0], env)
                op = "Rmult" if meth.startswith("mul") else "Rdiv"
                if tx in (F, Z) and ty in (F, Z):
                    return "(%s %s %s)" % (op, self.coerce(x, tx, F), self.coerce(y, ty, F)), F
                if tx in ("V", "BV") and ty in (F, Z):
                    return "(map (fun x_ => %s x_ %s) %s)" % (op, self.coerce(y, ty, F), self.coerce(x, tx, "V")), "V"
            if meth in ("abs", "abs_") and not args and not kw:
                x, tx = self.expr(f.value, env)
                if tx in (F, Z):
                    return "(Rabs %s)" % self.coerce(x, tx, F), F
                if tx == "V":
                    return "(map Rabs %s)" % x, "V"
            if meth in ("add", "add_", "sub", "sub_") and len(args) == 1 and not kw:
                x, tx = self.expr(f.value, env)
                y, ty = self.expr(args[0], env)
                sub = meth.startswith("sub")
                if tx == "V" and ty in ("V", "BV"):
                    return "(%s ROps %s %s)" % ("vsub" if sub else "vadd", x, self.coerce(y, ty, "V")), "V"
                if tx == F and ty in (F, Z):
                    return "(%s %s %s)" % ("Rminus" if sub else "Rplus", x, self.coerce(y, ty, F)), F
                if tx in ("V", "BV") and ty in (F, Z):
                    return "(map (fun x_ => %s x_ %s) %s)" % ("Rminus" if sub else "Rplus", self.coerce(y, ty, F), self.coerce(x, tx, "V")), "V"
            if meth in self.MAPS and not args and not kw:
                x, tx = self.expr(f.value, env)
                g = self.MAPS[meth]
                if tx == "V":
                    return "(map %s %s)" % (g, x), "V"
                if tx in (F, Z):
                    return "(%s %s)" % (g, self.coerce(x, tx, F)), F
            if meth in ("clamp", "clamp_") and not args and set(kw) == {"min", "max"} and ast.unparse(kw["min"]) == "0" and ast.unparse(kw["max"]) == "1":
                x, tx = self.expr(f.value, env)
                if tx == "V":
                    return "(map clamp01 %s)" % x, "V"
                if tx == F:
                    return "(clamp01 %s)" % x, F
            if meth == "view" and len(args) == 2 and ast.unparse(args[1]) == "-1" and isinstance(args[0], ast.Starred):
                x, tx = self.expr(f.value, env)
                if tx == "V":                               # a per-row matrix already held row-major flattened
                    return x, "V"
            if meth in ("unsqueeze", "unsqueeze_") and len(args) == 1 and self.spec.get("pairwise"):
                return self.expr(f.value, env)              # outer sum read pairwise
        return None


class CplxTr(VecTr):
    """utils/cplx.py in its ELEMENTWISE reading: a complex tensor x (leading axis of length 2) is read as one complex number
    (real(x), imag(x)) : R * R, a real tensor as one real; only operations that act entry by entry are accepted, so the tensor
    result is the entrywise map of the scalar result (same trusted reading as VecTr).  Module-level helpers (conj, scalar_mult,
    elementwise_mult, inverse ...) are inlined from the current source.  The out-buffer idiom of scalar_mult
        torch.mul(A, B, out=real(out)).sub_(E)      torch.mul(A, B, out=imag(out)).add_(E)
    is read as a write of A*B -/+ E to that component of `out`; the kernel is the out=None path (a fresh zero buffer)."""

    def expr(self, node, env):
        self.inplace_guard(node, env)
        if isinstance(node, ast.Call) and isinstance(node.func, ast.Name):
            fn, args, kws = node.func.id, node.args, node.keywords
            if fn in ("real", "imag") and len(args) == 1 and not kws:
                a, ta = self.expr(args[0], env)
                if ta == "C":
                    return "(%s %s)" % ("fst" if fn == "real" else "snd", a), F
                raise Untranslatable("%s() of a %s" % (fn, ta))
            if fn == "make_complex" and not kws and len(args) in (1, 2):
                parts = [self.expr(a, env) for a in args]
                if all(t in (F, Z) for _, t in parts):
                    re_ = self.coerce(parts[0][0], parts[0][1], F)
                    im_ = self.coerce(parts[1][0], parts[1][1], F) if len(parts) == 2 else "(IZR 0)"
                    return "(%s, %s)" % (re_, im_), "C"
                raise Untranslatable("make_complex of non-reals")
            if fn in self.funcs and fn not in ("real", "imag", "make_complex"):
                return self.inline(self.funcs[fn], node, env)
        if isinstance(node, ast.Call) and ast.unparse(node.func) == "torch.mul" and len(node.args) == 2 and not node.keywords:
            a, ta = self.expr(node.args[0], env)
            b, tb = self.expr(node.args[1], env)
            if ta in (F, Z) and tb in (F, Z):
                return "(Rmult %s %s)" % (self.coerce(a, ta, F), self.coerce(b, tb, F)), F
        if isinstance(node, ast.Call) and ast.unparse(node.func) == "torch.zeros" and node.args and ast.unparse(node.args[0]) == "2":
            return "(IZR 0, IZR 0)", "C"                        # a fresh complex buffer
        if isinstance(node, ast.Call) and isinstance(node.func, ast.Attribute) and not node.keywords:
            meth, args = node.func.attr, node.args
            if meth in ("pow", "pow_") and len(args) == 1 and ast.unparse(args[0]) == "2":
                x, tx = self.expr(node.func.value, env)
                if tx == F:
                    return "(Rsqr %s)" % x, F
            if meth in ("div", "div_") and len(args) == 1:
                x, tx = self.expr(node.func.value, env)
                y, ty = self.expr(args[0], env)
                if tx == "C" and ty in (F, Z):
                    return self.cdivr(x, self.coerce(y, ty, F)), "C"
        if isinstance(node, ast.BinOp) and isinstance(node.op, ast.Div):
            x, tx = self.expr(node.left, env)
            y, ty = self.expr(node.right, env)
            if tx == "C" and ty in (F, Z):
                return self.cdivr(x, self.coerce(y, ty, F)), "C"
        return VecTr.expr(self, node, env)

    PINS = {"real": "return x[0, ...]", "imag": "return x[1, ...]",
            "make_complex": "if isinstance(x, np.ndarray):\n    x = x.copy()\n    return make_complex(torch.tensor(x.real), torch.tensor(x.imag)).contiguous()\n"
                            "if y is None:\n    y = torch.zeros_like(x)\nreturn torch.cat((x.unsqueeze(0), y.unsqueeze(0)), dim=0)"}

    def check_pins(self):
        for name, want in self.PINS.items():
            fn = self.funcs.get(name)
            if fn is None:
                raise Untranslatable("cplx.%s not found" % name)
            check_function_hygiene(fn, name)
            body = [st for st in fn.body if not (isinstance(st, ast.Expr) and isinstance(st.value, ast.Constant) and isinstance(st.value.value, str))]
            got = "\n".join(ast.unparse(st) for st in body)
            if got != want:
                raise Untranslatable("cplx.%s is not the pinned definition the entrywise reading assumes" % name)

    def cdivr(self, x, y):
        n = self.fresh("c")
        return "(let %s := %s in (Rdiv (fst %s) %s, Rdiv (snd %s) %s))" % (n, x, n, y, n, y)

    def inline(self, callee, node, env):
        check_function_hygiene(callee, "helper " + callee.name)
        if self.depth > 6:
            raise Untranslatable("inlining too deep")
        if callee.args.vararg or callee.args.kwarg:
            raise Untranslatable("helper %s with *args / **kwargs" % callee.name)
        params = [a.arg for a in callee.args.args]
        if len(node.args) > len(params) or node.keywords:
            raise Untranslatable("call form of helper %s" % callee.name)
        cenv = {"#n": env.get("#n", 0) + 50 * (self.depth + 1)}
        defaults = dict(zip(params[len(params) - len(callee.args.defaults):], callee.args.defaults))
        for i, pn in enumerate(params):
            if i < len(node.args):
                cenv[pn] = self.expr(node.args[i], env)
            elif pn in defaults and isinstance(defaults[pn], ast.Constant) and defaults[pn].value is None:
                cenv[pn] = ("None", "NoneT")
            else:
                raise Untranslatable("missing argument %s of helper %s" % (pn, callee.name))
        self.depth += 1
        try:
            return self.block(list(callee.body), cenv, "function")
        finally:
            self.depth -= 1

    def block(self, stmts, env, kind, target=None):
        if stmts:
            s, rest = stmts[0], stmts[1:]
            if isinstance(s, ast.If):
                src = ast.unparse(s.test)
                m = re.fullmatch(r"(\w+) is None", src)
                if m and env.get(m.group(1)) == ("None", "NoneT"):
                    return self.block(list(s.body) + rest, env, kind, target)
                if src in self.spec.get("false_tests", []):       # stated in the kernel's name: equal shapes
                    return self.block(list(s.orelse) + rest, env, kind, target)
            if isinstance(s, ast.Expr) and isinstance(s.value, ast.Call) and isinstance(s.value.func, ast.Attribute) \
                    and s.value.func.attr in ("sub_", "add_") and len(s.value.args) == 1 and not s.value.keywords:
                inner = s.value.func.value
                if isinstance(inner, ast.Call) and ast.unparse(inner.func) == "torch.mul" and len(inner.args) == 2 \
                        and [k.arg for k in inner.keywords] == ["out"]:
                    o = inner.keywords[0].value
                    if isinstance(o, ast.Call) and isinstance(o.func, ast.Name) and o.func.id in ("real", "imag") and len(o.args) == 1 \
                            and isinstance(o.args[0], ast.Name) and isinstance(env.get(o.args[0].id), tuple) and env[o.args[0].id][1] == "C":
                        buf = o.args[0].id
                        if any(isinstance(n, ast.Name) and n.id == buf for part in (inner.args[0], inner.args[1], s.value.args[0]) for n in ast.walk(part)):
                            raise Untranslatable("the out-buffer idiom reads the buffer it writes")
                        a, ta = self.expr(inner.args[0], env)
                        b, tb = self.expr(inner.args[1], env)
                        c, tc = self.expr(s.value.args[0], env)
                        if ta == F and tb == F and tc == F:
                            val = "(%s (Rmult %s %s) %s)" % ("Rminus" if s.value.func.attr == "sub_" else "Rplus", a, b, c)
                            old = env[buf][0]
                            new = "(%s, snd %s)" % (val, old) if o.func.id == "real" else "(fst %s, %s)" % (old, val)
                            return self.bind(env, buf, new, "C", lambda e: self.block(rest, e, kind, target))
                raise Untranslatable("in-place statement outside the out-buffer idiom: %s" % ast.unparse(s.value)[:80])
        return VecTr.block(self, stmts, env, kind, target)


class PairTr(VecTr):
    """SWAP.apply / swap in a PAIRWISE reading: the batch is read as one row s1 together with its partner row s2 = roll(batch)[same
    index] (an atom of the kernel table).  Writes through a region, x[:, A] = y[:, A], become bmerge A y x (y on the region, x
    elsewhere).  Aliasing is fail-closed: a region load kept in a variable must be .clone()d, and a helper that writes into a
    parameter must be called with a fresh value (<expr>.clone()), otherwise the caller's tensor would change and the value-level
    reading would be wrong."""

    def expr(self, node, env):
        self.inplace_guard(node, env)
        if isinstance(node, ast.Call) and isinstance(node.func, ast.Attribute) and node.func.attr == "clone" and not node.args and not node.keywords:
            e, t = self.expr(node.func.value, env)
            return e, ("MV" if t == "MVview" else t)
        if isinstance(node, ast.Subscript) and self._region(node, env):
            x, tx = self.expr(node.value, env)
            if tx == "BV":
                return x, "MVview"
        if isinstance(node, ast.Call) and isinstance(node.func, ast.Name) and node.func.id in self.funcs and not node.keywords:
            callee = self.funcs[node.func.id]
            check_function_hygiene(callee, "helper " + callee.name)
            params = [a.arg for a in callee.args.args]
            if callee.args.vararg or callee.args.kwarg or callee.args.defaults or len(params) != len(node.args) or self.depth > 4:
                raise Untranslatable("call form of helper %s" % callee.name)
            written = {t.value.id for st in ast.walk(callee) if isinstance(st, (ast.Assign, ast.AugAssign, ast.AnnAssign))
                       for t in (st.targets if isinstance(st, ast.Assign) else [st.target])
                       if isinstance(t, ast.Subscript) and isinstance(t.value, ast.Name)}
            if any(isinstance(st, ast.Assign) and isinstance(st.value, ast.Name) and st.value.id in params for st in ast.walk(callee)):
                written = set(params)              # a parameter aliased inside the helper: every tensor argument must be fresh
            cenv = {"#n": env.get("#n", 0) + 50 * (self.depth + 1)}
            for pn, a in zip(params, node.args):
                fresh = isinstance(a, ast.Call) and isinstance(a.func, ast.Attribute) and a.func.attr == "clone"
                if pn in written and not fresh:
                    raise Untranslatable("helper %s writes into its argument %s, which is not a fresh copy" % (callee.name, pn))
                cenv[pn] = self.expr(a, env)
                if cenv[pn][1] == "MVview":
                    raise Untranslatable("a region view passed to a helper")
                cenv = self.set_cls(cenv, pn, self.new_cls() if fresh else self.storage_of(a, env))
            self.depth += 1
            try:
                return self.block(list(callee.body), cenv, "function")
            finally:
                self.depth -= 1
        return VecTr.expr(self, node, env)

    def bind(self, env, var, e, t, rest_k):
        if t == "MVview":
            raise Untranslatable("a region view kept in a variable without .clone()")
        return VecTr.bind(self, env, var, e, t, rest_k)

    # storage classes: names that may denote the SAME tensor object share a class; a write through one name is only
    # readable as a rebinding of that name when nobody else shares its class
    def cls_of(self, env, name):
        return env.get("#cls", {}).get(name)

    def set_cls(self, env, name, c):
        env2 = dict(env); m = dict(env.get("#cls", {})); m[name] = c; env2["#cls"] = m
        return env2

    def new_cls(self):
        self.n += 1
        return "c%d" % self.n

    def storage_of(self, node, env):
        """class of the object an expression evaluates to, or a fresh class when it is certainly a new tensor"""
        if isinstance(node, ast.Name):
            return self.cls_of(env, node.id) or ("in:" + node.id)
        if isinstance(node, ast.Call) and isinstance(node.func, ast.Attribute) and node.func.attr in ("to", "detach", "contiguous", "view", "reshape", "squeeze", "unsqueeze", "t"):
            return self.storage_of(node.func.value, env)
        if isinstance(node, ast.Attribute) and node.attr in ("data", "T"):
            return self.storage_of(node.value, env)
        if isinstance(node, ast.Subscript):
            return self.storage_of(node.value, env)
        return self.new_cls()

    def _region(self, sub, env):
        sl = sub.slice
        if isinstance(sl, ast.Tuple) and len(sl.elts) == 2 and isinstance(sl.elts[0], ast.Slice) \
                and sl.elts[0].lower is None and sl.elts[0].upper is None and sl.elts[0].step is None:
            try:
                a, ta = self.expr(sl.elts[1], env)
            except Untranslatable:
                return None
            if ta == "MASK":
                return a
        return None

    def block(self, stmts, env, kind, target=None):
        if stmts and isinstance(stmts[0], ast.Assign) and len(stmts[0].targets) == 1:
            s, rest = stmts[0], stmts[1:]
            tgt = s.targets[0]
            K = lambda e: self.block(rest, e, kind, target)
            if isinstance(tgt, ast.Subscript) and isinstance(tgt.value, ast.Name):
                reg = self._region(tgt, env)
                old = env.get(tgt.value.id)
                if reg is None or not isinstance(old, tuple) or old[1] != "BV":
                    raise Untranslatable("store %s" % ast.unparse(tgt))
                y, ty = self.expr(s.value, env)
                if ty not in ("MV", "MVview"):
                    raise Untranslatable("store of a %s through a region" % ty)
                if isinstance(s.value, ast.Subscript) and self._region(s.value, env) != reg:
                    raise Untranslatable("store through one region from another")
                mine = self.cls_of(env, tgt.value.id) or ("in:" + tgt.value.id)
                names = set(env.get("#cls", {})) | {k for k in env if not k.startswith("#")}
                for other in names:
                    if other != tgt.value.id and (self.cls_of(env, other) or ("in:" + other)) == mine:
                        raise Untranslatable("store into %s, which shares its tensor with %s" % (tgt.value.id, other))
                if mine.startswith("in:") and self.depth == 0 and self.spec.get("func", "").split(".")[-1] != "swap":
                    raise Untranslatable("store into the caller's tensor %s" % tgt.value.id)
                return self.bind(env, tgt.value.id, "(bmerge %s %s %s)" % (reg, y, old[0]), "BV", K)
            if isinstance(tgt, ast.Name):
                e, t = self.expr(s.value, env)
                if t == "MVview":
                    raise Untranslatable("a region view kept in a variable without .clone()")
                env_c = self.set_cls(env, tgt.id, self.storage_of(s.value, env)) if t in ("BV", "MV", "V", "C") else env
                return self.bind(env_c, tgt.id, e, t, K)
            if isinstance(tgt, ast.Tuple) and len(tgt.elts) == 2 and all(isinstance(x, ast.Name) for x in tgt.elts) and not isinstance(s.value, ast.Tuple):
                e, t = self.expr(s.value, env)
                if isinstance(t, tuple) and len(t) == 2:
                    return self.bind(env, "pair", e, t, lambda e2: self.bind(
                        e2, tgt.elts[0].id, "(fst %s)" % e2["pair"][0], t[0], lambda e3: self.bind(
                            e3, tgt.elts[1].id, "(snd %s)" % e2["pair"][0], t[1], K)))
        return VecTr.block(self, stmts, env, kind, target)


# --------------------------------------------------------------------------- data flow of NeuralStateBase.save (C11)
def extract_save_dataflow(fn):
    """save(self, location, metadata=None) as a function to `option fcontent` (None = ValueError before anything is written,
    Some d = the record handed to torch.save).  Accepted statements, in any order that type-checks, fail-closed otherwise:
        metadata = dict(metadata) if metadata else {}           the caller's dict is COPIED (md_copy)
        if hasattr(self, "unitary_dict"): <block>               on s_ud st
        if <key> in <dict>.keys(): raise ValueError(...)        (also `<key> in <dict>`)
        <dict>[<key>] = self.unitary_dict                       dict_set
        for net in self.networks: if net in <dict>.keys(): raise ValueError(...)
        data = {net: getattr(self, net).state_dict() for net in self.networks}
        <dict>.update(**<dict>)  /  <dict>.update(<dict>)       dict_update
        torch.save(<dict>, location)                            the sink: must be the last statement on its path
    Dictionaries are the model's insertion-ordered association lists; "unitary_dict" is K_UD, a network name is its key."""
    params = [a.arg for a in fn.args.args]
    if params != ["self", "location", "metadata"] or fn.args.vararg or fn.args.kwarg or fn.args.kwonlyargs:
        raise Untranslatable("signature of save: %s" % params)
    if len(fn.args.defaults) != 1 or not (isinstance(fn.args.defaults[0], ast.Constant) and fn.args.defaults[0].value is None):
        raise Untranslatable("default of metadata")
    cnt = [0]

    def key(node, env):
        if isinstance(node, ast.Constant) and node.value == "unitary_dict":
            return "K_UD"
        if isinstance(node, ast.Name) and env.get(node.id, (None, None))[1] == "key":
            return env[node.id][0]
        raise Untranslatable("dictionary key %s" % ast.unparse(node))

    def dct(node, env):
        if isinstance(node, ast.Name) and env.get(node.id, (None, None))[1] == "dict":
            return env[node.id][0]
        raise Untranslatable("not a known dictionary: %s" % ast.unparse(node))

    def test(node, env):
        if isinstance(node, ast.Compare) and len(node.ops) == 1 and isinstance(node.ops[0], ast.In):
            d = node.comparators[0]
            if isinstance(d, ast.Call) and isinstance(d.func, ast.Attribute) and d.func.attr == "keys" and not d.args and not d.keywords:
                d = d.func.value
            return "(has_key %s %s)" % (key(node.left, env), dct(d, env))
        raise Untranslatable("test %s" % ast.unparse(node))

    def is_raise(body):
        if not (len(body) == 1 and isinstance(body[0], ast.Raise) and isinstance(body[0].exc, ast.Call) and body[0].cause is None
                and ast.unparse(body[0].exc.func) == "ValueError" and not body[0].exc.keywords):
            return False
        for a in body[0].exc.args:                     # the message: a literal or an f-string over plain names
            if isinstance(a, ast.Constant):
                continue
            if isinstance(a, ast.JoinedStr) and all(isinstance(v, ast.Constant) or (isinstance(v, ast.FormattedValue) and isinstance(v.value, ast.Name)) for v in a.values):
                continue
            return False
        return True

    def bind(env, name, e, K):
        cnt[0] += 1
        v = "%s_%d" % (name, cnt[0])
        env2 = dict(env); env2[name] = (v, "dict")
        return "(let %s : fcontent := %s in\n  %s)" % (v, e, K(env2))

    def no_end(env):
        raise Untranslatable("a path ends without torch.save")

    def block(stmts, env, end=no_end):
        if not stmts:
            return end(env)
        st, rest = stmts[0], stmts[1:]
        K = lambda e: block(rest, e, end)
        if isinstance(st, ast.Expr) and isinstance(st.value, ast.Constant) and isinstance(st.value.value, str):
            return K(env)
        src = ast.unparse(st)
        if src == "metadata = dict(metadata) if metadata else {}":
            if env["metadata"][1] != "raw":
                raise Untranslatable("metadata copied twice")
            return bind(env, "metadata", "(md_copy md0)", K)
        if isinstance(st, ast.If) and not st.orelse and ast.unparse(st.test) == "hasattr(self, 'unitary_dict')":
            if env.get("#u"):
                raise Untranslatable("nested unitary_dict guards")
            env_u = dict(env); env_u["#u"] = True
            def leave(e):
                e2 = dict(e); e2.pop("#u", None)
                return block(rest, e2, end)
            return "(match s_ud st with\n  | Some u => %s\n  | None => %s\n  end)" % (block(list(st.body), env_u, leave), K(env))
        if isinstance(st, ast.If) and not st.orelse and is_raise(st.body):
            return "(if %s then None else\n  %s)" % (test(st.test, env), K(env))
        if isinstance(st, ast.For) and not st.orelse and isinstance(st.target, ast.Name) and ast.unparse(st.iter) == "self.networks" \
                and len(st.body) == 1 and isinstance(st.body[0], ast.If) and not st.body[0].orelse and is_raise(st.body[0].body):
            def uses_outside_comprehensions(node, name):
                if isinstance(node, (ast.DictComp, ast.ListComp, ast.SetComp, ast.GeneratorExp)) and any(
                        isinstance(t, ast.Name) and t.id == name for g in node.generators for t in ast.walk(g.target)):
                    return False
                if isinstance(node, ast.Name) and node.id == name:
                    return True
                return any(uses_outside_comprehensions(c, name) for c in ast.iter_child_nodes(node))
            if st.target.id in env or st.target.id in ("self", "location", "metadata", "data") or any(uses_outside_comprehensions(r, st.target.id) for r in rest):
                raise Untranslatable("the loop variable %s is used outside its loop" % st.target.id)
            env2 = dict(env); env2[st.target.id] = ("(fst nk)", "key")
            return "(if existsb (fun nk => %s) (s_nets st) then None else\n  %s)" % (test(st.body[0].test, env2), K(env))
        if isinstance(st, ast.Assign) and len(st.targets) == 1:
            tgt = st.targets[0]
            if isinstance(tgt, ast.Subscript) and isinstance(tgt.value, ast.Name) and ast.unparse(st.value) == "self.unitary_dict":
                if not env.get("#u"):
                    raise Untranslatable("self.unitary_dict read outside the hasattr guard")
                return bind(env, tgt.value.id, "(dict_set %s u %s)" % (key(tgt.slice, env), dct(tgt.value, env)), K)
            if isinstance(tgt, ast.Name) and src.split(" = ", 1)[1] == "{net: getattr(self, net).state_dict() for net in self.networks}":
                return bind(env, tgt.id, "(map (fun nk => (fst nk, FNet (n_params (snd nk)))) (s_nets st))", K)
        if isinstance(st, ast.Expr) and isinstance(st.value, ast.Call) and isinstance(st.value.func, ast.Attribute) and st.value.func.attr == "update" \
                and isinstance(st.value.func.value, ast.Name):
            c = st.value
            arg = None
            if not c.args and len(c.keywords) == 1 and c.keywords[0].arg is None:      # d.update(**m) only: d.update(m) differs for non-string keys
                arg = c.keywords[0].value
            if arg is not None:
                return bind(env, c.func.value.id, "(dict_update %s %s)" % (dct(c.func.value, env), dct(arg, env)), K)
        if isinstance(st, ast.Expr) and isinstance(st.value, ast.Call) and ast.unparse(st.value.func) == "torch.save" \
                and len(st.value.args) == 2 and not st.value.keywords and ast.unparse(st.value.args[1]) == "location":
            if rest or env.get("#u"):
                raise Untranslatable("torch.save is not the last statement of save")
            return "Some %s" % dct(st.value.args[0], env)
        raise Untranslatable("statement of save outside the supported subset: %s" % src[:90])

    env0 = {"metadata": ("md0", "raw")}
    return block(list(fn.body), env0)


# --------------------------------------------------------------------------- control skeleton of fit (C12)
EVENT_KINDS = {"on_train_start": ("KTrainStart", 0), "on_epoch_start": ("KEpochStart", 1), "on_batch_start": ("KBatchStart", 2),
               "on_batch_end": ("KBatchEnd", 2), "on_epoch_end": ("KEpochEnd", 1), "on_train_end": ("KTrainEnd", 0)}
SETUP_PATTERNS = ["callbacks = CallbackList($a)", "optimizer = optimizer($a, lr=lr, **optimizer_args)", "optimizer.zero_grad()",
                  "optimizer_args = $a", "scheduler_args = $a"]


def _is_stop_test(t):
    return isinstance(t, ast.Attribute) and t.attr == "stop_training" and isinstance(t.value, ast.Name) and t.value.id == "self"


FIT_SELF_CALLS = {"_shuffle_data", "compute_batch_gradients", "parameters", "named_parameters"}      # trusted not to touch the stop flag / the callbacks


def _sensitive(node):
    for n in ast.walk(node):
        if isinstance(n, (ast.Break, ast.Continue, ast.Return, ast.Raise, ast.While, ast.Try)):
            return True
        if isinstance(n, ast.Name) and n.id == "callbacks":
            return True
        if isinstance(n, ast.Attribute) and n.attr in ("stop_training", "_stop_training"):
            return True
        if isinstance(n, ast.Attribute) and n.attr in ("step", "__dict__", "__setattr__", "__class__"):
            return True
        if isinstance(n, ast.Assert):
            return True
        if isinstance(n, ast.Call) and isinstance(n.func, ast.Name) and n.func.id in ("setattr", "delattr", "vars", "locals", "globals", "exec", "eval"):
            return True
        if isinstance(n, ast.Call) and isinstance(n.func, ast.Attribute) and isinstance(n.func.value, ast.Name) and n.func.value.id == "self" \
                and n.func.attr not in FIT_SELF_CALLS:
            return True                       # a method of the state may raise the stop flag or call the callbacks
        if isinstance(n, ast.Name) and isinstance(n.ctx, (ast.Store, ast.Del)) and n.id in ("self", "ep", "b", "epochs", "starting_epoch"):
            return True
    return False


def extract_fit_skeleton(fn):
    """the five item lists of Skeleton.skel, as Coq text; fail-closed"""
    for nm in ("callbacks", "optimizer", "data_iterator"):
        sites = [n for n in ast.walk(fn) if isinstance(n, ast.Name) and isinstance(n.ctx, (ast.Store, ast.Del)) and n.id == nm]
        top = [st for st in fn.body if isinstance(st, ast.Assign) and any(isinstance(t_, ast.Name) and t_.id == nm for t_ in st.targets)]
        if nm != "data_iterator" and (len(sites) != 1 or len(top) != 1):
            raise Untranslatable("%s is bound %d times in fit (once, at the top level, is the skeleton's set-up)" % (nm, len(sites)))
        if nm == "data_iterator" and (len(sites) != 1 or not any(
                isinstance(n, ast.Assign) and ast.unparse(n.targets[0]) == nm and isinstance(n.value, ast.Call) and ast.unparse(n.value.func) == "self._shuffle_data" for n in ast.walk(fn))):
            raise Untranslatable("data_iterator is not bound once to self._shuffle_data(...)")
    def items_of(stmts, ep, b, where):
        out, loops = [], []
        for st in stmts:
            if isinstance(st, ast.Expr) and isinstance(st.value, ast.Constant):
                continue
            # callback dispatch
            if isinstance(st, ast.Expr) and isinstance(st.value, ast.Call) and isinstance(st.value.func, ast.Attribute) \
                    and isinstance(st.value.func.value, ast.Name) and st.value.func.value.id == "callbacks" \
                    and st.value.func.attr in EVENT_KINDS:
                kind, nargs = EVENT_KINDS[st.value.func.attr]
                args = [ast.unparse(a) for a in st.value.args]
                want = ["self"] + ([ep] if nargs >= 1 else []) + ([b] if nargs >= 2 else [])
                if st.value.keywords or args != want or None in want:
                    raise Untranslatable("dispatch %s with arguments %s (expected %s) %s" % (st.value.func.attr, args, want, where))
                out.append("IEmit " + kind)
                continue
            if isinstance(st, ast.Expr) and ast.unparse(st.value) == "optimizer.step()":
                out.append("IOpt")
                continue
            if isinstance(st, ast.If) and not st.orelse and ast.unparse(st.test) == "scheduler is not None" \
                    and len(st.body) == 1 and isinstance(st.body[0], ast.Expr) and ast.unparse(st.body[0].value) == "scheduler.step()":
                out.append("ISched")
                continue
            if isinstance(st, ast.If) and not st.orelse and _is_stop_test(st.test) and len(st.body) == 1:
                if isinstance(st.body[0], ast.Break):
                    out.append("IBreakIfStop")
                    continue
                if isinstance(st.body[0], ast.Return) and st.body[0].value is None:
                    out.append("IReturnIfStop")
                    continue
            if isinstance(st, ast.For) and _sensitive(st):
                loops.append((len(out), st))
                out.append(st)
                continue
            if not _sensitive(st):
                continue
            # (no exemption for `if <test>: raise` validation: the skeleton machine has no refusing runs, and fit has none at HEAD)
            # set-up statements that mention the sensitive names but emit nothing
            ok = False
            for pat in SETUP_PATTERNS:
                target = st.value if isinstance(st, ast.Expr) else st
                pp = ast.parse(pat.replace("$", "H_")).body[0]
                pp = pp.value if isinstance(pp, ast.Expr) and isinstance(st, ast.Expr) else pp
                if _match(pp, target, {}):
                    ok = True
            src = ast.unparse(st)
            if src.replace("\n", " ").replace("  ", " ") in ("if time: callbacks.append(Timer())", "if time:     callbacks.append(Timer())"):
                ok = True
            if isinstance(st, ast.If) and ast.unparse(st.test) == "time" and not st.orelse and len(st.body) == 1 \
                    and ast.unparse(st.body[0]) == "callbacks.append(Timer())":
                ok = True
            if isinstance(st, ast.If) and ast.unparse(st.test) == "scheduler is not None" and not st.orelse and len(st.body) == 1 \
                    and ast.unparse(st.body[0]).startswith("scheduler = scheduler(optimizer"):
                ok = True
            if not ok:
                raise Untranslatable("statement of fit that touches callbacks / the stop flag / step() / control flow and is not in the skeleton table: %s" % src[:90])
        return out

    top = items_of(list(fn.body), None, None, "outside the epoch loop")
    loops = [x for x in top if isinstance(x, ast.For)]
    if len(loops) != 1:
        raise Untranslatable("%d protocol-relevant loops at the top level of fit" % len(loops))
    eloop = loops[0]
    if eloop.orelse or not isinstance(eloop.target, ast.Name):
        raise Untranslatable("epoch loop with else / non-name target")
    i = top.index(eloop)
    pre, post = top[:i], top[i + 1:]
    ep = eloop.target.id
    inner = items_of(list(eloop.body), ep, None, "in the epoch loop")
    bl = [x for x in inner if isinstance(x, ast.For)]
    if len(bl) != 1:
        raise Untranslatable("%d protocol-relevant loops inside the epoch loop" % len(bl))
    bloop = bl[0]
    if bloop.orelse:
        raise Untranslatable("batch loop with else")
    it = bloop.iter
    if isinstance(bloop.target, ast.Tuple) and len(bloop.target.elts) == 2 and isinstance(bloop.target.elts[0], ast.Name) \
            and isinstance(it, ast.Call) and ast.unparse(it.func) == "enumerate" and len(it.args) == 1 and not it.keywords \
            and isinstance(it.args[0], ast.Name):
        bvar = bloop.target.elts[0].id
    elif isinstance(bloop.target, ast.Name) and isinstance(it, ast.Call) and ast.unparse(it.func) == "range" and len(it.args) == 1:
        bvar = bloop.target.id
    else:
        raise Untranslatable("batch loop is not `for b, batch in enumerate(...)` / `for b in range(n)`")
    j = inner.index(bloop)
    epre, epost = inner[:j], inner[j + 1:]
    body = items_of(list(bloop.body), ep, bvar, "in the batch loop")
    for grp in (pre, post, epre, epost, body):
        if any(isinstance(x, ast.For) for x in grp):
            raise Untranslatable("protocol-relevant loop nested too deep")
    if any(x == "IBreakIfStop" for x in pre + post):
        raise Untranslatable("break outside a loop")
    fmt = lambda l: "[" + "; ".join(l) + "]"
    return "mkSkel %s\n         %s\n         %s\n         %s\n         %s" % (fmt(pre), fmt(epre), fmt(body), fmt(epost), fmt(post))

# --------------------------------------------------------------------------- data-flow skeleton of gibbs_steps (C05)
COND_OF = {"prob_h_given_v": ("CHgV", 1), "prob_a_given_v": ("CAgV", 1), "prob_v_given_h": ("CVgH", 1), "prob_v_given_ha": ("CVgHA", 2)}


def _sampler_cond(funcs, name):
    """sample_X(self, <srcs>, out=None): t = self.prob_Y(<srcs>, out=out); t = torch.bernoulli(t, out=out); return t  ->  (cond, nsrc)"""
    fn = funcs.get(name)
    if fn is None:
        raise Untranslatable("method %s not found" % name)
    check_function_hygiene(fn, name)
    if fn.decorator_list:
        raise Untranslatable("%s carries a decorator" % name)
    body = [x for x in fn.body if not (isinstance(x, ast.Expr) and isinstance(x.value, ast.Constant))]
    params = [a.arg for a in fn.args.args if a.arg != "self"]
    if len(body) != 3 or not params or params[-1] != "out":
        raise Untranslatable("%s is not of the form prob -> bernoulli(out=out) -> return" % name)
    srcs = params[:-1]
    a1, a2, ret = body
    if not (isinstance(a1, ast.Assign) and len(a1.targets) == 1 and isinstance(a1.targets[0], ast.Name) and isinstance(a1.value, ast.Call)
            and isinstance(a1.value.func, ast.Attribute) and ast.unparse(a1.value.func.value) == "self" and a1.value.func.attr in COND_OF
            and [ast.unparse(x) for x in a1.value.args] == srcs and [(k.arg, ast.unparse(k.value)) for k in a1.value.keywords] == [("out", "out")]):
        raise Untranslatable("%s: first statement is not `t = self.prob_*(%s, out=out)`" % (name, ", ".join(srcs)))
    t = a1.targets[0].id
    if not (isinstance(a2, ast.Assign) and len(a2.targets) == 1 and ast.unparse(a2.targets[0]) == t
            and ast.unparse(a2.value) == "torch.bernoulli(%s, out=out)" % t):
        raise Untranslatable("%s: second statement is not `%s = torch.bernoulli(%s, out=out)`" % (name, t, t))
    if not (isinstance(ret, ast.Return) and ret.value is not None and ast.unparse(ret.value) == t):
        raise Untranslatable("%s does not return the drawn tensor" % name)
    cond, n = COND_OF[a1.value.func.attr]
    if n != len(srcs):
        raise Untranslatable("%s: wrong number of sources" % name)
    return cond, n


def extract_gibbs_skeleton(funcs, fn):
    regs = {}
    body = [x for x in fn.body if not (isinstance(x, ast.Expr) and isinstance(x.value, ast.Constant))]
    loop = None
    stage = 0
    for st in body:
        src = " ".join(ast.unparse(st).split())
        if stage == 0 and isinstance(st, ast.Assign) and len(st.targets) == 1 and isinstance(st.targets[0], ast.Name):
            name = st.targets[0].id
            if re.fullmatch(r"\(initial_state if overwrite else initial_state\.clone\(\)\)\.to\(self\.weights(_W)?\)", " ".join(ast.unparse(st.value).split())):
                regs[name] = "RV"
                continue
            if regs.get(name) == "RV" and " ".join(ast.unparse(st.value).split()) == name + ".contiguous()":
                regs["#contiguous"] = True
                continue                   # dense working memory (a strided start state is copied, written back below)
            m = re.fullmatch(r"torch\.zeros\(\*%s\.shape\[:-1\], self\.num_(hidden|aux)\)\.to\(self\.weights(_W)?\)" % re.escape(next((k for k, v in regs.items() if v == "RV"), "v")),
                             " ".join(ast.unparse(st.value).split()))
            if m:
                regs[name] = "RH" if m.group(1) == "hidden" else "RA"
                continue
            raise Untranslatable("set-up statement of gibbs_steps outside the skeleton table: %s" % src[:90])
        if stage == 0 and isinstance(st, ast.For):
            if st.orelse or ast.unparse(st.iter) != "range(k)" or not isinstance(st.target, ast.Name):
                raise Untranslatable("the sampling loop is not `for _ in range(k)`")
            loop, stage = st, 1
            continue
        if stage == 1 and isinstance(st, ast.If) and not st.orelse and len(st.body) in (1, 2) \
                and " ".join(ast.unparse(st.test).split()) == "overwrite and v is not initial_state and (v.device == initial_state.device)" \
                and ast.unparse(st.body[0]) == "initial_state.copy_(v)" \
                and (len(st.body) == 1 or " ".join(ast.unparse(st.body[1]).split()) == "if initial_state.dtype == v.dtype: return initial_state"):
            regs["#writeback"] = True
            continue                       # write-back when .to() / .contiguous() had to copy (storage model: Gibbs.gibbs_call)
        if stage == 1 and isinstance(st, ast.Return) and st.value is not None and regs.get(ast.unparse(st.value)) == "RV":
            stage = 2
            continue
        raise Untranslatable("statement of gibbs_steps outside the skeleton table: %s" % src[:90])
    if loop is None or stage != 2:
        raise Untranslatable("gibbs_steps has no sampling loop / does not return the chain tensor")
    if not (regs.get("#contiguous") and regs.get("#writeback")):
        raise Untranslatable("gibbs_steps lacks the dense working copy / the write-back of the storage model")
    steps = []
    for st in loop.body:
        if not (isinstance(st, ast.Expr) and isinstance(st.value, ast.Call) and isinstance(st.value.func, ast.Attribute)
                and ast.unparse(st.value.func.value) == "self" and st.value.func.attr.startswith("sample_")):
            raise Untranslatable("loop statement is not a call of a sample_* method: %s" % ast.unparse(st)[:80])
        cond, n = _sampler_cond(funcs, st.value.func.attr)
        kws = {k.arg: ast.unparse(k.value) for k in st.value.keywords}
        if len(st.value.args) != n or set(kws) != {"out"}:
            raise Untranslatable("sample_* call with unexpected arguments: %s" % ast.unparse(st)[:80])
        rr = lambda nm: regs.get(nm, "RX")
        srcs = [rr(ast.unparse(a)) for a in st.value.args]
        steps.append("mkG %s %s %s %s" % (rr(kws["out"]), cond, srcs[0], srcs[-1]))
    return "[" + "; ".join(steps) + "]"


# --------------------------------------------------------------------------- locating source functions
def find_function(tree, qual):
    parts = qual.split(".")
    body = tree.body
    node = None
    for p in parts:
        node = None
        for n in body:
            if isinstance(n, (ast.FunctionDef, ast.ClassDef)) and n.name == p:
                node = n
                break
        if node is None:
            return None
        body = node.body
    return node if isinstance(node, ast.FunctionDef) else None


def class_functions(tree, qual):
    parts = qual.split(".")
    if len(parts) < 2:
        return {}
    body = tree.body
    for p in parts[:-1]:
        nxt = None
        for n in body:
            if isinstance(n, ast.ClassDef) and n.name == p:
                nxt = n
        if nxt is None:
            return {}
        body = nxt.body
    return {n.name: n for n in body if isinstance(n, ast.FunctionDef)}


_PINS = None


def decorator_source(repo):
    try:
        t = ast.parse(open(os.path.join(repo, "qucumber/utils/__init__.py")).read())
    except (OSError, SyntaxError):
        return None
    cls = [n for n in t.body if isinstance(n, ast.ClassDef) and n.name == "auto_unsqueeze_args"]
    if len(cls) != 1 or scope_binders(t.body).get("auto_unsqueeze_args") != 1:
        return None
    c = cls[0]
    for f_ in ast.walk(c):
        if isinstance(f_, (ast.FunctionDef, ast.ClassDef)) and f_.body and isinstance(f_.body[0], ast.Expr) and isinstance(f_.body[0].value, ast.Constant) and isinstance(f_.body[0].value.value, str):
            f_.body = f_.body[1:] or [ast.Pass()]
    return ast.unparse(c)


def function_text(fn):
    import copy
    f2 = copy.deepcopy(fn)
    f2.body = [st for st in f2.body if not (isinstance(st, ast.Expr) and isinstance(st.value, ast.Constant) and isinstance(st.value.value, str))] or [ast.Pass()]
    return ast.unparse(f2)


def kernel_skeleton(fn, target):
    """the function with the right-hand sides of the assignments to `target` blanked: what a `local` kernel does NOT translate
    (iteration spaces, initial values of loop-carried variables, what the result is used for) is pinned as text instead"""
    import copy
    f2 = copy.deepcopy(fn)
    f2.body = [st for st in f2.body if not (isinstance(st, ast.Expr) and isinstance(st.value, ast.Constant) and isinstance(st.value.value, str))]
    attr = target[5:] if target.startswith("self_") else None
    if attr:
        for n in ast.walk(f2):
            if isinstance(n, ast.Assign) and len(n.targets) == 1 and ast.unparse(n.targets[0]) == "self." + attr:
                n.value = ast.Constant("KERNEL")
    aug = any(isinstance(n, ast.AugAssign) and isinstance(n.target, ast.Name) and n.target.id == target for n in ast.walk(f2))
    for n in ast.walk(f2):
        if not aug and isinstance(n, ast.Assign) and len(n.targets) == 1 and isinstance(n.targets[0], ast.Name) and n.targets[0].id == target:
            n.value = ast.Constant("KERNEL")          # the update is an augmented assignment when there is one: initial values stay pinned
        elif isinstance(n, ast.AugAssign) and isinstance(n.target, ast.Name) and n.target.id == target:
            n.value = ast.Constant("KERNEL")
    return ast.unparse(f2)


def _param_pins():
    global _PINS
    if _PINS is None:
        try:
            _PINS = json.load(open(os.path.join(os.path.dirname(os.path.abspath(__file__)), "srctie_params.json")))
        except (OSError, ValueError):
            _PINS = {}
    return _PINS


def translate_kernel(repo, spec):
    """returns (coq definition text, result type) or raises Untranslatable"""
    path = os.path.join(repo, spec["file"])
    try:
        tree = ast.parse(open(path).read())
    except (OSError, SyntaxError) as ex:
        raise Untranslatable("cannot parse %s: %s" % (spec["file"], ex))
    if spec.get("kind") == "classconst":
        cls, attr = spec["func"].rsplit(".", 1)
        body = tree.body
        for p in cls.split("."):
            nxt = [n for n in body if isinstance(n, ast.ClassDef) and n.name == p]
            if not nxt:
                raise Untranslatable("class %s not found" % cls)
            body = nxt[0].body
        vals = [n.value for n in body if isinstance(n, ast.Assign) and len(n.targets) == 1 and isinstance(n.targets[0], ast.Name) and n.targets[0].id == attr]
        if len(vals) != 1:
            raise Untranslatable("%d class-level assignments of %s" % (len(vals), attr))
        tr = Tr(spec, {})
        e, t = tr.expr(vals[0], {})
        return "Definition gen_%s : %s :=\n  %s." % (spec["name"], cty(t), e), t
    fn = find_function(tree, spec["func"])
    if fn is None:
        raise Untranslatable("function %s not found in %s" % (spec["func"], spec["file"]))
    # the definition the translator reads must be the one Python runs: one binding per name, no rebound builtins / module aliases,
    # no decorators beyond the known ones, no generators / walrus / global state, and the pinned positional signature
    helpers = ({n.name for n in tree.body if isinstance(n, ast.FunctionDef)} if "." not in spec["func"] or spec.get("cplx") or spec.get("pairwise_swap")
               else set(class_functions(tree, spec["func"])))
    used = {n.func.id for n in ast.walk(fn) if isinstance(n, ast.Call) and isinstance(n.func, ast.Name)} | \
           {n.func.attr for n in ast.walk(fn) if isinstance(n, ast.Call) and isinstance(n.func, ast.Attribute) and isinstance(n.func.value, ast.Name) and n.func.value.id == "self"}
    scan = [fn] + [n for n in ast.walk(tree) if isinstance(n, ast.FunctionDef) and n.name in (helpers & used)]
    aliases = {n.value.id for f_ in scan for n in ast.walk(f_) if isinstance(n, ast.Attribute) and isinstance(n.value, ast.Name) and n.value.id in MODULE_ALIASES}
    check_module_hygiene(tree, spec["func"], sorted(helpers & used), sorted(aliases))
    check_function_hygiene(fn, spec["func"])
    pats = [parse_pattern(p_) for p_, _c, _t in spec.get("atoms", [])]
    atom_calls = {n.func.attr for pt in pats for n in ast.walk(pt) if isinstance(n, ast.Call) and isinstance(n.func, ast.Attribute)}
    protected = {spec["func"].split(".")[-1]} | (helpers & used) | atom_calls | \
        ({"sample_h_given_v", "sample_v_given_h", "sample_a_given_v", "sample_v_given_ha", "prob_h_given_v", "prob_v_given_h", "prob_a_given_v", "prob_v_given_ha"}
         if spec.get("kind") == "gibbs-skeleton" else set()) | set(spec.get("protected", []))
    free_names = {n.func.id for f_ in scan for n in ast.walk(f_) if isinstance(n, ast.Call) and isinstance(n.func, ast.Name)} | \
        {n.func.id for pt in pats for n in ast.walk(pt) if isinstance(n, ast.Call) and isinstance(n.func, ast.Name)} | \
        {ast.unparse(d.func if isinstance(d, ast.Call) else d) for f_ in scan for d in f_.decorator_list}
    check_rebinding(tree, spec["func"], protected, free_names, init_ok=atom_calls - {spec["func"].split(".")[-1]} - (helpers & used))
    pins = _param_pins()
    key = "%s::%s" % (spec["file"], spec["func"])
    now = [a.arg for a in fn.args.args] + ["*" + a.arg for a in fn.args.kwonlyargs]
    if key in pins and pins[key] != now:
        raise Untranslatable("the signature of %s is %s, pinned %s" % (spec["func"], now, pins[key]))
    if key not in pins and os.environ.get("SRCTIE_WRITE_PINS") != "1":
        raise Untranslatable("no pinned signature for %s (run tools/pin_srctie_params.py)" % key)
    decs = [ast.unparse(d) for d in fn.decorator_list]
    if pins.get(key + "#decorators", []) != decs and os.environ.get("SRCTIE_WRITE_PINS") != "1":
        raise Untranslatable("the decorators of %s are %s, pinned %s" % (spec["func"], decs, pins.get(key + "#decorators", [])))
    if any(d.startswith("auto_unsqueeze_args") for f_ in scan for d in [ast.unparse(x) for x in f_.decorator_list]) and os.environ.get("SRCTIE_WRITE_PINS") != "1":
        if pins.get("#auto_unsqueeze_args") != decorator_source(repo):
            raise Untranslatable("qucumber/utils/__init__.py::auto_unsqueeze_args differs from the pinned definition the row-wise reading assumes")
    if spec.get("kind") in ("range", "guard"):
        # these kinds read one expression in the ENTRY environment: nothing it mentions may be rebound anywhere in the function
        bound = scope_binders(fn.body)
        for n in ast.walk(fn):
            if isinstance(n, ast.Attribute) and isinstance(n.ctx, (ast.Store, ast.Del)) and isinstance(n.value, ast.Name) and n.value.id == "self":
                bound["self." + n.attr] = 1
        watch = {py for py, _c, _t in spec["inputs"]} | {"self"} | \
            {ast.unparse(n) for pt in pats for n in ast.walk(pt) if isinstance(n, ast.Attribute) and isinstance(n.value, ast.Name) and n.value.id == "self"}
        if spec.get("kind") == "range":
            watch |= {"progress_bar"} - set()
        hit = sorted(w for w in watch if bound.get(w) and not (w == "progress_bar"))
        if hit:
            raise Untranslatable("%s is rebound inside %s" % (", ".join(hit), spec["func"]))
    if spec.get("kind") == "raises" or spec.get("pairwise") or spec.get("pin_function"):
        tkey = key + "#text"
        if pins.get(tkey) != function_text(fn) and os.environ.get("SRCTIE_WRITE_PINS") != "1":
            raise Untranslatable("the text of %s differs from the pinned one (this kind of kernel is only read at the pinned text)" % spec["func"])
    if spec.get("outputs_pat"):
        cb = {}
        parts_ = spec["func"].split(".")
        if len(parts_) > 1:
            cl = [c for c in tree.body if isinstance(c, ast.ClassDef) and c.name == parts_[0]]
            cb = scope_binders(cl[0].body) if cl else {}
        for pat_, _nm in spec["outputs_pat"]:
            attr = pat_.split(".")[-1]
            if cb.get(attr):
                raise Untranslatable("the attribute %s is bound at class level (property / descriptor)" % attr)
    if spec.get("pin_skeleton") or spec.get("kind") == "local":
        sk = kernel_skeleton(fn, spec["target"])
        skey = key + "#skeleton:" + spec["target"]
        if pins.get(skey) != sk and os.environ.get("SRCTIE_WRITE_PINS") != "1":
            raise Untranslatable("the code around the kernel statement (loops, initial values, use of the result) differs from the pinned skeleton of %s" % spec["func"])
    if spec.get("kind") == "gibbs-skeleton":
        return "Definition gen_%s : list gstep :=\n  %s." % (spec["name"], extract_gibbs_skeleton(class_functions(tree, spec["func"]), fn)), "list gstep"
    if spec.get("kind") == "save-dataflow":
        return "Definition gen_%s (st : state) (md0 : option (list (key * val))) : option fcontent :=\n  %s." % (spec["name"], extract_save_dataflow(fn)), "option fcontent"
    if spec.get("kind") == "fit-skeleton":
        return "Definition gen_%s : skel :=\n  %s." % (spec["name"], extract_fit_skeleton(fn)), "skel"
    if spec.get("cplx"):
        CplxTr(spec, {n.name: n for n in tree.body if isinstance(n, ast.FunctionDef)}).check_pins()
    if spec.get("pairwise_swap"):
        tr = PairTr(spec, {n.name: n for n in tree.body if isinstance(n, ast.FunctionDef)})
    elif spec.get("cplx"):
        tr = CplxTr(spec, {n.name: n for n in tree.body if isinstance(n, ast.FunctionDef)})
    else:
        tr = (VecTr if spec.get("vec") else Tr)(spec, class_functions(tree, spec["func"]))
    env = {}
    for py, coq, ty in spec["inputs"]:
        env[py] = (coq, ty)
    for py, (coq, ty) in spec.get("assume", {}).items():
        env[py] = (coq, ty)                   # a parameter fixed to a constant for this kernel (stated in the kernel name)
    tr.base_env = dict(env)
    kind = spec.get("kind", "function")
    if kind == "function":
        # every Python parameter must be a declared input (or self / listed as unused)
        for a in fn.args.args + fn.args.kwonlyargs:
            if a.arg not in env and a.arg != "self" and a.arg not in spec.get("unused_params", []) and a.arg not in spec.get("assume", {}):
                raise Untranslatable("parameter %s of %s is not in the kernel table" % (a.arg, spec["func"]))
        if fn.args.vararg or fn.args.kwarg:
            raise Untranslatable("*args / **kwargs")
    if kind == "guard":
        body = [x for x in fn.body if not (isinstance(x, ast.Expr) and isinstance(x.value, ast.Constant) and isinstance(x.value.value, str))]
        gate_names = {py for py, _c, _t in spec["inputs"]}
        gate_attrs = {n.attr for pt in pats for n in ast.walk(pt) if isinstance(n, ast.Attribute)}
        guarded = (body[0].body if body and isinstance(body[0], ast.If) and not (len(body) >= 2 and len(body[0].body) == 1 and isinstance(body[0].body[0], ast.Return)) else body[1:])
        for st_ in guarded:
            for n in ast.walk(st_):
                if isinstance(n, (ast.Return, ast.Raise, ast.Continue, ast.Break, ast.While, ast.Try)):
                    raise Untranslatable("the guarded action of %s contains %s" % (spec["func"], type(n).__name__))
                if isinstance(n, (ast.If, ast.IfExp)) and any((isinstance(m, ast.Name) and m.id in gate_names) or (isinstance(m, ast.Attribute) and m.attr in gate_attrs) for m in ast.walk(n.test)):
                    raise Untranslatable("the guarded action of %s tests the gate's inputs again: %s" % (spec["func"], ast.unparse(n.test)[:60]))
        early = (len(body) >= 2 and isinstance(body[0], ast.If) and not body[0].orelse and len(body[0].body) == 1
                 and isinstance(body[0].body[0], ast.Return) and body[0].body[0].value is None)
        if early:                             # `if <test>: return` followed by the action
            e, t = tr.expr(body[0].test, env)
            e, t = "(negb %s)" % tr.truth(e, t), B
        elif len(body) != 1 or not isinstance(body[0], ast.If) or body[0].orelse or not body[0].body:
            raise Untranslatable("%s is not of the form `if <test>: <body>`" % spec["func"])
        else:
            e, t = tr.expr(body[0].test, env)
            e, t = tr.truth(e, t), B
    elif kind == "range":
        loops = [n for n in ast.walk(fn) if isinstance(n, ast.For) and isinstance(n.target, ast.Name) and n.target.id == spec["loop_var"]]
        if len(loops) != 1:
            raise Untranslatable("%d loops over %s in %s" % (len(loops), spec["loop_var"], spec["func"]))
        it = loops[0].iter
        if isinstance(it, ast.Call) and ast.unparse(it.func) != "range" and it.args:
            pb = [st for st in ast.walk(fn) if isinstance(st, ast.Assign) and any(isinstance(t_, ast.Name) and t_.id == "progress_bar" for t_ in st.targets)]
            if ast.unparse(it.func) != "progress_bar" or len(pb) != 1 or ast.unparse(pb[0].value) != "tqdm_notebook if progbar == 'notebook' else tqdm" \
                    or len(it.args) != 1 or any(k_.arg not in ("desc", "disable") for k_ in it.keywords) or scope_binders(fn.body).get("progress_bar") != 1:
                raise Untranslatable("the loop over %s iterates over something other than range / the progress bar of a range" % spec["loop_var"])
            it = it.args[0]                   # progress_bar(range(...), ...)
        if not (isinstance(it, ast.Call) and ast.unparse(it.func) == "range" and not it.keywords and len(it.args) in (1, 2)):
            raise Untranslatable("the loop over %s does not iterate over range(lo, hi)" % spec["loop_var"])
        lo = ("(0)%Z", Z) if len(it.args) == 1 else tr.expr(it.args[0], env)
        hi = tr.expr(it.args[-1], env)
        if lo[1] != Z or hi[1] != Z:
            raise Untranslatable("non-integer range bounds")
        e, t = "(%s, %s)" % (lo[0], hi[0]), (Z, Z)
    else:
        e, t = tr.block(list(fn.body), env, kind, spec.get("target"))
    if e == BOTTOM[0]:
        raise Untranslatable("every path leaves the kernel")
    if getattr(tr, "used_cplx", False) or any("cplx." in p_ for p_, _c, _t in spec.get("atoms", [])):
        try:
            ct = ast.parse(open(os.path.join(repo, "qucumber/utils/cplx.py")).read())
        except (OSError, SyntaxError) as ex:
            raise Untranslatable("cannot read cplx.py: %s" % ex)
        for nm, cnt in scope_binders(ct.body).items():
            if nm in CplxTr.PINS and cnt != 1:
                raise Untranslatable("cplx.%s is bound %d times" % (nm, cnt))
        CplxTr({"atoms": []}, {n.name: n for n in ct.body if isinstance(n, ast.FunctionDef)}).check_pins()
    want = spec.get("result")
    if want is not None:
        want_t = tuple(want) if isinstance(want, (list, tuple)) else want
        e = tr.coerce(e, t, want_t)
        t = want_t
    params = " ".join("(%s : %s)" % (c, ct) for c, ct in spec["coq_params"])
    return "Definition gen_%s %s : %s :=\n  %s." % (spec["name"], params, cty(t), e), t


# --------------------------------------------------------------------------- kernel table
TAC = "tie_auto"
KERNELS = {}
PCORS = {}          # property-level corollaries over several generated kernels (compiled with the combined file)


def kernel(pid, **spec):
    KERNELS.setdefault(pid, []).append(spec)


def pcorollary(pid, name, stmt, proof, imports=()):
    PCORS.setdefault(pid, []).append((name, stmt, proof, tuple(imports)))


def _is_theory(mod):
    here = os.path.dirname(os.path.dirname(os.path.abspath(__file__)))
    return os.path.exists(os.path.join(here, "coq", "theory", mod + ".v"))


def emit(repo, pid, out_path):
    """write the generated Coq file for property pid; returns list of per-kernel records"""
    recs = []
    imports = set()
    for _n, _s, _p, imps in PCORS.get(pid, []):
        imports |= set(imps)
    chunks = []
    for spec in KERNELS.get(pid, []):
        rec = {"kernel": spec["name"], "kind": spec.get("kind", "function"), "strict": bool(spec.get("strict", True)), "source": "%s::%s" % (spec["file"], spec["func"]) + (" (local %s)" % spec["target"] if spec.get("kind") == "local" else ""),
               "model": spec["model_name"], "status": None}
        recs.append(rec)
        try:
            d, t = translate_kernel(repo, spec)
        except Untranslatable as ex:
            rec["status"] = "untranslatable"
            rec["detail"] = str(ex)[:300]
            continue
        except RecursionError:
            rec["status"] = "untranslatable"
            rec["detail"] = "recursion limit"
            continue
        imports |= set(spec.get("imports", [])) | set(spec.get("cor_imports", []))
        foralls = " ".join("(%s : %s)" % (c, ct) for c, ct in spec["thm_params"])
        hyps = "".join("%s ->\n  " % h for h in spec.get("hyps", []))
        gname = "gen_%s" % spec["name"]
        concl = spec["stmt"].replace("GEN", gname) if "stmt" in spec else "%s %s = %s" % (gname, spec["gen_args"], spec["model"])
        stmt = "Theorem tie_%s : forall %s,\n  %s%s." % (spec["name"], foralls, hyps, concl)
        default = ("intros; cbv [GEN %s olift1 olift2 option_map Rltb Rleb Reqb truthy_oz]; "
                   "cbn [nadd nsub nmul ndiv nopp nabs nsqrt nofZ nltb n0 n1 ROps]; tie_split; tie_close" % spec.get("unfold", ""))
        proof = "Proof. %s. Qed." % spec.get("tactic", default).replace("GEN", gname)
        cors = ""
        for cname, cstmt, cproof in spec.get("corollaries", []):
            cors += "Theorem src_%s : %s.\nProof. %s. Qed.\nPrint Assumptions src_%s.\n" % (
                cname, cstmt.replace("GEN", gname), cproof.replace("GEN", gname).replace("TIE", "tie_" + spec["name"]), cname)
            rec.setdefault("corollaries", []).append("src_" + cname)
            imports |= set(spec.get("cor_imports", []))
        chunks.append("(* %s *)\n%s\n%s\n%s\nPrint Assumptions tie_%s.\n%s" % (rec["source"], d, stmt, proof, spec["name"], cors))
        rec["status"] = "translated"
    head = ("(* GENERATED on every run by harness/srctie.py from /repo's current source — do not edit. *)\n"
            "From Coq Require Import List ZArith Bool Reals Lra Lia ZifyBool Psatz.\n"
            "From QModel Require Import Num %s.\nFrom QTheory Require Import RInst TieLib %s.\nImport ListNotations.\n\n"
            % (" ".join(sorted(i for i in imports if not _is_theory(i))), " ".join(sorted(i for i in imports if _is_theory(i)))))
    pc = ""
    if recs and all(r["status"] == "translated" for r in recs):
        for name, stmt, proof, _ in PCORS.get(pid, []):
            pc += "Theorem src_%s : %s.\nProof. %s. Qed.\nPrint Assumptions src_%s.\n" % (name, stmt, proof, name)
    with open(out_path, "w") as f:
        f.write(head + "\n".join(chunks) + ("\n(* PROPERTY-LEVEL COROLLARIES *)\n" + pc if pc else ""))
    return recs


def check(repo, pid, scratch, coq_dir, coq_q, thorough=False):
    """translate + coqc; returns {"kernels": [...], "ok": bool, ...}"""
    if pid not in KERNELS:
        return None
    t0 = time.time()
    gen_dir = os.path.join(scratch, "srctie")
    os.makedirs(gen_dir, exist_ok=True)
    path = os.path.join(gen_dir, "SrcTie_%s.v" % pid)
    recs = emit(repo, pid, path)
    res = {"kernels": recs, "generated_file": "coq/generated/SrcTie_%s.v (regenerated per run in the scratch directory)" % pid}
    if any(r["status"] == "translated" for r in recs):
        # compile theorem by theorem: one failing kernel must not hide the others
        text = open(path).read()
        head, *chunks = re.split(r"(?=^\(\* [^\n]*::)", text.split("\n(* PROPERTY-LEVEL COROLLARIES *)")[0], flags=re.M)
        names = [r for r in recs if r["status"] == "translated"]
        def one_kernel(rc):
            rec, chunk = rc
            one = os.path.join(gen_dir, "SrcTie_%s_%s.v" % (pid, rec["kernel"]))
            with open(one, "w") as f:
                f.write(head + chunk)
            r = subprocess.run(["timeout", "300", "coqc"] + coq_q + ["-Q", gen_dir, "QSrcTie", one], capture_output=True, text=True, cwd=coq_dir)
            out = r.stdout + r.stderr
            if r.returncode == 0 and ("Closed under the global context" in out or "Axioms:" in out):
                rec["status"] = "proved"
                rec["axioms"] = sorted(set(re.findall(r"^([A-Za-z_][A-Za-z0-9_.']*)\s*:", out.split("Axioms:")[1], flags=re.M))) if "Axioms:" in out else []
            else:
                rec["status"] = "unproved"
                rec["detail"] = out[-600:]
                gs = next((sp.get("grid") for sp in KERNELS.get(pid, []) if sp["name"] == rec["kernel"]), None)
                if gs:
                    # bounded search for an input on which the translated kernel and the model function differ (label only)
                    two = os.path.join(gen_dir, "SrcTie_%s_%s_grid.v" % (pid, rec["kernel"]))
                    defn = chunk.split("Theorem ")[0]
                    with open(two, "w") as f:
                        f.write(head + defn + "\nEval vm_compute in (first_bad (%s) (%s)).\n" % (gs[1].replace("GEN", "gen_" + rec["kernel"]), gs[0]))
                    r2 = subprocess.run(["timeout", "120", "coqc"] + coq_q + ["-Q", gen_dir, "QSrcTie", two], capture_output=True, text=True, cwd=coq_dir)
                    o2 = " ".join((r2.stdout + r2.stderr).split())
                    if r2.returncode == 0 and "= Some" in o2:
                        rec["kernel_counterexample"] = o2[o2.index("= Some"):][:200]
                        rec["detail"] = "the translated kernel and the model function differ at " + rec["kernel_counterexample"] + " (grid %s) | " % gs[0] + rec["detail"][-300:]
                if rec.get("kind") == "fit-skeleton":
                    # not the canonical skeleton: look for a bounded script on which its runs differ from the machine (a test, for the replay)
                    two = os.path.join(gen_dir, "SrcTie_%s_%s_cmp.v" % (pid, rec["kernel"]))
                    defn = chunk.split("Theorem ")[0]
                    with open(two, "w") as f:
                        f.write(head + defn + "\nEval vm_compute in (first_difference gen_%s 2).\n" % rec["kernel"])
                    r2 = subprocess.run(["timeout", "300", "coqc"] + coq_q + ["-Q", gen_dir, "QSrcTie", two], capture_output=True, text=True, cwd=coq_dir)
                    o2 = " ".join((r2.stdout + r2.stderr).split())
                    if r2.returncode == 0 and "= None" in o2:
                        rec["status"] = "untranslatable"
                        rec["detail"] = "the extracted skeleton is not the canonical one but runs like the machine on every bounded script (tie not established): " + " ".join(defn.split())[:400]
                    elif r2.returncode == 0:
                        rec["detail"] = "extracted skeleton " + " ".join(defn.split())[:400] + " differs from the machine on script (stop0, scheduler, epochs, batches, stop raised at visible event j) " + o2[-160:]
        from concurrent.futures import ThreadPoolExecutor
        with ThreadPoolExecutor(4) as ex:
            list(ex.map(one_kernel, zip(names, chunks)))
        # keep a copy of the last generated text for inspection (git-ignored)
        try:
            gdir = os.path.join(coq_dir, "generated")
            os.makedirs(gdir, exist_ok=True)
            with open(os.path.join(gdir, "SrcTie_%s.v" % pid), "w") as f:
                f.write(text)
        except OSError:
            pass
    if PCORS.get(pid) and recs and all(r["status"] == "proved" for r in recs):
        r = subprocess.run(["timeout", "600", "coqc"] + coq_q + ["-Q", gen_dir, "QSrcTie", path], capture_output=True, text=True, cwd=coq_dir)
        ok = r.returncode == 0
        res["property_corollaries"] = {"theorems": ["src_" + n for n, _s, _p, _i in PCORS[pid]], "proved": ok}
        if not ok:
            res["property_corollaries"]["detail"] = (r.stdout + r.stderr)[-500:]
    if thorough and recs and all(r["status"] == "proved" for r in recs) and os.environ.get("VERIF_COQCHK", "1") == "1":
        # thorough tier: the whole generated file is compiled once more and re-checked by the independent checker
        t1 = time.time()
        r = subprocess.run(["timeout", "600", "coqc"] + coq_q + ["-Q", gen_dir, "QSrcTie", path], capture_output=True, text=True, cwd=coq_dir)
        if r.returncode == 0:
            r = subprocess.run(["timeout", "1500", "coqchk", "-silent", "-o"] + coq_q[:9] + ["-Q", gen_dir, "QSrcTie", "QSrcTie.SrcTie_%s" % pid],
                               capture_output=True, text=True, cwd=coq_dir)
        res["coqchk_ok"] = (r.returncode == 0)
        res["coqchk_s"] = round(time.time() - t1, 1)
        res["coqchk_tail"] = (r.stdout + r.stderr)[-900:]
        if r.returncode != 0:
            for rec in recs:
                rec["status"] = "unproved"
                rec["detail"] = "coqchk on the generated file failed: " + res["coqchk_tail"][-300:]
    res["proved"] = sum(1 for r in recs if r["status"] == "proved")
    res["total"] = len(recs)
    res["ok"] = res["proved"] == res["total"]
    res["wall_s"] = round(time.time() - t0, 2)
    return res


from srctie_kernels import register  # noqa: E402  (the kernel table lives in its own file)
register(kernel)
try:
    from srctie_kernels import register_corollaries  # noqa: E402
    register_corollaries(pcorollary)
except ImportError:
    pass
