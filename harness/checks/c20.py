"""C20 — Model construction and reset honour their documented contracts.

Correspondence: histories of construction operations (new RBM module / state from sizes / state from module= /
in-place write to one parameter of one network / reinitialize_parameters) executed on REAL objects and on the
extracted model (Build.*): after every step the complete object graph is compared — which network object each
state uses (identity), which storage every parameter lives in (data_ptr; canonicalised to small integers in
order of first appearance), sizes, shapes and values (all-zero / opaque token by content).  Also: the fit guards
(result kind, number of effects) and the aux-bias block of the phase gradient / optimizer runs.

Oracle (implementation only): module= -> `rbm_am is module`, `rbm_ph is not module`, no shared storage, equal
values, the MODULE's sizes even when the num_visible / num_hidden / num_aux arguments disagree; a write to one
network leaves the other's parameters bit-identical; sizes path -> requested / defaulted shapes, all biases exactly
zero, weights drawn; reinitialize (also after training, all parameters non-zero) -> shapes kept, every weight
tensor changed, no stale trained value left (a bias is back at zero or redrawn), all networks, no object identity
demanded; fit without bases for complex / mixed -> refused (any exception), no callback event, no optimizer
constructed, parameters and torch RNG state unchanged; aux_bias of rbm_ph exactly 0 after real training with SGD, SGD+momentum, Adam, and the
aux-bias block of every phase-gradient function exactly zero.
Red-team round 2: size arguments in numpy / float encodings (enc_sz), user subclasses of the RBM classes and zero_weights=True
modules as module= (make_module, check_phase_copy), `s.rbm_am is module` after reinitialising a module-built state.
Seed round 5 (C20e: a gradient block addressed from the end of the vector assuming num_aux == num_hidden): aux_bias_arch_block runs FIRST
and trains a DensityMatrix of EVERY architecture nv 1..4 x nh 0..5 x na 1..5 (+ defaulted sizes, + nv = 5 / 6 and wider layers) once, the
construction path (sizes / keywords / module= / module= subclass / construct-train-reinitialise) and eleven optimizers rotating within each
shape class (na <, =, > nh); demanded: rbm_ph.aux_bias exactly 0 after every batch and at the end, and the aux-bias slot of every phase
gradient (gradient, compute_batch_gradients, rotated_gradient, ph_grads, gamma_grad, pi_grad; expand=True / False / 1-D) exactly zero.
shape_cases enumerates every architecture nv 1..5 x nh None,0..6 x na None,0..5; reinit / module= / model-correspondence training cases
have one architecture per shape class."""
import copy, time, itertools
import numpy as np

RULE = ("histories of 6..14 (quick) / 10..24 (thorough) construction operations over the three state types x "
        "{sizes given, sizes defaulted (None; explicit 0 only for PurificationRBM), module given (one module shared by "
        "several states; size arguments agreeing or DISAGREEING with the module)}, nv 1..4, nh 0..5, na 0..3; a case is one history; non-trivial := it "
        "builds a two-network state from module= or sizes with nh != nv and then writes to one of its networks; "
        "plus fit-guard cases (3 kinds x bases given/absent x stop flag) and DensityMatrix training runs "
        "(3 optimizers x architectures); red-team round 2: every size argument (num_visible / num_hidden / num_aux of the states and of the RBM "
        "modules, also next to module=) rotates through int, numpy.int64 / int32 / int8, an element of an integer array and a float holding an "
        "integer; user-built modules are stock RBMs, USER SUBCLASSES of them (class-level override of effective_energy), modules built with "
        "zero_weights=True, or both (fixed cases for every state type x gpu form first, then in the histories): rbm_ph must be of the module's "
        "class with the module's effective energies, all-zero weights must be redrawn by reinitialize_parameters, and a state built from "
        "module= still uses that module as its amplitude network after reinitialising; seed round 5: FIRST, one short DensityMatrix training run "
        "(6 records, 2 in the reference basis, an X and a Y among the others, 2 epochs x 2 batches) for EVERY architecture nv 1..4 x nh 0..5 x "
        "na 1..5 (thorough: nv 1..5 x nh 0..6 x na 1..6), the defaulted forms (num_hidden / num_aux None) and a few wider ones — every shape class "
        "na < nh, na = nh, na > nh, na <=> nv, nh <=> nv, nh + na < nv, nh = 1 under a wide visible layer, nh = 0 — with all parameters of both "
        "networks random (the two networks different; the phase aux bias as constructed), the construction path (sizes positional / keywords / "
        "module= stock / module= user subclass / construct, train, reinitialise) and eleven optimizers rotating within each class; non-trivial "
        "there := the architecture is not square")
ASSUMPTIONS = ["data_ptr() identifies a parameter's storage (zero-size tensors are identified by object id)",
               "the optimizers of the installed torch are coordinate-wise (SGD, SGD+momentum, Adam are checked by running them)",
               "IN scope: a user subclass of BinaryRBM / PurificationRBM as module= (an instance of a subclass IS an instance of the documented "
               "class; 'an independent copy of it' keeps its class and behaviour) — the subclasses generated override effective_energy at class level only",
               "OUT of scope: module= whose parameters were re-registered with requires_grad=True (every RBM the library builds has requires_grad=False "
               "parameters; getting others means replacing attributes of a live library object) and modules cast with .float() (module= is documented "
               "as a BinaryRBM / PurificationRBM, whose parameters are double; fit() of a state built from a float32 module raises on the unchanged tree)",
               "float-valued size arguments holding an integer (6.0) are generated because the RBM constructors coerce num_visible / num_hidden / "
               "num_aux with int() on the unchanged tree (documented type: int)",
               "num_hidden = 0 (explicit, PurificationRBM) is generated in the architecture block, but that construction / gradients / training RUN "
               "for it is not demanded (only: if they run, the phase aux bias stays zero)",
               "the slot of the auxiliary bias in a flat phase-gradient vector is its position in rbm_ph.parameters() order (the order in which fit "
               "hands gradient entries to parameters)",
               "after reinitialize_parameters only the identity of the amplitude NETWORK of a module=-built state is demanded (the statement: the state "
               "uses that RBM; reinitialising redraws parameters); identity of Parameter objects and of the phase network is not"]

PN = {"weights": 10, "visible_bias": 11, "hidden_bias": 12, "weights_W": 13, "weights_U": 14, "aux_bias": 15}
PNAME = {v: k for k, v in PN.items()}


class Toks:
    def __init__(self):
        self.t, self.n, self.keep = {}, 1, []

    def val(self, x):
        import torch
        if x.numel() == 0 or bool((x == 0).all()):
            return -1
        c = (tuple(x.shape), x.detach().contiguous().numpy().tobytes())
        if c not in self.t:
            self.t[c] = self.n
            self.n += 1
        return self.t[c]


def ints(x):
    return [ints(y) for y in x] if isinstance(x, list) else int(x)


def cell_id(p):
    return ("e", id(p)) if p.numel() == 0 else ("p", p.data_ptr())


_ROT = [0]
_SUB = {}


def enc_sz(ctx, x):
    """a size argument (num_visible / num_hidden / num_aux) as a Python int, a numpy integer or a float holding an integer (what
    np.arange scans, len-like numpy results and `alpha * n` hand over); None stays None.  Rotates deterministically."""
    if x is None:
        return None
    _ROT[0] += 1
    r = _ROT[0] % 7
    x = int(x)
    out = [x, np.int64(x), np.int32(x), float(x), x, np.arange(x, x + 1)[0], np.int8(x)][r]
    ctx.count("size argument given as:" + type(out).__name__)
    return out


def rbm_subclasses():
    """user subclasses of the library's RBM modules (an RBM with a temperature): instances ARE BinaryRBMs / PurificationRBMs, the
    documented type of module=.  The override is at class level, so any way of copying the object keeps it."""
    if not _SUB:
        from qucumber.rbm import BinaryRBM, PurificationRBM

        class TemperedRBM(BinaryRBM):
            beta = 0.5

            def effective_energy(self, v):
                return self.beta * super().effective_energy(v)

        class TemperedPRBM(PurificationRBM):
            beta = 0.5

            def effective_energy(self, v, a=None):
                return self.beta * super().effective_energy(v, a)
        _SUB.update(BinaryRBM=TemperedRBM, PurificationRBM=TemperedPRBM)
    return _SUB


def is_binary(rbm):
    from qucumber.rbm import BinaryRBM
    return isinstance(rbm, BinaryRBM)


def make_module(ctx, kind, nv, nh, na, variant, **gk):
    """a user-built RBM module.  variant: "stock" | "subclass" (user subclass of the library class) | "zero" (the documented
    constructor flag zero_weights=True) | "subclass+zero"; kind 0 = BinaryRBM, 1 = PurificationRBM"""
    from qucumber.rbm import BinaryRBM, PurificationRBM
    cls = [BinaryRBM, PurificationRBM][kind]
    if "subclass" in variant:
        cls = rbm_subclasses()[cls.__name__]
    kw = dict(gk)
    if "zero" in variant:
        kw["zero_weights"] = True
    ctx.count("module variant:" + variant)
    return cls(enc_sz(ctx, nv), enc_sz(ctx, nh), **kw) if kind == 0 else cls(enc_sz(ctx, nv), enc_sz(ctx, nh), enc_sz(ctx, na), **kw)


def check_phase_copy(ctx, s, m, what, case):
    """the phase network is an independent COPY OF THE MODULE: the same class (a user subclass stays what it is) and the same
    behaviour (effective energies of every basis state)"""
    import torch
    ctx.require(what + ": rbm_ph is of the module's class", type(s.rbm_ph) is type(m), case,
                {"rbm_ph": type(s.rbm_ph).__name__, "module": type(m).__name__})
    sp = torch.tensor(np.array([[(k >> (int(m.num_visible) - 1 - j)) & 1 for j in range(int(m.num_visible))]
                                for k in range(2 ** int(m.num_visible))], dtype=float), dtype=torch.double).reshape(2 ** int(m.num_visible), int(m.num_visible))
    ok, e = ctx.call(what + ": effective_energy of the module and of rbm_ph", case, lambda: (m.effective_energy(sp), s.rbm_ph.effective_energy(sp)))
    if ok:
        ctx.require(what + ": rbm_ph has the module's effective energies", e[0].shape == e[1].shape and torch.equal(e[0], e[1]), case,
                    {"module": e[0].reshape(-1)[:4].tolist(), "rbm_ph": e[1].reshape(-1)[:4].tolist()})


def check_phase_copy_class(ctx, s, m, case):
    """after reinitialising, the networks are still RBMs of the classes they had (parameters are redrawn, nothing else)"""
    ctx.require("reinitialize: the networks keep their classes", type(s.rbm_am) is type(m) and type(s.rbm_ph) is type(m), case,
                {"rbm_am": type(s.rbm_am).__name__, "rbm_ph": type(s.rbm_ph).__name__, "module": type(m).__name__})


def want_shapes(k, nv, nh, na):
    """documented shapes: num_hidden / num_aux default to num_visible (BinaryRBM: also for an explicit 0)"""
    if k < 2:
        enh = nv if not nh else nh
        return [("weights", (enh, nv)), ("visible_bias", (nv,)), ("hidden_bias", (enh,))]
    enh = nv if nh is None else nh
    ena = nv if na is None else na
    return [("weights_W", (enh, nv)), ("weights_U", (ena, nv)), ("visible_bias", (nv,)), ("hidden_bias", (enh,)), ("aux_bias", (ena,))]


def real_net(T, rbm):
    kind = 0 if is_binary(rbm) else 1
    sizes = [kind, int(rbm.num_visible), int(rbm.num_hidden), int(getattr(rbm, "num_aux", 0))]
    return [("n", id(rbm)), sizes, [[PN[n], cell_id(p), list(p.shape), T.val(p.data)] for n, p in rbm.named_parameters()]]


def canon(dump):
    """Rename network / cell identities to small integers in order of first appearance."""
    nets, cells = {}, {}

    def net(d):
        nid, sizes, ps = d
        nid = nets.setdefault(nid if not isinstance(nid, list) else tuple(nid), len(nets))
        return [nid, sizes, [[p, cells.setdefault(c if not isinstance(c, list) else tuple(c), len(cells)), sh,
                              (-1 if 0 in sh else v)] for p, c, sh, v in ps]]
    mods, states = dump
    # the state's own num_visible / num_hidden / num_aux: reported by the implementation, and in the model they ARE
    # the sizes of the amplitude network (Build.state_sizes)
    return [[net(m) for m in mods],
            [[] if not s else [s[0], net(s[1]), [net(s[2][0])] if s[2] else [], list(s[3]) if len(s) > 3 else list(s[1][1][1:])]
             for s in states]]


def weights_of(T, rbm):
    return [max(0, T.val(p.data)) for n, p in rbm.named_parameters() if n.startswith("weights")]


def snap(rbm):
    return [(n, p.data.clone()) for n, p in rbm.named_parameters()]


def same(a, b):
    import torch
    return len(a) == len(b) and all(x[0] == y[0] and x[1].shape == y[1].shape and torch.equal(x[1], y[1]) for x, y in zip(a, b))


def ptrs(rbm):
    return {cell_id(p) for _, p in rbm.named_parameters()}


def gpu_kw(ctx, fixed=None):
    """The gpu argument: False, True (falls back to the CPU with a warning when CUDA is absent; it is the DEFAULT of
    PositiveWaveFunction and of BinaryRBM) or omitted.  Every demand of this check is device independent."""
    form = fixed if fixed is not None else str(ctx.rng.choice(["False", "True", "omitted"]))
    ctx.count("gpu:" + form)
    return {} if form == "omitted" else {"gpu": form == "True"}


def weights_differ(ctx, s, what, case):
    """Amplitude and phase networks are independent random draws: their weight tensors differ."""
    import torch
    if len(s.networks) < 2:
        return
    for (n, p), (n2, p2) in zip(s.rbm_am.named_parameters(), s.rbm_ph.named_parameters()):
        if n.startswith("weights") and p.numel() > 1 and p.shape == p2.shape:
            ctx.require(what + ": amplitude and phase weights are independent draws (they differ)",
                        not torch.equal(p.data, p2.data), case, {"parameter": n})


def module_gpu_cases(ctx):
    """module= with every form of the gpu argument: the state must still USE the supplied module."""
    import torch
    from qucumber.nn_states import PositiveWaveFunction, ComplexWaveFunction, DensityMatrix
    from qucumber.rbm import BinaryRBM, PurificationRBM
    CLS = [PositiveWaveFunction, ComplexWaveFunction, DensityMatrix]
    for k in range(3):
        for ci, (form, variant) in enumerate(itertools.product(("omitted", "True", "False"), ("stock", "subclass", "zero", "subclass+zero"))):
            ctx.torch_seed()
            # stock module / user subclass of the library's RBM / built with the documented flag zero_weights=True; the module's
            # architecture rotates through the shape classes (na < nh, na > nh, nh + na < nv, square)
            mnv, mnh, mna = ((2, 3, 1), (2, 1, 3), (4, 1, 2), (3, 3, 3), (1, 2, 4))[(ci + k) % 5]
            m = make_module(ctx, 0 if k < 2 else 1, mnv, mnh, mna, variant, **gpu_kw(ctx, form))
            for n_, p in m.named_parameters():
                if not ("zero" in variant and n_.startswith("weights")):
                    p.data.add_(torch.tensor(ctx.rng.normal(size=tuple(p.shape)) + 0.1))
            before = snap(m)
            case = {"module_ctor": CLS[k].__name__, "gpu": form, "module": variant, "module_sizes": [mnv, mnh, mna][:2 if k < 2 else 3]}
            ctx.case(case, nontrivial=True)
            ok, s = ctx.call("module= constructor", case, lambda: CLS[k](enc_sz(ctx, mnv), module=m, **gpu_kw(ctx, form)))
            if not ok:
                continue
            ctx.require("module=: rbm_am IS the supplied module", s.rbm_am is m, case)
            ctx.require("module=: the module's parameters are unchanged", same(snap(m), before), case)
            ctx.require("module=: sizes are the module's", [int(s.num_visible), int(s.num_hidden)] + ([int(s.num_aux)] if k == 2 else [])
                        == [mnv, mnh, mna][:2 if k < 2 else 3], case)
            if k:
                check_phase_copy(ctx, s, m, "module=", case)
            # a later in-place change of the module is a change of the state's amplitude network
            m.visible_bias.data.add_(1.0)
            ctx.require("module=: the state uses the module's parameters (a change of the module is seen by the state)",
                        torch.equal(s.rbm_am.visible_bias.data, m.visible_bias.data), case)
            if k:
                ctx.require("module=: rbm_ph is a different object", s.rbm_ph is not m, case)
                ctx.require("module=: rbm_ph shares no parameter storage with the module", not (ptrs(s.rbm_ph) & ptrs(m)), case)
                ctx.require("module=: rbm_ph has equal names, shapes and values", same(snap(s.rbm_ph), before), case)
            ctx.count("module_gpu_case")


def check_reinitialised(ctx, net, before, after, case):
    """The statement: reinitialising REDRAWS ALL networks' parameters with unchanged shapes.  Demanded: same names
    and shapes; every weight tensor differs from its previous value; no parameter keeps a stale trained value, i.e.
    every parameter that was non-zero before is either back at its initial value (biases: zero) or differs from the
    previous value.  Not demanded: object identity (in place or new Parameters), biases being exactly zero."""
    import torch
    ctx.require("reinitialize keeps names and shapes (%s)" % net,
                [(n, t.shape) for n, t in after] == [(n, t.shape) for n, t in before], case)
    ctx.require("reinitialize redraws every weight tensor (%s)" % net,
                all(t.numel() == 0 or not torch.equal(t, t0) for (n, t), (_, t0) in zip(after, before) if n.startswith("weights")), case)
    stale = [n for (n, t), (_, t0) in zip(after, before)
             if t.numel() and bool((t0 != 0).any()) and t.shape == t0.shape and torch.equal(t, t0)]
    ctx.require("reinitialize leaves no stale trained parameter value (%s)" % net, not stale, case, {"stale": stale})


def reinit_cases(ctx):
    """train -> reinitialize for the three state types x {sizes, module=}: all parameters (biases included) are
    non-zero before, so a reinitialisation that keeps trained biases is visible."""
    import torch
    from qucumber.nn_states import PositiveWaveFunction, ComplexWaveFunction, DensityMatrix
    from qucumber.rbm import BinaryRBM, PurificationRBM
    CLS = [PositiveWaveFunction, ComplexWaveFunction, DensityMatrix]
    for k in range(3):
        # na < nh, na = nh < nv, na > nh, nh + na < nv with nh = 1 (for the one-network / BinaryRBM types na is ignored: the last two add nh = nv, nh = 1)
        for nv, nh, na in ((2, 3, 1), (3, 2, 2), (2, 2, 3), (4, 1, 2)):
            # built from sizes / from a stock module / from a user subclass of the library's RBM / from a module built with the
            # documented flag zero_weights=True (then reinitialised at once: all-zero weights must be REDRAWN, not zeroed again)
            for via_module in (False, "stock", "subclass", "zero", "subclass+zero"):
                ctx.torch_seed()
                m = None
                if via_module:
                    m = make_module(ctx, 0 if k < 2 else 1, nv, nh, na, via_module, **gpu_kw(ctx))
                    s = CLS[k](enc_sz(ctx, nv), module=m, **gpu_kw(ctx))
                else:
                    s = CLS[k](*((enc_sz(ctx, nv), enc_sz(ctx, nh)) if k < 2 else (enc_sz(ctx, nv), enc_sz(ctx, nh), enc_sz(ctx, na))), **gpu_kw(ctx))
                case = {"reinit": CLS[k].__name__, "nv": nv, "nh": nh, "na": na, "module": via_module}
                ctx.case(case, nontrivial=True)
                if not via_module:
                    weights_differ(ctx, s, "sizes constructor", case)
                for rounds in range(2):
                    for net in s.networks:                  # stand-in for training: every parameter becomes non-zero
                        for n_, p in getattr(s, net).named_parameters():
                            if via_module and "zero" in via_module and rounds == 0 and n_.startswith("weights"):
                                continue                    # the all-zero weights the module was built with
                            p.data.copy_(torch.tensor(ctx.rng.normal(size=tuple(p.shape)) + 0.3).abs() + 0.05)
                    before = {net: snap(getattr(s, net)) for net in s.networks}
                    ok, _ = ctx.call("reinitialize_parameters", case, s.reinitialize_parameters)
                    if not ok:
                        break
                    for net in s.networks:
                        check_reinitialised(ctx, net, before[net], snap(getattr(s, net)), dict(case, round=rounds))
                    if via_module:
                        # "uses that RBM as the amplitude network": reinitialising redraws PARAMETERS, the state keeps using the module
                        ctx.require("reinitialize: a state built from module= still uses the supplied module as its amplitude network",
                                    s.rbm_am is m, dict(case, round=rounds))
                        if k and rounds == 0 and "subclass" in via_module:
                            check_phase_copy_class(ctx, s, m, dict(case, round=rounds))
                    weights_differ(ctx, s, "reinitialize", case)
                    ctx.count("train_then_reinitialize")


def one_history(ctx, hid, nops):
    import torch
    from qucumber.nn_states import PositiveWaveFunction, ComplexWaveFunction, DensityMatrix
    from qucumber.rbm import BinaryRBM, PurificationRBM
    CLS = [PositiveWaveFunction, ComplexWaveFunction, DensityMatrix]
    rng = ctx.rng
    T = Toks()
    mods, states, ops, trace, labels = [], [], [], [], []
    from_module = {}            # id(state) -> the module it was built from (the states are kept alive in T.keep)
    case = {"history": hid, "seed": ctx.seed, "ops": labels}
    nontrivial = False

    def dump():
        return [[real_net(T, m) for m in mods],
                [[] if s is None else [CLS.index(type(s)), real_net(T, s.rbm_am), [real_net(T, s.rbm_ph)] if len(s.networks) > 1 else [],
                                       [int(s.num_visible), int(s.num_hidden), int(s.num_aux) if CLS.index(type(s)) == 2 else 0]]
                 for s in states]]

    def opt(x):
        return [] if x is None else [x]

    for step in range(nops):
        r = rng.random()
        ocase = dict(case, step=step)
        if r < 0.18 or (not mods and r < 0.5):                  # a user-built RBM module
            kind = int(rng.integers(0, 2))
            nv = int(rng.integers(1, 5))
            nh = [None, 0, int(rng.integers(1, 6))][int(rng.choice(3, p=[0.2, 0.15, 0.65]))]
            na = [None, 0, int(rng.integers(1, 4))][int(rng.choice(3, p=[0.2, 0.1, 0.7]))]
            if kind == 0 and nh == 0:                             # BinaryRBM(nv, 0): outside what the property fixes
                nh = None
            # stock class / user subclass of it; random weights / the documented flag zero_weights=True; sizes in any integer encoding
            variant = ["stock", "subclass", "zero", "subclass+zero"][int(rng.choice(4, p=[0.5, 0.2, 0.2, 0.1]))]
            m = make_module(ctx, kind, nv, nh, na, variant, **gpu_kw(ctx))
            for n, p in m.named_parameters():                     # non-zero biases: a "trained" module
                if p.numel() and not ("zero" in variant and n.startswith("weights")):
                    p.data.copy_(torch.tensor(rng.normal(size=tuple(p.shape)) + 0.1))
            mods.append(m)
            T.keep.append(m)
            ops.append([0, kind, nv, opt(nh), opt(na) if kind else [], weights_of(T, m)])
            # the model's initialize_parameters gives drawn weights and zero biases; record the in-place writes that follow
            # (for a zero_weights module: the weights are all-zero, written as such)
            labels.append("module(%s,%d,%s,%s,%s)" % (type(m).__name__, nv, nh, na, variant))
            trace.append(None)
            for n, p in m.named_parameters():
                if not n.startswith("weights") or "zero" in variant:
                    ops.append([3, [0, len(mods) - 1], PN[n], T.val(p.data)])
                    labels.append("module parameter write")
                    trace.append(None)
            trace[-1] = canon(dump())
            continue
        if r < 0.40:                                            # state from sizes
            k = int(rng.integers(0, 3))
            nv = int(rng.integers(1, 5))
            nh = [None, 0, int(rng.integers(1, 6))][int(rng.choice(3, p=[0.25, 0.15, 0.6]))]
            na = [None, 0, int(rng.integers(1, 4))][int(rng.choice(3, p=[0.25, 0.1, 0.65]))]
            if k < 2 and nh == 0:                                 # explicit 0 for a BinaryRBM: not fixed by the property
                nh = None
            args = (enc_sz(ctx, nv), enc_sz(ctx, nh)) if k < 2 else (enc_sz(ctx, nv), enc_sz(ctx, nh), enc_sz(ctx, na))
            gk = gpu_kw(ctx)
            ocase = dict(ocase, args=[repr(a) for a in args])
            ok, s = ctx.call("constructor from sizes", ocase, lambda: CLS[k](*args, **gk))
            if not ok:
                return
            states.append(s)
            T.keep.append(s)
            ops.append([1, k, nv, opt(nh), opt(na), weights_of(T, s.rbm_am), weights_of(T, s.rbm_ph) if k else []])
            labels.append("%s(%s)" % (CLS[k].__name__, ",".join(repr(a) for a in args)))
            # ---- oracle: shapes (with the documented defaults), zero biases, independent networks
            want = want_shapes(k, nv, nh, na)
            for net in s.networks:
                rbm = getattr(s, net)
                got = [(n, tuple(p.shape)) for n, p in rbm.named_parameters()]
                ctx.require("sizes constructor: requested / defaulted shapes (%s)" % net, got == want, ocase, {"got": got, "want": want})
                ctx.require("sizes constructor: all biases exactly zero (%s)" % net,
                            all(bool((p.data == 0).all()) for n, p in rbm.named_parameters() if "bias" in n), ocase)
                ctx.require("sizes constructor: weights are drawn, not zero (%s)" % net,
                            all(p.numel() == 0 or bool((p.data != 0).any()) for n, p in rbm.named_parameters() if n.startswith("weights")), ocase)
            weights_differ(ctx, s, "sizes constructor", ocase)
            if k:
                ctx.require("sizes constructor: amplitude and phase networks are different objects without shared storage",
                            s.rbm_am is not s.rbm_ph and not (ptrs(s.rbm_am) & ptrs(s.rbm_ph)), ocase)
            ctx.count("ctor_sizes:%d" % k)
        elif r < 0.62 and mods:                                 # state from module=
            k = int(rng.integers(0, 3))
            # only documented combinations are generated: module is a BinaryRBM for Positive/Complex states and a
            # PurificationRBM for DensityMatrix (the property says nothing about other combinations, so nothing is demanded)
            cand = [i for i, mm in enumerate(mods) if is_binary(mm) == (k != 2)]
            if not cand:
                ctx.count("ctor_module:no_module_of_documented_type")
                continue
            mi = int(cand[int(rng.integers(0, len(cand)))])
            m = mods[mi]
            before = snap(m)
            s = None
            # the size arguments next to module= may disagree with the module: the module's sizes must win
            nv_arg = int(m.num_visible) if rng.random() < 0.4 else int(rng.integers(1, 7))
            kwargs = {}
            if rng.random() < 0.5:
                kwargs["num_hidden"] = int(rng.integers(1, 7))
            if k == 2 and rng.random() < 0.5:
                kwargs["num_aux"] = int(rng.integers(1, 5))
            try:
                s = CLS[k](enc_sz(ctx, nv_arg), module=m, **gpu_kw(ctx), **{kk: enc_sz(ctx, vv) for kk, vv in kwargs.items()})
            except Exception as e:
                exc = e
            ctx.count("ctor_module:args_%s" % ("agree" if nv_arg == int(m.num_visible) and not kwargs else "disagree"))
            states.append(s)
            ops.append([2, k, [0, mi]])
            labels.append("%s(%d,%s,module=%d:%s)" % (CLS[k].__name__, nv_arg, kwargs, mi, type(m).__name__))
            expect_ok = not (k == 2 and is_binary(m))
            if expect_ok:
                ctx.require("module= constructor is accepted", s is not None, ocase, "" if s is not None else repr(exc))
            if s is not None:
                T.keep.append(s)
                from_module[id(s)] = m
                ctx.require("module=: rbm_am IS the supplied module", s.rbm_am is m, ocase)
                ctx.require("module=: the module's parameters are unchanged", same(snap(m), before), ocase)
                ctx.require("module=: sizes are the module's",
                            int(s.num_visible) == int(m.num_visible) and int(s.num_hidden) == int(m.num_hidden)
                            and (k != 2 or int(s.num_aux) == int(m.num_aux)), ocase,
                            {"state": [int(s.num_visible), int(s.num_hidden)], "module": [int(m.num_visible), int(m.num_hidden)], "args": [nv_arg, kwargs]})
                if k:
                    ctx.require("module=: rbm_ph is a different object", s.rbm_ph is not m, ocase)
                    ctx.require("module=: rbm_ph shares no parameter storage with the module", not (ptrs(s.rbm_ph) & ptrs(m)), ocase)
                    ctx.require("module=: rbm_ph has equal names, shapes and values", same(snap(s.rbm_ph), before), ocase)
                    check_phase_copy(ctx, s, m, "module=", ocase)
            ctx.count("ctor_module:%d:%s" % (k, "ok" if s is not None else "error"))
        elif r < 0.88 and (states or mods):                     # in-place write to one parameter of one network
            cands = [([0, i], m) for i, m in enumerate(mods)]
            for j, s in enumerate(states):
                if s is not None:
                    cands += [([1, j, ri], getattr(s, net)) for ri, net in enumerate(s.networks)]
            two = [(j, s) for j, s in enumerate(states) if s is not None and len(s.networks) > 1]
            if two and rng.random() < 0.7:
                j, s = two[int(rng.integers(0, len(two)))]
                ri = int(rng.integers(0, 2))
                ref, rbm = [1, j, ri], getattr(s, s.networks[ri])
                other = getattr(s, s.networks[1 - ri])
                nontrivial = nontrivial or int(s.num_hidden) != int(s.num_visible)
            else:
                ref, rbm = cands[int(rng.integers(0, len(cands)))]
                other = None
            names = [n for n, p in rbm.named_parameters() if p.numel()]
            if not names:
                continue
            n = str(rng.choice(names))
            p = getattr(rbm, n)
            obefore = snap(other) if other is not None and other is not rbm else None
            new = torch.zeros_like(p.data) if rng.random() < 0.15 else torch.tensor(rng.normal(size=tuple(p.shape)) + 0.05)
            p.data.copy_(new)
            ops.append([3, ref, PN[n], T.val(p.data)])
            labels.append("write(%s,%s)" % (ref, n))
            if obefore is not None:
                ctx.require("a write to one network leaves the other network's parameters unchanged", same(snap(other), obefore), ocase)
                ctx.count("independence_checked")
        elif states and any(s is not None for s in states):     # reinitialize_parameters
            j = int(rng.choice([i for i, s in enumerate(states) if s is not None]))
            s = states[j]
            if len(s.networks) > 1 and s.rbm_am is s.rbm_ph:
                continue
            before = {net: snap(getattr(s, net)) for net in s.networks}
            ok, _ = ctx.call("reinitialize_parameters", ocase, s.reinitialize_parameters)
            if not ok:
                return
            ops.append([4, j, weights_of(T, s.rbm_am), weights_of(T, s.rbm_ph) if len(s.networks) > 1 else []])
            labels.append("reinitialize(%d)" % j)
            for net in s.networks:
                check_reinitialised(ctx, net, before[net], snap(getattr(s, net)), ocase)
            if id(s) in from_module:
                ctx.require("reinitialize: a state built from module= still uses the supplied module as its amplitude network",
                            s.rbm_am is from_module[id(s)], ocase)
            weights_differ(ctx, s, "reinitialize", ocase)
            ctx.count("reinitialize")
        else:
            continue
        trace.append(canon(dump()))
    if not ops:
        return
    # ---- correspondence
    out = ctx.get_model().call("build_run", ops)
    for i, (rt, mo) in enumerate(zip(trace, out)):
        if rt is None:
            continue
        mc = canon(ints(mo))
        if rt != mc:
            det = "impl %r vs model %r" % (rt, mc)
            for a, b in zip(rt[0] + rt[1], mc[0] + mc[1]):
                if a != b:
                    det = "first differing object: impl %r vs model %r" % (a, b)
                    break
            ctx.disagreements.append({"what": "object graph after step %d (%s)" % (i, labels[i]), "case": dict(case, step=i), "detail": det})
            break
    ctx.traces += 1
    ctx.case({"history": hid, "ops": labels}, nontrivial=nontrivial)


# ----------------------------------------------------------------------------- fit guards
def fit_guard_cases(ctx):
    import torch
    from qucumber.nn_states import PositiveWaveFunction, ComplexWaveFunction, DensityMatrix
    from qucumber.callbacks import CallbackBase

    class Rec(CallbackBase):
        def __init__(self):
            self.ev = []

        def on_train_start(self, s): self.ev.append("train_start")
        def on_train_end(self, s): self.ev.append("train_end")
        def on_epoch_start(self, s, e): self.ev.append("epoch_start")
        def on_epoch_end(self, s, e): self.ev.append("epoch_end")
        def on_batch_start(self, s, e, b): self.ev.append("batch_start")
        def on_batch_end(self, s, e, b): self.ev.append("batch_end")

    m = ctx.get_model()
    for k, cls in enumerate((PositiveWaveFunction, ComplexWaveFunction, DensityMatrix)):
        for nv, nh in ((2, 3), (3, 2)):
            for bases_given in (False, True):
                for stop in (False, True):
                    for optimizer in (torch.optim.SGD, torch.optim.Adam):
                        ctx.torch_seed()
                        s = cls(nv, nh, gpu=False)
                        for net in s.networks:
                            for _, p in getattr(s, net).named_parameters():
                                p.data.add_(torch.tensor(ctx.rng.normal(size=tuple(p.shape))))
                        if k == 2:
                            s.rbm_ph.aux_bias.data.zero_()
                        N = 6
                        data = torch.tensor(ctx.rng.integers(0, 2, size=(N, nv)), dtype=torch.double)
                        bases = np.array([["Z"] * nv] * 3 + [list(ctx.rng.choice(["X", "Y", "Z"], size=nv)) for _ in range(N - 3)])
                        if stop:
                            s.stop_training = True
                        before = {net: [(n, p.data.clone()) for n, p in getattr(s, net).named_parameters()] for net in s.networks}
                        rec = Rec()
                        rng0 = torch.get_rng_state()
                        exc = None
                        built = []

                        class RecOpt(optimizer):             # records its construction
                            def __init__(self, *a, **k_):
                                built.append(1)
                                super().__init__(*a, **k_)
                        kw = dict(epochs=1, pos_batch_size=3, k=1, lr=0.05, callbacks=[rec], optimizer=RecOpt)
                        if bases_given and k > 0:
                            kw["input_bases"] = bases
                        try:
                            s.fit(data, **kw)
                        except Exception as e:
                            exc = e
                        case = {"fit_guard": cls.__name__, "nv": nv, "nh": nh, "bases_given": bases_given, "stop_training": stop,
                                "optimizer": optimizer.__name__}
                        ctx.case(case, nontrivial=(k > 0 and not bases_given))
                        neff, code = ints(m.call("fit_guard", k, 1 if bases_given else 0, 1 if stop else 0))
                        ctx.agree_exact("fit raises", exc is not None, code != 0, case)
                        ctx.agree_exact("fit has effects", len(rec.ev) > 0, neff > 0, case)
                        if k > 0 and not bases_given:
                            ctx.require("fit without bases is refused (an exception is raised)", exc is not None, case, repr(exc))
                            ctx.require("refused fit: no optimizer was constructed", built == [], case)
                            ctx.require("refused fit: no callback event", rec.ev == [], case, rec.ev[:5])
                            ctx.require("refused fit: parameters unchanged",
                                        all(same([(n, p.data) for n, p in getattr(s, net).named_parameters()], before[net]) for net in s.networks), case)
                            ctx.require("refused fit: torch RNG state unchanged", torch.equal(torch.get_rng_state(), rng0), case)
                            ctx.require("refused fit: the stop_training flag is unchanged", s.stop_training == stop, case,
                                        {"before": stop, "after": s.stop_training})
                            ctx.count("refused_fit")
                        elif not stop:
                            ctx.require("fit with admissible arguments runs (raised %s)" % type(exc).__name__, exc is None, case, repr(exc))


# ----------------------------------------------------------------------------- phase aux bias
def arch_classes(nv, nh, na):
    """shape classes of a purification RBM with (effective) sizes nv, nh, na: a formula written for the square / default
    architecture (nh = na = nv) can go wrong in each of them separately"""
    tags = [["na<nh", "na=nh", "na>nh"][(na > nh) - (na < nh) + 1], ["na<nv", "na=nv", "na>nv"][(na > nv) - (na < nv) + 1],
            ["nh<nv", "nh=nv", "nh>nv"][(nh > nv) - (nh < nv) + 1]]
    if nh + na < nv:
        tags.append("nh+na<nv")
    if nh == 1 and nv >= 3:
        tags.append("nh=1,nv>=3")
    if nh == 0:
        tags.append("nh=0")
    if nv == 1:
        tags.append("nv=1")
    return tags


def ab_slot(rbm):
    """[lo, hi) of aux_bias in the flat parameter vector of a network, in the order in which fit hands the entries of a gradient
    vector to the parameters (rbm.parameters()), and the length of that vector"""
    off, slot = 0, None
    for n, p in rbm.named_parameters():
        if n == "aux_bias":
            slot = (off, off + p.numel())
        off += p.numel()
    return slot, off


def optimizer_menu():
    import torch
    O = torch.optim
    return [("SGD", O.SGD, {}), ("Adam", O.Adam, {}), ("SGD+momentum", O.SGD, {"momentum": 0.9}), ("RMSprop+momentum", O.RMSprop, {"momentum": 0.5}),
            ("SGD+nesterov+wd", O.SGD, {"momentum": 0.5, "nesterov": True, "weight_decay": 0.01}), ("AdamW", O.AdamW, {}),
            ("Adam+wd+amsgrad", O.Adam, {"weight_decay": 0.01, "amsgrad": True}), ("Adagrad", O.Adagrad, {}), ("Adadelta", O.Adadelta, {}),
            ("Adamax", O.Adamax, {}), ("RMSprop+centered", O.RMSprop, {"centered": True})]


PATHS = ("sizes", "module", "sizes-keywords", "module-subclass", "sizes,train,reinitialize")


def all_archs(ctx):
    """EVERY architecture of the stated ranges (explicit sizes), then the defaulted forms, then a few wider ones"""
    nvs, nhs, nas = (range(1, 6), range(0, 7), range(1, 7)) if ctx.thorough else (range(1, 5), range(0, 6), range(1, 6))
    archs = [(nv, nh, na) for nv in nvs for nh in nhs for na in nas]
    archs += [(nv, nh, na) for nv in (1, 2, 3) for nh, na in ((None, None), (None, 1), (None, 4), (1, None), (4, None), (0, None))]
    if not ctx.thorough:
        archs += [(5, 1, 1), (5, 1, 2), (5, 2, 1), (5, 1, 3), (5, 3, 1), (5, 2, 2), (5, 2, 6), (5, 6, 2), (5, 1, 6), (5, None, None)]
    else:
        archs += [(6, 1, 2), (6, 2, 1), (6, 2, 3), (6, None, 2), (2, 9, 1), (2, 1, 9), (1, 1, 8)]
    return archs


def train_data(rng, nv, N):
    """measurement records: some in the reference basis, the others in random bases; an X and a Y occur"""
    import torch
    data = torch.tensor(rng.integers(0, 2, size=(N, nv)), dtype=torch.double)
    bases = np.array([["Z"] * nv] * 2 + [list(rng.choice(["X", "Y", "Z"], size=nv)) for _ in range(N - 2)])
    bases[2, int(rng.integers(0, nv))] = "X"
    bases[3, int(rng.integers(0, nv))] = "Y"
    return data, bases


def aux_bias_arch_block(ctx):
    """The clause 'the phase network's auxiliary bias stays zero throughout training' for EVERY architecture (nv, nh, na) of the
    stated ranges — na < nh, na = nh, na > nh, na > nv, nh + na < nv, nh = 1 with a wide visible layer, nh = 0, defaulted sizes —
    one short training run each (rotated bases), with the construction path and the optimizer rotating WITHIN every shape class, all
    parameters of both networks random (the two networks written with different values; the phase aux bias left at the value
    construction gave it).  Demanded: the entries of every phase gradient for the slot of the auxiliary bias are exactly zero, and
    rbm_ph.aux_bias is exactly zero after every batch and at the end."""
    import torch
    from qucumber.nn_states import DensityMatrix
    from qucumber.callbacks import CallbackBase

    class Watch(CallbackBase):
        def __init__(self):
            self.first, self.batches = None, 0

        def on_batch_end(self, s, ep, b):
            self.batches += 1
            ab = s.rbm_ph.aux_bias.data
            if self.first is None and bool((ab != 0).any()):
                self.first = {"epoch": int(ep), "batch": int(b), "aux_bias": ab.tolist()}

    opts = optimizer_menu()
    rot = {}
    failed = 0
    for idx, (nv, nh, na) in enumerate(all_archs(ctx)):
        enh, ena = nv if nh is None else nh, nv if na is None else na
        tags = arch_classes(nv, enh, ena)
        for t in tags:
            ctx.count("arch class:" + t)
        # the rotation is per shape class (first tag = na vs nh), periods 5 and 11: every class meets every path and every optimizer
        r = rot[tags[0]] = rot.get(tags[0], -1) + 1
        path = PATHS[r % len(PATHS)] if nh is not None and na is not None else ("sizes", "sizes-keywords")[r % 2]
        oname, ocls, oargs = opts[(r + ctx.seed) % len(opts)]
        sub = int(ctx.rng.integers(0, 2 ** 31 - 1))
        rng = np.random.default_rng(sub)
        torch.manual_seed(sub)
        case = {"aux_bias_arch": True, "nv": nv, "nh": nh, "na": na, "built": path, "optimizer": oname, "optimizer_args": oargs, "case_seed": sub}
        ctx.case({k: case[k] for k in ("aux_bias_arch", "nv", "nh", "na", "built", "optimizer")}, nontrivial=(enh != ena or enh != nv))
        ctx.count("aux-bias architecture run, built by:" + path)
        zero_size = enh == 0                     # num_hidden = 0: generated, but that training RUNS for it is not demanded

        def build():
            if path == "sizes":
                return DensityMatrix(enc_sz(ctx, nv), enc_sz(ctx, nh), enc_sz(ctx, na), gpu=False)
            if path == "sizes-keywords":
                kw = {k: enc_sz(ctx, v) for k, v in (("num_hidden", nh), ("num_aux", na)) if v is not None}
                return DensityMatrix(num_visible=enc_sz(ctx, nv), gpu=False, **kw)
            if path in ("module", "module-subclass"):
                mod = make_module(ctx, 1, nv, nh, na, "subclass" if "subclass" in path else "stock", gpu=False)
                return DensityMatrix(enc_sz(ctx, int(rng.integers(1, 6))), module=mod, gpu=False)
            s_ = DensityMatrix(enc_sz(ctx, nv), enc_sz(ctx, nh), enc_sz(ctx, na), gpu=False)
            d_, b_ = train_data(rng, nv, 4)
            s_.fit(d_, epochs=1, pos_batch_size=2, k=1, lr=0.1, input_bases=b_)
            s_.reinitialize_parameters()
            return s_
        if zero_size:
            try:
                dm = build()
            except Exception:
                ctx.count("num_hidden = 0: construction raised (nothing demanded)")
                continue
        else:
            ok, dm = ctx.call("DensityMatrix construction (%s)" % path, case, build)
            if not ok:
                failed += 1
                continue
        got = [int(dm.rbm_ph.num_visible), int(dm.rbm_ph.num_hidden), int(dm.rbm_ph.num_aux)]
        ctx.require("the phase network has the requested / defaulted / the module's sizes", got == [nv, enh, ena], case, {"got": got, "want": [nv, enh, ena]})
        # all parameters of both networks random and different between the networks; the phase aux bias stays what construction made it
        for net in ("rbm_am", "rbm_ph"):
            for n, p in getattr(dm, net).named_parameters():
                if not (net == "rbm_ph" and n == "aux_bias") and p.numel():
                    p.data.copy_(torch.tensor(rng.normal(size=tuple(p.shape)) * 0.5 + 0.05))
        ab0 = dm.rbm_ph.aux_bias.data.clone()
        if tuple(ab0.shape) != (ena,) or bool((ab0 != 0).any()):
            # not zero to begin with: 'stays zero' says nothing (zero biases after construction are demanded elsewhere)
            ctx.count("aux-bias architecture run skipped: phase aux bias not zero before training")
            continue
        data, bases = train_data(rng, nv, 6)
        case["data"], case["bases"] = data.tolist(), ["".join(b) for b in bases]
        slot, P = ab_slot(dm.rbm_ph)
        lo, hi = slot
        nf0 = len(ctx.failures)
        # ---- the gradient entries for that slot (what the optimizer is handed)
        fns = [("gradient(samples, bases)[1]", lambda: dm.gradient(data, bases)[1]),
               ("compute_batch_gradients(...)[1]", lambda: dm.compute_batch_gradients(1, data, data[:3].clone(), bases)[1]),
               ("ph_grads", lambda: dm.ph_grads(data)),
               ("rotated_gradient(basis, samples)[1]", lambda: dm.rotated_gradient(bases[2], data[:2])[1]),
               ("rbm_ph.gamma_grad(eta=-1, expand=True)", lambda: dm.rbm_ph.gamma_grad(data, data.flip(0), eta=-1, expand=True)),
               ("rbm_ph.gamma_grad(eta=-1, expand=False)", lambda: dm.rbm_ph.gamma_grad(data, data.flip(0), eta=-1, expand=False)),
               ("rbm_ph.gamma_grad(1-D)", lambda: dm.rbm_ph.gamma_grad(data[0], data[-1], eta=-1, expand=False)),
               ("pi_grad(phase=True, expand=True)", lambda: dm.pi_grad(data, data.flip(0), phase=True, expand=True)),
               ("pi_grad(phase=True, expand=False)", lambda: dm.pi_grad(data, data.flip(0), phase=True, expand=False)),
               ("pi_grad(phase=True, 1-D)", lambda: dm.pi_grad(data[0], data[-1], phase=True, expand=False))]
        blocks = []
        for nm, fn in fns:
            if zero_size:
                try:
                    t = fn()
                except Exception:
                    ctx.count("num_hidden = 0: a gradient function raised (nothing demanded)")
                    continue
            else:
                ok, t = ctx.call("phase gradient function " + nm, case, fn)
                if not ok:
                    continue
            if t.shape[-1] != P:
                ctx.count("phase gradient vector of a length other than the number of phase parameters")
            blocks.append((nm, t[..., lo:hi].clone()))
        # ---- a short training run
        before = snap(dm.rbm_ph)
        w = Watch()
        fit = lambda: dm.fit(data, epochs=2, pos_batch_size=3, neg_batch_size=int(rng.integers(1, 4)), k=1, lr=0.05, input_bases=bases,
                             optimizer=ocls, optimizer_args=dict(oargs), callbacks=[w])
        if zero_size:
            try:
                fit()
                ok = True
            except Exception:
                ctx.count("num_hidden = 0: training raised (nothing demanded)")
                ok = False
        else:
            ok, _ = ctx.call("DensityMatrix.fit with %s" % oname, case, fit)
        if ok:
            ab = dm.rbm_ph.aux_bias.data
            ctx.require("aux_bias of rbm_ph exactly 0 after every batch of training", w.first is None, case, w.first)
            ctx.require("aux_bias of rbm_ph exactly 0 after training", tuple(ab.shape) == (ena,) and bool((ab == 0).all()), case, ab.tolist())
            moved = [n for (n, t0), (_, t1) in zip(before, snap(dm.rbm_ph)) if not torch.equal(t0, t1)]
            ctx.count("aux-bias architecture run: phase network %s by training" % ("moved" if moved else "NOT moved"))
            ctx.count("aux-bias architecture run, optimizer:" + oname)
            ctx.traces += 1
        # (reported after the training clause: the statement is about the bias itself, the gradient entries are its mechanism)
        for nm, blk in blocks:
            ctx.require("%s: the entries for the phase network's auxiliary bias are exactly zero" % nm, bool((blk == 0).all()), case,
                        {"slot": [lo, hi], "largest_entry": float(blk.abs().max()) if blk.numel() else 0.0,
                         "rows_with_a_non_zero_entry": blk.reshape(-1, blk.shape[-1])[(blk.reshape(-1, blk.shape[-1]) != 0).any(-1)][:2].tolist()})
        if len(ctx.failures) > nf0:
            failed += 1
            if failed >= 3:
                ctx.count("aux-bias architecture block cut after three failing architectures")
                break


def aux_bias_cases(ctx):
    import torch
    from qucumber.nn_states import DensityMatrix
    m = ctx.get_model()
    # one architecture of every shape class: na < nh, na < nh = nv, na = nh > nv, na > nh, nh + na < nv
    archs = [(2, 2, 1), (2, 3, 2), (3, 2, 3), (1, 2, 2), (4, 1, 2), (3, 3, 3)] if ctx.thorough else [(2, 3, 2), (2, 2, 3), (1, 2, 2), (4, 1, 2)]
    opts = [("SGD", torch.optim.SGD, {}), ("SGD+momentum", torch.optim.SGD, {"momentum": 0.9}),
            ("SGD+nesterov+wd", torch.optim.SGD, {"momentum": 0.5, "nesterov": True, "weight_decay": 0.01}),
            ("Adam", torch.optim.Adam, {}), ("Adam+wd", torch.optim.Adam, {"weight_decay": 0.01})]
    for (nv, nh, na) in archs:
        for oname, ocls, oargs in opts:
            ctx.torch_seed()
            dm = DensityMatrix(nv, nh, na, gpu=False)
            for net in ("rbm_am", "rbm_ph"):
                for n, p in getattr(dm, net).named_parameters():
                    p.data.add_(torch.tensor(ctx.rng.normal(size=tuple(p.shape)) * 0.5))
            dm.rbm_ph.aux_bias.data.zero_()
            N = 8
            data = torch.tensor(ctx.rng.integers(0, 2, size=(N, nv)), dtype=torch.double)
            bases = np.array([["Z"] * nv] * 3 + [list(ctx.rng.choice(["X", "Y", "Z"], size=nv)) for _ in range(N - 3)])
            case = {"aux_bias": True, "nv": nv, "nh": nh, "na": na, "optimizer": oname}
            ctx.case(case, nontrivial=True)
            # gradient blocks
            sp = dm.generate_hilbert_space()
            ok, g = ctx.call("phase gradient functions", case, lambda: (
                dm.rbm_ph.gamma_grad(sp, sp, eta=-1, expand=True), dm.pi_grad(sp, sp, phase=True, expand=True),
                dm.ph_grads(sp), dm.compute_batch_gradients(1, data, data[:4], bases)))
            if not ok:
                continue
            gg, pg, phg, bg = g
            ok2, g2 = ctx.call("phase gradient functions, expand=False and 1-D forms", case, lambda: (
                dm.rbm_ph.gamma_grad(sp, sp.flip(0), eta=-1, expand=False), dm.pi_grad(sp, sp.flip(0), phase=True, expand=False),
                dm.rbm_ph.gamma_grad(sp[0], sp[-1], eta=-1, expand=False), dm.pi_grad(sp[0], sp[-1], phase=True, expand=False),
                dm.rbm_ph.gamma_grad(sp, sp.flip(0), eta=+1, expand=True)))
            if ok2:
                for nm, t in zip(("gamma_grad expand=False", "pi_grad(phase) expand=False", "gamma_grad 1-D", "pi_grad(phase) 1-D", "gamma_grad eta=+1"), g2):
                    ctx.require("%s: aux-bias block identically zero" % nm, bool((t[..., -na:] == 0).all()), case)
            ctx.require("gamma_grad: aux-bias block identically zero", bool((gg[..., -na:] == 0).all()), case)
            ctx.require("pi_grad(phase=True): aux-bias block identically zero", bool((pg[..., -na:] == 0).all()), case)
            ctx.require("ph_grads: aux-bias block identically zero", bool((phg[..., -na:] == 0).all()), case)
            ctx.require("batch gradient of the phase network: aux-bias block identically zero", bool((bg[1][-na:] == 0).all()), case,
                        bg[1][-na:].tolist())
            groups = [[]] + [[[[float(ctx.rng.normal()), [[float(ctx.rng.normal()), float(ctx.rng.normal())] for _ in range(4)]] for _ in range(2)]]
                             for _ in range(2)]
            mg = m.call("phase_ab_grad", na, groups, float(N))
            ctx.agree("aux-bias block of the phase batch gradient", bg[1][-na:], mg, case, atol=0.0, rtol=0.0)
            # real training
            ok, _ = ctx.call("DensityMatrix.fit with %s" % oname, case, lambda: dm.fit(
                data, epochs=3, pos_batch_size=4, k=1, lr=0.05, input_bases=bases, optimizer=ocls, optimizer_args=dict(oargs)))
            if not ok:
                continue
            ab = dm.rbm_ph.aux_bias.data
            ctx.require("aux_bias of rbm_ph exactly 0 after training", bool((ab == 0).all()), case, ab.tolist())
            ctx.require("training changed the other phase parameters (the run is not vacuous)",
                        bool((dm.rbm_ph.weights_U.data != 0).any()), case)
            hist = [[[], groups, 4.0] for _ in range(6)]
            if ocls is torch.optim.SGD:
                cfg = [0.05, oargs.get("momentum", 0.0), 0.0, oargs.get("weight_decay", 0.0), 1 if oargs.get("nesterov") else 0,
                       1 if oargs.get("momentum", 0.0) != 0 else 0]
                mr = m.call("train_sgd", cfg, na, hist, [], [0.0] * na)
            else:
                cfg = [0.05, 0.9, 0.999, 1e-8, oargs.get("weight_decay", 0.0)]
                mr = m.call("train_adam", cfg, na, hist, [], [0.0] * na)
            ctx.agree("aux_bias after training vs model optimizer run", ab, mr[1], case, atol=0.0, rtol=0.0)
            # construct -> train -> reinitialise -> train: the invariant holds over any such sequence
            case2 = dict(case, sequence=["construct", "train", "reinitialize_parameters", "train"])
            ok, _ = ctx.call("reinitialize_parameters + DensityMatrix.fit with %s" % oname, case2, lambda: (
                dm.reinitialize_parameters(),
                dm.fit(data, epochs=2, pos_batch_size=4, k=1, lr=0.05, input_bases=bases, optimizer=ocls, optimizer_args=dict(oargs))))
            if ok:
                ab2 = dm.rbm_ph.aux_bias.data
                ctx.require("aux_bias of rbm_ph exactly 0 after reinitialise + training", bool((ab2 == 0).all()), case2, ab2.tolist())
                ctx.count("trained_after_reinitialize:" + oname)
            ctx.count("trained:" + oname)
            ctx.traces += 1


def shape_cases(ctx):
    """Constructor shapes incl. the `if num_hidden` (0 -> default) vs `is not None` quirk, against the model."""
    from qucumber.nn_states import PositiveWaveFunction, ComplexWaveFunction, DensityMatrix
    CLS = [PositiveWaveFunction, ComplexWaveFunction, DensityMatrix]
    m = ctx.get_model()
    for k in range(3):
        # EVERY architecture of the stated ranges (one construction each; three encodings of the arguments for the original few)
        for nv in range(1, 6):
            for nh in ((None, 0, 1, 2, 3, 4, 5, 6) if k == 2 else (None, 1, 2, 3, 4, 5, 6)):
                for na in ((None, 0, 1, 2, 3, 4, 5) if k == 2 else (None,)):
                    for rep in range(3 if nv in (1, 3) and nh in (None, 0, 2, 4) and na in (None, 0, 2) else 1):
                        args = (enc_sz(ctx, nv), enc_sz(ctx, nh)) if k < 2 else (enc_sz(ctx, nv), enc_sz(ctx, nh), enc_sz(ctx, na))
                        case = {"shapes": CLS[k].__name__, "nv": nv, "nh": nh, "na": na, "args": [repr(a) for a in args]}
                        gk = gpu_kw(ctx)
                        ok, s = ctx.call("constructor", case, lambda: CLS[k](*args, **gk))
                        if not ok:
                            continue
                        ctx.case(case, nontrivial=(nh != nv))
                        want = want_shapes(k, nv, nh, na)
                        for net in s.networks:
                            gotn = [(n, tuple(p.shape)) for n, p in getattr(s, net).named_parameters()]
                            ctx.require("sizes constructor: requested / defaulted shapes (%s)" % net, gotn == want, case, {"got": gotn, "want": want})
                        got = [[PN[n], list(p.shape)] for n, p in s.rbm_am.named_parameters()]
                        mo = ints(m.call("ctor_shapes", k, nv, [] if nh is None else [nh], [] if na is None else [na]))
                        ctx.agree_exact("constructor shapes", got, [[p, sh] for p, c, sh, v in mo[2]], case)
                        ctx.agree_exact("constructor sizes", [int(s.rbm_am.num_visible), int(s.rbm_am.num_hidden), int(getattr(s.rbm_am, "num_aux", 0))], mo[1][1:], case)


def run(ctx):
    aux_bias_arch_block(ctx)
    module_gpu_cases(ctx)
    shape_cases(ctx)
    fit_guard_cases(ctx)
    reinit_cases(ctx)
    aux_bias_cases(ctx)
    n = 250 if ctx.thorough else 60
    lo, hi = (10, 24) if ctx.thorough else (6, 14)
    for hid in range(n):
        ctx.torch_seed()
        one_history(ctx, hid, int(ctx.rng.integers(lo, hi + 1)))
        if ctx.disagreements or len(ctx.failures) > 3:
            break


def search(ctx, broken, budget):
    t0 = time.time()
    n0 = len(ctx.failures)
    hid = 10000
    while time.time() - t0 < budget:
        ctx.torch_seed()
        nd = len(ctx.disagreements)
        one_history(ctx, hid, int(ctx.rng.integers(6, 16)))
        del ctx.disagreements[nd:]
        hid += 1
        if len(ctx.failures) > n0:
            return ctx.failures[n0]
    return None


def replay(ctx, rec):
    print("replay: re-running the generated cases with seed", rec.get("seed"))
    run(ctx)
