"""C09 — The swap estimator measures the purity of the reduced state.

Correspondence: SWAP(A).apply of real Positive/Complex/DensityMatrix objects vs the extracted Coq model
(Observables.swap_apply: cyclic pairing by roll, swap of the region, product of the two importance weights,
real part), on two-row batches for all pairs of basis states, on one long batch containing every ordered pair of
basis states as neighbouring rows, on random batches and single-row batches; observables.entanglement.swap vs
Observables.swap_sites.  The basis is enumerated independently (itertools.product), not by the code under test.
The direction of the cyclic pairing in long batches (row i with row i-1 or with row i+1) is detected from the output;
the model (which pairs with row i-1) is evaluated on the reversed batch when the implementation pairs with row i+1.

Oracle (implementation outputs only, numpy reference): for every region A (all 2^n subsets, every accepted
encoding int / list / np.array / tensor)
   sum_{s1,s2} p(s1) p(s2)/Z^2 * value(s1, s2)  ==  tr(rho_A^2)   (numpy partial trace of the normalised state),
the derived Renyi entropy is >= 0, equal for a region and its complement of a pure state, zero for the empty /
full region of a pure state; in a longer batch every row is paired with a cyclic neighbour (a shift by one in either
direction, the same for all rows, so every row is used once in each replica role); the batch is unchanged.
Object history (red team 2): ONE observable object and ONE region object meet states of several sizes in turn (the estimator is the
purity of the region the encoding denotes for the CURRENT size), values handed out by an earlier apply stay what they were when the
observable is applied again, statistics_from_samples averages exactly the per-row values (num_samples == rows).  Strongly polarised
pure states (|effective energy| up to ~650, where |psi|^2 is still a double) are held to the same oracle and the model."""
import itertools, math, time
import numpy as np
import gen
from checks import c08 as base

RULE = ("state types positive/complex/mixed, nv 1..4 in both tiers (quick: fewer draws, one random encoding per region for nv >= 3), parameter draws from the mixture in harness/gen.py plus a large-bias regime (|b| up to 30); "
        "for every state: every subset A of the sites in the encodings list / np.array / tensor (and int for single sites), applied to "
        "two-row batches [s1; s2] for all pairs of basis states (both orders come out of one batch; these define value(s1,s2)), to one batch "
        "of 4^n rows in which every ordered pair of basis states occurs as neighbouring rows, to random batches of 3..6 rows and to "
        "single-row batches (pairing = cyclic shift by one, direction detected from the output); additionally every region in the further encodings plain indexing accepts "
        "(boolean masks, negative / unsorted / repeated indices, tuples, ranges, int32 arrays, numpy scalars, 0-dim tensors, slices) on the "
        "all-pairs batch, non-contiguous (strided) double sample tensors, one random batch of ~2500 rows per region for n <= 3 and one batch of 20001..26000 rows (odd) per state type; "
        "strongly polarised / shifted PURE states (visible or hidden biases summing to 400..640, |effective energy| up to ~650: |psi|^2 up to e^650 is still "
        "a double) - fixed ones first, then one per size and pure type from the seed; an object-history block (fixed first, then from the seed): ONE SWAP object "
        "per from-the-end / plain encoding applied to states of sizes 3, 4, 3 (and random sizes) of rotating state types, the region object re-used for a "
        "second observable, the tensor returned by one apply kept while the observable is applied to another batch of the same length, and "
        "statistics_from_samples of the same batch (num_samples == rows, mean == mean of the per-row values); "
        "a case is (state, region, "
        "encoding); non-trivial := all biases non-zero, 0 < |A| < n or n = 1, and (positive or non-zero phase network)")
ASSUMPTIONS = ["torch elementwise kernels / advanced indexing implement their documented semantics",
               "mixed states with |effective energy| > 300 are skipped (the implementation's own probability^2 leaves the doubles at ~355); pure states are "
               "exercised up to |effective energy| ~ 650 (cut: |E| <= 690 and max E - min E <= 690, beyond which |psi|^2 / the weights themselves leave "
               "the doubles); skipped draws are counted as skipped_overflow",
               "OUT of scope (red team 2, C09_4): an observable is immutable after construction - re-assigning the attribute `O.A` of a live SWAP object "
               "(an attribute the documentation does not mention; only the constructor argument A is documented) is not exercised, so an implementation "
               "that prepares its indexing object once in __init__ is accepted",
               "whether apply leaves the caller's REGION object untouched is only counted (histogram 'region object changed by apply'); the property names the "
               "batch only.  What is required is the consequence: the same observable / the same region object used again (other system size) must still "
               "measure the region the encoding denotes there"]


def purity_np(rho_n, n, A):
    """tr(rho_A^2) of a dense 2^n x 2^n matrix by an explicit partial trace over the complement of A."""
    A = sorted(set(A))
    Ac = [i for i in range(n) if i not in A]
    T = rho_n.reshape([2] * (2 * n))
    perm = A + Ac + [n + i for i in A] + [n + i for i in Ac]
    dA, dB = 2 ** len(A), 2 ** len(Ac)
    T = T.transpose(perm).reshape(dA, dB, dA, dB)
    rA = np.einsum("abcb->ac", T)
    return float(np.trace(rA @ rA).real)


def euler_rows(N):
    """A cyclic sequence of N*N vertex indices in which every ordered pair (u, v) occurs exactly once as
    (seq[i-1], seq[i]) — an Eulerian circuit of the complete digraph with loops (Hierholzer)."""
    nxt = [0] * N
    stack, circuit = [0], []
    while stack:
        u = stack[-1]
        if nxt[u] < N:
            v = nxt[u]; nxt[u] += 1
            stack.append(v)
        else:
            circuit.append(stack.pop())
    circuit.reverse()           # N*N + 1 vertices, first == last
    return circuit[:-1]


def encodings(A, n, rng, all_forms):
    import torch
    forms = [("list", list(A)), ("np.array", np.array(list(A), dtype=np.int64)), ("tensor", torch.tensor(list(A), dtype=torch.long))]
    if len(A) == 1:
        forms.append(("int", int(A[0])))
    if all_forms:
        return forms
    k = int(rng.integers(0, len(forms)))
    out = [forms[k]]
    if len(A) == 1 and forms[k][0] != "int":
        out.append(forms[-1])
    return out


def exotic_encodings(A, n, rng):
    """Further ways of writing the same region that plain torch / numpy indexing `x[:, A]` accepts: boolean masks,
    negative (from-the-end), unsorted and repeated indices, tuples, ranges, 32-bit index arrays, numpy scalars,
    0-dim tensors.  What each denotes is decided by numpy indexing on arange(n); it must be the set A."""
    import torch
    A = list(A)
    mask = [i in A for i in range(n)]
    forms = [("bool tensor", torch.tensor(mask, dtype=torch.bool)), ("bool ndarray", np.array(mask, dtype=bool)), ("bool list", list(mask))]
    if A:
        neg = [a - n for a in A]
        mixed = [a if k % 2 else a - n for k, a in enumerate(A)]
        shuffled = [A[k] for k in rng.permutation(len(A))] if len(A) > 1 else list(A)
        forms += [("negative list", neg), ("negative tensor", torch.tensor(neg, dtype=torch.long)), ("mixed-sign ndarray", np.array(mixed, dtype=np.int64)),
                  ("reversed list", A[::-1]), ("shuffled tensor", torch.tensor(shuffled, dtype=torch.long)), ("repeated list", A + A[::-1]),
                  ("tuple", tuple(A)), ("int32 ndarray", np.array(A, dtype=np.int32)), ("int32 tensor", torch.tensor(A, dtype=torch.int32))]
        steps = set(np.diff(A).tolist())
        if len(steps) <= 1:
            st = steps.pop() if steps else 1
            forms.append(("range", range(A[0], A[-1] + 1, st)))
    else:
        forms += [("empty tuple", ()), ("empty range", range(0)), ("empty int32 tensor", torch.tensor([], dtype=torch.int32))]
    if len(A) == 1:
        a = A[0]
        forms += [("np.int64 scalar", np.int64(a)), ("np.int32 scalar", np.int32(a)), ("0-dim tensor", torch.tensor(a)),
                  ("0-dim int32 tensor", torch.tensor(a, dtype=torch.int32)), ("negative int", a - n), ("slice", slice(a, a + 1))]
    out = []
    for name, enc in forms:
        e = enc.numpy() if isinstance(enc, torch.Tensor) else enc
        denoted = sorted(set(np.atleast_1d(np.arange(n).reshape(1, n)[:, e].ravel()).tolist()))
        assert denoted == sorted(A), "harness: encoding %s of %r denotes %r" % (name, A, denoted)
        out.append((name, enc))
    return out


def batch_variants(ctx, space, N, eul, n, first_encoding, very_long=False):
    """(name, row indices, tensor builder) of the longer batches applied for one (region, encoding)."""
    import torch
    rng = ctx.rng
    take = lambda ridx: space[torch.tensor(ridx, dtype=torch.long)].clone()
    B = int(rng.integers(3, 7))
    out = [("all ordered pairs as neighbouring rows", np.array(eul), take),
           ("random batch", rng.integers(0, N, size=B), take),
           ("single-row batch", rng.integers(0, N, size=1), take),
           ("non-contiguous batch (column-major storage)", rng.integers(0, N, size=B + 1), lambda r: take(r).t().contiguous().t()),
           ("non-contiguous batch (every second row of a larger tensor)", rng.integers(0, N, size=B),
            lambda r: torch.stack([take(r), 1 - take(r)], 1).reshape(2 * len(r), n)[::2])]
    if first_encoding and n <= 3:
        # longer than any plausible internal chunk size, and not a multiple of a round number
        out.append(("long random batch", rng.integers(0, N, size=int(rng.integers(2300, 2700)) | 1), take))
    if very_long:
        # > 20000 rows, odd length: the basis cycled from a random offset, with a random row every 7th position so
        # that neighbouring rows form many different pairs
        Bv = 20001 + 2 * int(rng.integers(0, 3000))
        ridx = (int(rng.integers(0, N)) + np.arange(Bv)) % N
        ridx[::7] = rng.integers(0, N, size=len(ridx[::7]))
        out.append(("very long batch", ridx, take))
    return out


def independent_space(ctx, s, n, case):
    """The basis is enumerated here (itertools.product, site 0 most significant), not taken from the code under test."""
    import torch
    sp = gen.all_states(n)
    try:
        own = s.generate_hilbert_space().numpy()
        if own.shape != sp.shape or not np.array_equal(own, sp):
            ctx.count("generate_hilbert_space differs from the independent enumeration (C19's clause; not required here)")
    except Exception:
        ctx.count("generate_hilbert_space raised (C19's clause; not required here)")
    return torch.tensor(sp, dtype=torch.double), sp


def detect_shift(out, ridx, V, M):
    """Which cyclic neighbour is row i paired with?  Returns the list of shifts d in (+1, -1) such that
    out[i] == V[row_i, row_{i-d}] for every i (V from two-row batches, where both shifts coincide)."""
    B = len(ridx)
    good = []
    for d in (1, -1):
        want = np.array([V[ridx[i], ridx[(i - d) % B]] for i in range(B)])
        sc = np.array([M[ridx[i], ridx[(i - d) % B]] for i in range(B)])
        if out.shape == (B,) and np.all(np.abs(out - want) <= 1e-9 * sc + 1e-7 * np.abs(want)):
            good.append(d)
    return good


def model_long_batch(m, margs, A, rows_np, d):
    """Model value of a long batch for the detected shift: the model pairs row i with row i-1; a batch paired
    with row i+1 is the reversed batch paired with row i-1, read backwards."""
    if d == -1:
        return list(reversed(m.call("swap_apply", *margs, A, rows_np[::-1].copy())))
    return m.call("swap_apply", *margs, A, rows_np)


def energies_ok(kind, params, sp):
    """Mixed states: the cut of the shared helper (|E| <= 300).  Pure states: |psi|^2 = e^-E, the partition function and
    the two importance weights exp((E - E')/2) are doubles as long as |E| and the spread of E stay below ~700."""
    if kind == "mixed":
        return base.energies_ok(kind, params, sp)
    A = [np.asarray(x, dtype=float) for x in params["am"]]
    E = gen.np_eff_energy(*A, sp)
    if not np.all(np.isfinite(E)) or np.max(np.abs(E)) > 690 or float(E.max() - E.min()) > 690:
        return False
    if kind != "positive":
        P = [np.asarray(x, dtype=float) for x in params["ph"]]
        if max(float(np.max(np.abs(x))) if x.size else 0.0 for x in P) > 1e3:
            return False
    return True


def draw_huge(ctx, kind, nv, nh, variant=None):
    """A strongly polarised / shifted PURE state whose |effective energy| reaches 400..650 (|psi|^2 up to e^650: a double):
    variant 'visible': 1..3 visible biases (random signs) whose magnitudes sum to T in [400, 640];
    variant 'hidden':  1..2 positive hidden biases summing to T (softplus is linear there: every energy is shifted by -T, the
                       remaining hidden units keep the state entangled).  All other parameters N(0,1)."""
    rng = ctx.rng
    if variant is None:
        variant = "visible" if rng.random() < 0.5 else "hidden"
    for attempt in range(6):
        W = rng.normal(size=(nh, nv)); b = rng.normal(size=nv); c = rng.normal(size=nh)
        T = float(rng.uniform(400.0, 640.0)) * (0.9 ** attempt)
        if variant == "visible":
            k = int(rng.integers(1, min(nv, 3) + 1))
            sites = rng.choice(nv, size=k, replace=False)
            share = rng.uniform(0.5, 1.0, size=k); share = share / share.sum()
            b[sites] = T * share * rng.choice([-1.0, 1.0], size=k)
        else:
            k = int(rng.integers(1, min(nh, 2) + 1))
            units = rng.choice(nh, size=k, replace=False)
            share = rng.uniform(0.5, 1.0, size=k); share = share / share.sum()
            c[units] = T * share
        params = {"am": gen.plist(W, b, c)}
        if kind == "complex":
            params["ph"] = gen.plist(*gen.brbm_params(ctx, nv, nh))
        sp = gen.all_states(nv)
        E = gen.np_eff_energy(W, b, c, sp)
        if energies_ok(kind, params, sp) and np.max(np.abs(E)) >= 360:
            ctx.count("param_regime:huge_pure_" + variant)
            return params
    ctx.count("huge_pure_draw_failed")
    return None


def check_state(ctx, kind, nv, nh, na, params, with_model=True, only_region=None, all_forms=None, very_long=False, regions=None):
    import torch
    from qucumber.observables import SWAP
    from qucumber.observables.entanglement import swap
    case0 = {"state": kind, "nv": nv, "nh": nh, "na": na, "params": params}
    s = base.build(kind, nv, nh, na, params)
    n = nv
    space, sp = independent_space(ctx, s, n, case0)
    if not energies_ok(kind, params, sp):
        ctx.count("skipped_overflow")
        return
    sm = base.state_matrices(ctx, s, kind, space, case0)
    if sm is None:
        return
    rho, p = sm
    N = len(sp)
    Z = float(p.sum())
    rho_n = rho / np.trace(rho)
    w = p / Z
    m = ctx.get_model() if with_model else None
    margs = base.model_state_args(kind, params)
    triv_state = base.nontrivial(kind, params)
    ctx.count("state:" + kind); ctx.count("nv:%d" % nv)
    idx = lambda row: int("".join(str(int(b)) for b in row), 2)
    eul = euler_rows(N)
    big = space[torch.tensor(eul, dtype=torch.long)].clone()
    pairs2 = [(i, j) for i in range(N) for j in range(i, N)]
    est = {}
    very_long_used = False
    if very_long:
        base.very_long_done(ctx).add(kind)
    if all_forms is None:
        all_forms = ctx.thorough or n <= 2
    subsets = [list(c) for k in range(n + 1) for c in itertools.combinations(range(n), k)]
    for A in subsets:
        if only_region is not None and A != only_region:
            continue
        if regions is not None and A not in regions:
            continue
        want = purity_np(rho_n, n, A)
        mask = np.zeros(n, dtype=bool); mask[A] = True
        # magnitude of the complex product whose real part is returned: normalises comparisons
        def mag(i, j):
            a, b = sp[i].copy(), sp[j].copy()
            a[mask], b[mask] = sp[j][mask], sp[i][mask]
            # (ratio per replica first: the plain product of two matrix elements can leave the doubles for |E| ~ 600)
            return max(1e-300, (abs(rho[idx(a), i]) / abs(rho[i, i])) * (abs(rho[idx(b), j]) / abs(rho[j, j])))
        M = np.array([[mag(i, j) for j in range(N)] for i in range(N)])
        Vm = None
        if m is not None:           # model values for every ordered pair (model pairing: row i with row i-1)
            mo_big = m.call("swap_apply", *margs, A, big.numpy())
            Vm = np.zeros((N, N))
            for i in range(len(eul)):
                Vm[eul[i], eul[i - 1]] = mo_big[i]
        V_ref, d_ref = None, 1
        for enc_name, Aenc in encodings(A, n, ctx.rng, all_forms):
            case = dict(case0, region=A, encoding=enc_name)
            ctx.case({"state": kind, "nv": nv, "region": A, "encoding": enc_name, "am0": params["am"][0][0][0]},
                     nontrivial=triv_state and (0 < len(A) < n or n == 1))
            ctx.count("encoding:" + enc_name); ctx.count("|A|=%d" % len(A))
            O = SWAP(Aenc)
            # ---- (a) two-row batches [s1; s2] for all pairs: the two cyclic neighbours of a row coincide, so
            #          out = (value(s1, s2), value(s2, s1)) whatever the direction of the pairing
            V = np.zeros((N, N))            # V[s1, s2]: replica 1 = s1, replica 2 = s2
            bad = False
            for (i, j) in pairs2:
                b2 = torch.stack([space[i], space[j]]).clone()
                bb = b2.clone()
                c2 = dict(case, rows=[i, j])
                ok, o2 = ctx.call("SWAP.apply (two-row batch)", c2, lambda: O.apply(s, b2))
                if not ok:
                    bad = True
                    break
                ctx.require("SWAP: batch unchanged by apply", bool(torch.equal(b2, bb)), c2)
                good = isinstance(o2, torch.Tensor) and tuple(o2.shape) == (2,) and not torch.is_complex(o2)
                ctx.require("SWAP: one real number per row", bool(good), c2, {"shape": list(getattr(o2, "shape", []))})
                if not good:
                    bad = True
                    break
                o2 = o2.detach().numpy().astype(float)
                V[i, j], V[j, i] = o2[0], o2[1]
                ctx.traces += 1
            if bad:
                continue
            got = float(w @ V @ w)
            est[(tuple(A), enc_name)] = got
            ctx.require("SWAP: sum p(s1)p(s2)/Z^2 value(s1,s2) == tr(rho_A^2)", abs(got - want) <= 1e-8 + 1e-7 * abs(want), case,
                        {"estimator_mean": got, "purity": want})
            ctx.require("SWAP: Renyi-2 entropy >= 0", -math.log(max(got, 1e-300)) >= -1e-6, case, {"estimator_mean": got})
            if kind != "mixed" and len(A) in (0, n):
                ctx.require("SWAP: zero Renyi entropy for the empty / full region of a pure state", abs(got - 1.0) <= 1e-6, case, {"estimator_mean": got})
            if Vm is not None:
                ctx.agree("SWAP.apply on two-row batches (all ordered pairs)", V / M, Vm / M, case, scale=1.0)
            # ---- (b) longer batches: every row is paired with a cyclic neighbour (shift by one, either direction)
            vl = very_long and V_ref is None and len(A) > 0 and not very_long_used
            very_long_used = very_long_used or vl
            for lname, ridx, build_rows in batch_variants(ctx, space, N, eul, n, first_encoding=(V_ref is None), very_long=vl):
                rb = build_rows(ridx)
                rb0 = rb.clone()
                ctx.count("batch:" + lname.split(" (")[0])
                c3 = dict(case, batch=lname, rows=ridx.tolist() if len(ridx) <= 8 else "%d rows" % len(ridx))
                ok, o3 = ctx.call("SWAP.apply (%s)" % lname, c3, lambda: O.apply(s, rb))
                if not ok:
                    continue
                ctx.require("SWAP: batch unchanged by apply", bool(torch.equal(rb, rb0)), c3)
                good = isinstance(o3, torch.Tensor) and tuple(o3.shape) == (len(ridx),) and not torch.is_complex(o3)
                ctx.require("SWAP: one real number per row", bool(good), c3, {"shape": list(getattr(o3, "shape", []))})
                if not good:
                    continue
                o3 = o3.detach().numpy().astype(float)
                shifts = detect_shift(o3, ridx, V, M)
                ctx.require("SWAP: in a longer batch every row is paired with a cyclic neighbour (shift by one)", bool(shifts), c3,
                            {"got": o3[:8].tolist(), "row i with row i-1": [V[ridx[i], ridx[i - 1]] for i in range(min(8, len(ridx)))],
                             "row i with row i+1": [V[ridx[i], ridx[(i + 1) % len(ridx)]] for i in range(min(8, len(ridx)))]})
                d = shifts[0] if shifts else 1
                ctx.count("pairing shift %+d" % d if shifts else "pairing shift undetected")
                if lname.startswith("all ordered pairs") and shifts:
                    d_ref = d
                if m is not None and lname != "very long batch":
                    mo = model_long_batch(m, margs, A, sp[ridx], d)
                    sc = np.array([M[ridx[i], ridx[(i - d) % len(ridx)]] for i in range(len(ridx))])
                    ctx.agree("SWAP.apply on a longer batch (%s)" % lname, o3 / sc, np.array(mo) / sc, c3, scale=1.0)
            V_ref = V
        # ---- (c) the other encodings of the same region that plain indexing accepts: same values, same purity
        if V_ref is not None:
            for enc_name, Aenc in exotic_encodings(A, n, ctx.rng):
                case = dict(case0, region=A, encoding=enc_name, encoded=repr(Aenc)[:80])
                ctx.case({"state": kind, "nv": nv, "region": A, "encoding": enc_name, "am0": params["am"][0][0][0]},
                         nontrivial=triv_state and (0 < len(A) < n or n == 1))
                ctx.count("encoding:" + enc_name)
                before = big.clone()
                ok, o4 = ctx.call("SWAP(%s).apply" % enc_name, case, lambda: SWAP(Aenc).apply(s, big))
                if not ok:
                    continue
                ctx.require("SWAP: batch unchanged by apply", bool(torch.equal(big, before)), case)
                good = isinstance(o4, torch.Tensor) and tuple(o4.shape) == (len(eul),) and not torch.is_complex(o4)
                ctx.require("SWAP: one real number per row", bool(good), case, {"shape": list(getattr(o4, "shape", []))})
                if not good:
                    continue
                o4 = o4.detach().numpy().astype(float)
                V4 = np.zeros((N, N))
                for i in range(len(eul)):
                    V4[eul[i], eul[(i - d_ref) % len(eul)]] = o4[i]
                got4 = float(w @ V4 @ w)
                ctx.require("SWAP: sum p(s1)p(s2)/Z^2 value(s1,s2) == tr(rho_A^2)", abs(got4 - want) <= 1e-8 + 1e-7 * abs(want), case,
                            {"estimator_mean": got4, "purity": want, "region_denoted_by_numpy_indexing": A})
                ctx.require("SWAP: every encoding of the region gives the same values", bool(detect_shift(o4, np.array(eul), V_ref, M)), case,
                            {"got": o4[:6].tolist(), "list encoding": [V_ref[eul[i], eul[(i - d_ref) % len(eul)]] for i in range(min(6, len(eul)))]})
        # ---- swap() itself against the model (exact)
        if m is not None:
            i, j = int(ctx.rng.integers(0, N)), int(ctx.rng.integers(0, N))
            r1, r2 = swap(space[i:i + 1].clone(), space[j:j + 1].clone(), list(A))
            mr = m.call("swap_sites", sp[i], sp[j], A)
            ctx.agree_exact("swap(s1, s2, A)", [r1[0].tolist(), r2[0].tolist()], mr, dict(case0, region=A, rows=[i, j]))
    # ---- region / complement symmetry for pure states
    if kind != "mixed" and only_region is None:
        for A in subsets:
            Ac = [i for i in range(n) if i not in A]
            ga = [v for (k, e), v in est.items() if list(k) == A]
            gc = [v for (k, e), v in est.items() if list(k) == Ac]
            if ga and gc:
                ctx.require("SWAP: Renyi entropy of a region equals that of its complement (pure state)",
                            abs(ga[0] - gc[0]) <= 1e-8 + 1e-6 * abs(ga[0]), dict(case0, region=A, complement=Ac), {"region": ga[0], "complement": gc[0]})
    # all encodings of the same region give the same estimate
    for A in subsets:
        vals = [v for (k, e), v in est.items() if list(k) == A]
        if len(vals) > 1:
            ctx.require("SWAP: every encoding of the region gives the same values", max(vals) - min(vals) <= 1e-9 * max(1.0, abs(vals[0])),
                        dict(case0, region=A), {"values": vals})

# --------------------------------------------------------------------------- history on ONE observable object
def make_enc(form, idx):
    """region object of a serialisable spec (form, indices)"""
    import torch
    idx = list(idx)
    if form == "list":
        return list(idx)
    if form == "tuple":
        return tuple(idx)
    if form == "tensor":
        return torch.tensor(idx, dtype=torch.long)
    if form == "int32 tensor":
        return torch.tensor(idx, dtype=torch.int32)
    if form == "ndarray":
        return np.array(idx, dtype=np.int64)
    if form == "int":
        return int(idx[0])
    if form == "0-dim tensor":
        return torch.tensor(int(idx[0]))
    raise ValueError(form)


def enc_snapshot(enc):
    import torch
    if isinstance(enc, torch.Tensor):
        return enc.clone()
    if isinstance(enc, np.ndarray):
        return enc.copy()
    if isinstance(enc, list):
        return list(enc)
    return enc


def enc_same(a, b):
    import torch
    if isinstance(a, torch.Tensor):
        return isinstance(b, torch.Tensor) and a.shape == b.shape and a.dtype == b.dtype and bool(torch.equal(a, b))
    if isinstance(a, np.ndarray):
        return isinstance(b, np.ndarray) and a.shape == b.shape and bool(np.array_equal(a, b))
    return type(a) is type(b) and a == b


def denoted(idx, n):
    """the set of sites numpy indexing selects on a chain of n sites"""
    return sorted(set(np.atleast_1d(np.arange(n)[np.array(idx, dtype=np.int64)]).tolist()))


def draw_plain(ctx, kind, nv, nh, na):
    """all parameters N(0,1) (generic entangled state: the purities of different regions differ)"""
    rng = ctx.rng
    g = lambda *sh: rng.normal(size=sh)
    if kind == "mixed":
        return {"am": gen.plist(g(nh, nv), g(na, nv), g(nv), g(nh), g(na)), "ph": gen.plist(g(nh, nv), g(na, nv), g(nv), g(nh), np.zeros(na))}
    out = {"am": gen.plist(g(nh, nv), g(nv), g(nh))}
    if kind == "complex":
        out["ph"] = gen.plist(g(nh, nv), g(nv), g(nh))
    return out


FIXED_HISTORY = {"sizes": [3, 4, 3], "kinds": ["complex", "mixed", "positive"],
                 "encodings": [["tensor", [-1]], ["list", [-1]], ["tensor", [-1, -3]], ["ndarray", [0, -1]], ["int", [-2]], ["ndarray", [-2]],
                               ["0-dim tensor", [-1]], ["int32 tensor", [-3, -1]], ["tuple", [-2, -1]], ["list", [0, 2]], ["tensor", [1, 2]]]}


def random_history_spec(ctx):
    rng = ctx.rng
    sizes = [[3, 4, 3], [4, 3, 4], [2, 4, 3], [4, 2, 3], [2, 3, 4], [3, 4, 2]][int(rng.integers(6))]
    kinds = [str(k) for k in rng.choice(["positive", "complex", "mixed"], size=len(sizes))]
    m = min(sizes)
    encs = []
    for form in rng.permutation(["tensor", "list", "ndarray", "int32 tensor", "tuple", "int", "0-dim tensor"])[:(7 if ctx.thorough else 4)]:
        form = str(form)
        if form in ("int", "0-dim tensor"):
            idx = [-int(rng.integers(1, m + 1))]
        else:
            k = int(rng.integers(1, m + 1))
            idx = (-(rng.choice(m, size=k, replace=False) + 1)).tolist()
            if rng.random() < 0.4:                 # mixed signs: one entry counted from the front
                idx[int(rng.integers(k))] = int(rng.integers(0, m))
        encs.append([form, idx])
    return {"sizes": sizes, "kinds": kinds, "encodings": encs}


def object_history(ctx, spec, params_list=None, only_encoding=None):
    """ONE SWAP object (and ONE region object) used on states of several system sizes, one after the other: each time the
    estimator must be the purity of the region the encoding denotes for THAT size (numpy indexing on arange(n)); then a second
    observable is built from the same region object.  On the way: the tensor returned by one apply is kept while the observable is
    applied to another batch of the same length (must not change), and statistics_from_samples of the same batch must average
    exactly the per-row values (num_samples == rows: every row once in each replica role).  w^T V w does not depend on the
    direction of the cyclic pairing (V -> V^T), so the all-ordered-pairs batch is enough."""
    import torch
    from qucumber.observables import SWAP
    sizes, kinds = list(spec["sizes"]), list(spec["kinds"])
    bundles = []
    for k, (nv, kind) in enumerate(zip(sizes, kinds)):
        if params_list is not None:
            nh, na, params = params_list[k]
        else:
            nh = int(ctx.rng.integers(1, nv + 2))
            na = int(ctx.rng.integers(1, nv + 2)) if kind == "mixed" else 0
            params = draw_plain(ctx, kind, nv, nh, na)
        case0 = {"state": kind, "nv": nv, "nh": nh, "na": na, "params": params}
        s = base.build(kind, nv, nh, na, params)
        space, sp = independent_space(ctx, s, nv, case0)
        sm = base.state_matrices(ctx, s, kind, space, case0)
        if sm is None:
            return
        rho, p = sm
        eul = euler_rows(len(sp))
        bundles.append({"kind": kind, "nv": nv, "nh": nh, "na": na, "params": params, "s": s, "space": space, "rho_n": rho / np.trace(rho),
                        "w": p / float(p.sum()), "eul": eul, "big": space[torch.tensor(eul, dtype=torch.long)].clone()})
    plist = [[b["nh"], b["na"], b["params"]] for b in bundles]
    for form, idx in spec["encodings"]:
        if only_encoding is not None and [form, list(idx)] != only_encoding:
            continue
        enc = make_enc(form, idx)
        snap = enc_snapshot(enc)
        O = SWAP(enc)
        # steps: the same observable on every state in turn, then a NEW observable from the same region object on a state whose
        # size differs from the last one used
        other = next((b for b in bundles if b["nv"] != bundles[-1]["nv"]), bundles[0])
        steps = [("same observable", O, b) for b in bundles] + [("new observable from the same region object", None, other)]
        seen = []
        for label, obs, b in steps:
            n, kind, s = b["nv"], b["kind"], b["s"]
            if obs is None:
                ok, obs = ctx.call("SWAP(region object used before)", {"history_spec": spec, "encoding": [form, idx]}, lambda: SWAP(enc))
                if not ok:
                    continue
            A = denoted(idx, n)
            seen.append(n)
            case = {"state": kind, "nv": n, "nh": b["nh"], "na": b["na"], "params": b["params"], "region": A, "encoding": "%s %r" % (form, idx),
                    "history": "%s; sizes so far %r" % (label, seen), "history_spec": {"sizes": sizes, "kinds": kinds, "encodings": [[form, list(idx)]]},
                    "history_params": plist}
            ctx.case({"history": label, "sizes": list(seen), "state": kind, "encoding": [form, list(idx)], "am0": b["params"]["am"][0][0][0]},
                     nontrivial=0 < len(A) < n)
            ctx.count("history:" + label); ctx.count("history encoding:" + form)
            b1 = b["big"].clone(); before = b1.clone()
            ok, o1 = ctx.call("SWAP.apply (one observable, several system sizes)", case, lambda: obs.apply(s, b1))
            if not ok:
                continue
            ctx.require("SWAP: batch unchanged by apply", bool(torch.equal(b1, before)), case)
            good = isinstance(o1, torch.Tensor) and tuple(o1.shape) == (len(b1),) and not torch.is_complex(o1)
            ctx.require("SWAP: one real number per row", bool(good), case, {"shape": list(getattr(o1, "shape", []))})
            if not good:
                continue
            if not enc_same(snap, enc):
                ctx.count("region object changed by apply (not required by the property; its consequences are)")
            keep = o1.detach().clone()
            vals = keep.numpy().astype(float)
            eul, N = b["eul"], len(b["w"])
            V = np.zeros((N, N))
            for i in range(len(eul)):
                V[eul[i], eul[i - 1]] = vals[i]
            got, want = float(b["w"] @ V @ b["w"]), purity_np(b["rho_n"], n, A)
            ctx.require("SWAP: sum p(s1)p(s2)/Z^2 value(s1,s2) == tr(rho_A^2)", abs(got - want) <= 1e-8 + 1e-7 * abs(want), case,
                        {"estimator_mean": got, "purity": want, "region_denoted_for_this_size": A, "region_object_now": repr(enc)[:60]})
            ctx.traces += 1
            # ---- the same batch through the public statistics path
            ok, st = ctx.call("SWAP.statistics_from_samples", case, lambda: obs.statistics_from_samples(s, b1))
            if ok:
                fine = isinstance(st, dict) and st.get("num_samples") == len(b1) and \
                    abs(float(st.get("mean", np.nan)) - float(vals.mean())) <= 1e-9 * max(1.0, float(np.max(np.abs(vals))))
                ctx.require("SWAP: statistics_from_samples averages the per-row values of apply (every row once in each replica role)", bool(fine), case,
                            {"statistics": repr(st)[:200], "rows": len(b1), "mean of apply": float(vals.mean())})
            # ---- another batch of the same length on the same observable: the values handed out before stay what they were
            perm = ctx.rng.permutation(len(b1))
            b2 = b1[torch.tensor(perm, dtype=torch.long)].clone()
            ok, o2 = ctx.call("SWAP.apply (second batch of the same length)", case, lambda: obs.apply(s, b2))
            if ok:
                ctx.require("SWAP: the values returned by an earlier apply are not altered by a later apply of the same observable",
                            bool(torch.equal(o1.detach(), keep)), case, {"first values then": vals[:4].tolist(), "now": o1.detach().numpy()[:4].tolist()})


def sample_regions(ctx, n, k):
    """k random regions of an n-site chain (at least one proper non-empty one)"""
    subsets = [list(c) for r in range(n + 1) for c in itertools.combinations(range(n), r)]
    if k >= len(subsets):
        return None
    proper = [A for A in subsets if 0 < len(A) < n]
    pick = [proper[int(ctx.rng.integers(len(proper)))]] if proper else []
    while len(pick) < k:
        A = subsets[int(ctx.rng.integers(len(subsets)))]
        if A not in pick:
            pick.append(A)
    return pick


def huge_pure(ctx, kind, nv, variant=None, n_regions=None, with_model=True):
    nh = int(ctx.rng.integers(1, nv + 2))
    params = draw_huge(ctx, kind, nv, nh, variant)
    if params is None:
        return
    ctx.torch_seed()
    check_state(ctx, kind, nv, nh, 0, params, with_model=with_model, regions=(sample_regions(ctx, nv, n_regions) if n_regions else None))


def fixed_first(ctx):
    """A block that does not depend on VERIF_SEED and always runs first: the object-history block and four strongly
    polarised / shifted pure states."""
    saved = ctx.rng
    ctx.rng = np.random.Generator(np.random.PCG64(20261002))
    try:
        object_history(ctx, FIXED_HISTORY)
        huge_pure(ctx, "positive", 3, "visible", n_regions=4)
        huge_pure(ctx, "complex", 2, "hidden")
        huge_pure(ctx, "complex", 3, "visible", n_regions=4)
        huge_pure(ctx, "positive", 2, "hidden")
    finally:
        ctx.rng = saved


def run(ctx):
    fixed_first(ctx)
    # sizes 1..4 in both tiers (the property's range); the quick tier uses fewer draws and, for nv >= 3, one
    # randomly chosen encoding per region (plus int for single sites) instead of all of them
    plan = {1: 5, 2: 5, 3: 4, 4: 2} if ctx.thorough else {1: 3, 2: 3, 3: 2, 4: 1}
    for nv in (1, 2, 3, 4):
        for kind in ("mixed", "complex", "positive"):
            for d in range(plan[nv]):
                ctx.torch_seed()
                nh = int(ctx.rng.integers(1, nv + 2))
                na = int(ctx.rng.integers(1, nv + 2)) if kind == "mixed" else 0
                # one batch of > 20000 rows per state type (first state with nv in (2, 3), first non-empty region)
                check_state(ctx, kind, nv, nh, na, base.draw(ctx, kind, nv, nh, na),
                            very_long=(nv in (2, 3) and kind not in base.very_long_done(ctx)))
    # (after the main stream, so that its draws for a given seed are what they were before these blocks existed)
    for _ in range(3 if ctx.thorough else 1):
        object_history(ctx, random_history_spec(ctx))
    # one strongly polarised / shifted pure state per size and pure type (quick: a sample of the regions for nv >= 3)
    for nv in (1, 2, 3, 4):
        for kind in ("complex", "positive"):
            huge_pure(ctx, kind, nv, n_regions=(None if ctx.thorough or nv <= 2 else 3))
    # roll pairing of the model vs torch.roll on bit rows (exact)
    import torch
    m = ctx.get_model()
    for B in (1, 2, 3, 5):
        rows = torch.tensor(ctx.rng.integers(0, 2, size=(B, 3)), dtype=torch.double)
        ctx.agree_exact("torch.roll(rows, 1, 0)", torch.roll(rows, 1, 0).tolist(), m.call("roll1", rows.numpy()), {"rows": rows.tolist()})


def search(ctx, broken, budget):
    t0 = time.time()
    n0 = len(ctx.failures)
    object_history(ctx, FIXED_HISTORY)
    object_history(ctx, random_history_spec(ctx))
    for kind in ("positive", "complex"):
        for nv in (2, 3):
            if len(ctx.failures) == n0:
                huge_pure(ctx, kind, nv, with_model=False)
    if len(ctx.failures) > n0:
        return ctx.failures[n0]
    for rep in range(4):
        for nv in (1, 2, 3):
            for kind in ("positive", "complex", "mixed"):
                nh = int(ctx.rng.integers(1, nv + 2))
                na = int(ctx.rng.integers(1, nv + 2)) if kind == "mixed" else 0
                check_state(ctx, kind, nv, nh, na, base.draw(ctx, kind, nv, nh, na), with_model=False)
                if len(ctx.failures) > n0:
                    return ctx.failures[n0]
                if time.time() - t0 > budget:
                    return None
    return None


def replay(ctx, rec):
    case = rec.get("failing", {}).get("case", {})
    if "params" not in case:
        print("replay: no stored case; re-running the generated cases")
        return run(ctx)
    if case.get("history_spec"):
        print("replay of the object history", case["history_spec"])
        object_history(ctx, case["history_spec"], params_list=case.get("history_params"))
        for f in ctx.failures[:5]:
            print("  fails:", f["what"], f["detail"][:200])
        return
    print("replay of", case.get("state"), "nv", case.get("nv"), "region", case.get("region"), "encoding", case.get("encoding"))
    check_state(ctx, case["state"], case["nv"], case["nh"], case.get("na", 0), case["params"], only_region=case.get("region"), very_long=True)
    for f in ctx.failures[:5]:
        print("  fails:", f["what"], f["detail"][:200])
