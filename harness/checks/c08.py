"""C08 — Observable estimators are unbiased for the operator they name.

Correspondence: SigmaX/SigmaY/SigmaZ(absolute on/off).apply and NeighbourInteraction(pbc, c).apply of real
Positive/Complex/DensityMatrix objects on the full basis (and on a random batch with repeats), plus
importance_sampling_numerator/denominator/weight, vs the extracted Coq model (Observables.sigma_x, ... fed with
States.pos_psi / cplx_psi / dm_rho / dm_probability evaluated by the model from the same parameters).

Oracle (property relation on the implementation's own outputs, independent numpy reference):
  sum_s p(s)/Z * O.apply(state, basis)[s]  ==  Re tr(rho_normalised . Op)
with rho built from the implementation's psi(space) / rho(space, space), Op a dense matrix built by Kronecker
products of Pauli matrices (Z = diag(-1,+1) for bit 0/1, <0|Y|1> = -i), one real number per row, the sample
tensor bit-identical before/after apply, absolute=True equal to |.| of absolute=False pointwise.

Histories on the SAME objects (seed round 3): one set of observable instances, one sample tensor object and one state object are
used again and again; between two evaluations the harness applies one legal mutation (refill of the very same tensor in place in
every way torch offers, chains advanced with overwrite=True, every way of changing the parameters of the live state, other states
on the same tensor, the same observables on another chain length ...).  After each mutation the oracle is the one above with rho
rebuilt by numpy alone from the CURRENT parameters read from the live object, and the rows decoded from the CURRENT contents of
the tensor.

Encodings of the sample tensor (seed round 4): the same basis states handed over in every dtype x memory layout that the unchanged
library evaluates correctly (table at ENC_*), on fixed states that run first, on every state of the random stream and in histories
that alternate encodings on one pool of observables; the oracle is the same trace identity (tolerance widened by 4 rounding units
of the dtype apply returns).  Dtypes the unchanged library rejects or mis-evaluates are evaluated and only counted.

Configurations (seed round 5): EVERY architecture of the stated ranges (nv 1..5, nh and na 1..nv+1 and a few wider ones) once, in a fixed block
that runs first, with EVERY parameter tensor of EVERY network drawn at random - including the auxiliary bias of a DensityMatrix's PHASE network,
which the library initialises to zero and never trains but which is a parameter of the model (the reconstructed matrix does not depend on it) -
and the state built through every documented construction path (sizes, module= with the two networks then written in place with different
values, save + autoload, save + load); the oracle there is rho built by numpy alone from the formula (np_rho) on the parameters the live
object holds.  The random stream and the histories give the phase network a non-zero auxiliary bias in a fraction of the mixed states."""
import math, time, copy, os
import numpy as np
import gen

RULE = ("state types positive/complex/mixed, nv 1..5 in both tiers (quick: fewer draws), nh (and na) drawn in 1..nv+1, parameter draws from "
        "the mixture in harness/gen.py plus a large-bias regime (|b| up to 30, 25 % of the draws) written into live QuCumber objects; the basis is "
        "enumerated independently of the code under test; for every state: SigmaX/Y/Z with absolute off/on and "
        "NeighbourInteraction for c = 1..n and both boundary conditions, applied to all 2^n basis states (weighted exactly by "
        "probability/Z), to a random batch with repeats, to a single row, to non-contiguous (strided) double tensors and to a random batch "
        "of ~2500 rows, and (first nv = 2 or 3 state of every state type, every observable) to a batch of 20001..26000 rows of odd length; a case is (state type, sizes, parameter draw); "
        "non-trivial := all biases non-zero and (state is positive or its phase network is non-zero); "
        "HISTORIES on the same objects (a block of fixed ones that does not depend on the seed runs FIRST, then random ones from the seed after the main stream): "
        "one pool of observable instances (X, Y, Z with absolute off/on, ZZ for every c and both boundaries) shared by all histories, states of all three types, "
        "nv 1..4; scripts: 'buffer' (ONE sample tensor object - plain / view of a larger tensor / non-contiguous / returned by generate_hilbert_space or sample - "
        "evaluated, changed in place, evaluated again: copy_, slice / row assignment, .data.copy_, numpy view, write through the base tensor, in-place row "
        "permutation, row swap, flip of all spins, the library's flip_spin, zero_+add_, out= of a torch op, bernoulli_, chain advanced with "
        "sample(overwrite=True), Observable.sample / statistics with initial_state=buffer and overwrite=True, resize_, set_), 'params' (ONE state object whose "
        "parameters are changed between evaluations on the same tensor: reinitialize_parameters, rbm.initialize_parameters, re-bound nn.Parameter, replaced "
        "network, .data =, .data.copy_, copy_ under no_grad, numpy view, in-place arithmetic, single entries, vector_to_parameters, load_state_dict, "
        "state.load(file), optimizer step, short fit, deep copy changed separately), 'stream' (the basis streamed chunk by chunk through one re-used buffer, "
        "sum_s p(s) value(s) accumulated), 'objects' (several states / chain lengths alternating on the same tensor and the same observables; fresh tensors "
        "created and deleted in a loop; tensors returned by apply scribbled over by the caller); after every step: numpy rho from the current parameters, "
        "sum_s p(s)/Z apply(s) == Re tr(rho Op) whenever the tensor holds every basis state once, per-row values equal to those of a fresh full-basis "
        "evaluation of the same state, tensor unchanged by apply, earlier returned values not altered by later calls; "
        "ENCODINGS of the sample tensor (a block of 6 fixed states of all three types, nv 1..4, runs FIRST; then every state of the random stream; then "
        "'encodings' histories): legal := the (observable, state type, dtype) triples the unchanged library evaluates to the right per-sample values - "
        "ZZ: float64/32/16, bfloat16, uint8/16/32/64, int8/16/32/64, bool; Z: the four floating dtypes; X, Y on positive / complex states: the floating "
        "dtypes and int8/16/32/64; X, Y on mixed states: float64 - crossed with the layouts contiguous, column-major, every second row / column of a larger "
        "tensor, storage offsets, torch.from_numpy (C / Fortran / read-only), nn.Parameter, inference-mode tensor, zeros stored as -0.0, one row expanded "
        "with stride 0, requires_grad=True (Z, ZZ); fixed states: every observable x every legal dtype on the full basis + every layout x three dtypes + "
        "batches of 2051..4199 rows; random stream: per observable two drawn legal dtypes + one drawn (dtype, layout) on the full basis, one batch with "
        "repeats per family, > 20000 rows in float16 / uint8 / int8 for Z and ZZ(c=1) on the very-long states; required: no exception, tensor (contents, "
        "dtype, strides) unchanged, one real floating number per row, sum_s p(s)/Z apply(s) == Re tr(rho Op) within the double tolerance + 4 rounding units "
        "of the returned dtype, |.| for absolute=True, rows of a batch equal to the float64 per-sample values; every other dtype (and complex128) is "
        "evaluated on the fixed states and its outcome only counted ('informational'); "
        "CONSTRUCTION FORMS (red-team round 2; /repo 149bb9b): every observable is built through the documented call forms - keyword, positional in the "
        "documented order SigmaX(absolute) / NeighbourInteraction(periodic_bcs, c), mixed, keywords in the other order, defaults left out, np.bool_ flags, the "
        "distance c as np.uint8/16/32/64, np.int8/16/32/64 and 0-d arrays - all of them on the 6 fixed states (n = 1..4, every c, both boundaries: trace identity), "
        "one drawn form per observable and state in the random stream (it is then the instance every other relation of that state uses), a fixed rotation in the "
        "histories' shared pool; a constructor that raises is a failing input; "
        "NO WRITE to the caller's tensor: besides equal contents / dtype / shape / strides, torch's write counter (_version) of the sample tensor must not move "
        "during apply (every apply of the check), tensors that cannot be written (one row expanded with stride 0, inference-mode tensors) must be accepted, and a "
        "FAULT inside the state (a delegating stand-in whose k-th importance_sampling_numerator / _weight call raises, k = 1..n on the fixed states, drawn otherwise) "
        "must leave the tensor holding its values, the next ordinary apply of the same instance giving the per-sample values; "
        "ARCHITECTURES x EVERY PARAMETER TENSOR x CONSTRUCTION PATHS (seed round 5; a fixed block that does not depend on the seed and runs FIRST): every "
        "(state type, nv, nh[, na]) with nv 1..5, nh 1..nv+1, na 1..nv+1 - 20 positive, 20 complex, 90 mixed, so num_hidden + num_aux < num_visible, "
        "num_aux > num_hidden, num_hidden = 1 with num_visible = 5 ... all occur - plus nh = 2nv+1 and (nh, na) = (2nv+1, 1), (1, 2nv+2), (2nv+1, 2nv+1); every "
        "parameter tensor of both networks N(0, 0.8) with no entry near zero, the PHASE network's auxiliary bias of a mixed state included in two of every "
        "three mixed architectures (N(0, 1.2); the documented zero in the third); the state is built through the construction paths in rotation - sizes + "
        "gen.set_*; module=<RBM> followed by IN-PLACE writes of different values into the two networks; save + <Class>.autoload; save + load into a fresh state "
        "of the same sizes - and then every observable (X, Y, Z, absolute off/on, ZZ for every c and both boundaries) is applied ONCE to the full basis: "
        "sum_s p(s)/Z apply(s) == Re tr(rho Op) with rho, p built by numpy from the formula on the parameters read from the live object (a construction "
        "path that raises or stores other values is counted, not required), tensor unchanged, one real per row, |.|; "
        "the random stream gives 60 % of the mixed states a non-zero phase auxiliary bias (N(0,1), U[-pi, pi] or up to 30; own generator, the seed's stream "
        "is what it was) and ~15 % of the states a network wider than nv + 1 (nh / na up to 2nv + 2), the histories two of three (every write of 'all parameters' then includes it), one of the two fixed mixed encoding states has it")
ASSUMPTIONS = ["torch elementwise kernels implement the real functions up to rounding",
               "states with |effective energy| > 300 are skipped (double overflow in |psi|^2 products), counted as skipped_overflow",
               "histories: a mutation operator is the CALLER's action (torch in-place ops, fit, load, optimizer ...); when the operator itself raises, "
               "the step is skipped and counted ('history: mutation operator raised'), only apply / Observable.sample on the mutated objects are required to work",
               "OUT of scope of the histories: re-assigning the constructor attributes of a live observable (O.absolute, O.c, O.periodic_bcs - only the "
               "constructor arguments are documented), so an implementation that prepares per-instance constants in __init__ is accepted; GPU; the in-place "
               "mutation scripts of the histories use double buffers (other dtypes: the 'encodings' script)",
               "legal encodings of a sample tensor are those the unchanged library (HEAD 292381a, torch of /venv) evaluates to the right per-sample values "
               "(measured; table at ENC_* in the check); entries are exactly 0 / 1 (False / True).  NOT legal, evaluated on the fixed states and only counted: "
               "integer / bool samples for SigmaZ (mean() raises), bool and uint16/32/64 for SigmaX / SigmaY (raise), every dtype but float64 for SigmaX / SigmaY "
               "on a DensityMatrix (raise), requires_grad=True for SigmaX / SigmaY (raise), complex dtypes (Z / ZZ come back complex), and torch.uint8 for "
               "SigmaX / SigmaY on pure states, which the unchanged library ACCEPTS and evaluates WRONGLY (flip_spin's sub_(1).abs_() wraps 0 - 1 to 255): "
               "reported to the integrator, not required here",
               "values returned in a narrower floating dtype than double (float32 for integer samples, the sample dtype for float32/16/bfloat16 samples of Z / ZZ) "
               "are compared with 4 rounding units of that dtype added to the tolerance",
               "seed C08d (dtype-keeping to_pm1 + plain division: ZZ wrong on torch.uint8 samples) is IN the property: the statement fixes the per-sample value as a "
               "function of the basis state and the unchanged library evaluates uint8 samples correctly for ZZ",
               "OUT of scope (red-team round 2, C08_0, unchanged tree): states built from module= whose parameters have requires_grad=True make SigmaX / SigmaY raise "
               "(torch.mul(..., out=...) on autograd tensors) - no documented construction path yields trainable parameters (the RBM classes create them with "
               "requires_grad=False), so such states are not generated",
               "the sample tensor's write counter (torch's _version) is required not to move during apply: 'leaves the sample array unchanged' is read as 'does not "
               "write to it' (a write that is undone before returning is visible to a concurrent reader, fails on unwritable tensors and is left behind by an exception); "
               "the fault stand-in delegates every attribute to the real state and does not subclass or patch the library",
               "seed C08e (DensityMatrix.pi(expand=False) through rbm_ph.mixing_term, which adds the phase network's auxiliary bias) is IN the property: the quantifier "
               "says 'all parameters', rbm_ph.aux_bias is a registered parameter of the model (state dict, files, load), and the unchanged library satisfies the "
               "statement for every value of it because the reconstructed matrix exp(Gamma+ + i Gamma- + Pi) does not contain it; the oracle's rho is that formula",
               "construction paths (module=, autoload, load) are only a way of obtaining a state here: whether the path stores the values it was given is C11 / C20's "
               "clause (a path that raises or stores other values is counted); C08's oracle is evaluated on the parameters the live object holds afterwards",
               "1-D sample tensors and empty batches are outside 'one real number per sample' of a sample ARRAY (SigmaZ's mean(1) rejects 1-D input on the unchanged tree): not generated"]

I2 = np.eye(2, dtype=complex)
PX = np.array([[0, 1], [1, 0]], dtype=complex)
PY = np.array([[0, -1j], [1j, 0]], dtype=complex)
PZ = np.array([[-1, 0], [0, 1]], dtype=complex)     # bit 0 -> -1, bit 1 -> +1 (to_pm1)


def site(M, i, n):
    out = np.array([[1.0 + 0j]])
    for j in range(n):
        out = np.kron(out, M if j == i else I2)
    return out


def mean_site(M, n):
    return sum(site(M, i, n) for i in range(n)) / n


def zz_op(n, c, pbc):
    d = 2 ** n
    acc = np.zeros((d, d), dtype=complex)
    if pbc:
        for i in range(n):
            acc += site(PZ, i, n) @ site(PZ, (i + c) % n, n)
    else:
        for i in range(n - c):
            acc += site(PZ, i, n) @ site(PZ, i + c, n)
    return acc / n


# --------------------------------------------------------------------------- ways of constructing an observable
# Red-team round 2 (C08_2): the constructors were only ever called with keywords; /repo 149bb9b: a distance given as an unsigned numpy
# integer used to wrap when negated.  Every documented call form of the constructors: keywords, positional in the documented order
# (absolute) / (periodic_bcs, c), defaults left out, numpy scalars / 0-d arrays where a bool / an int is documented.
NP_INT_FORMS = [("np.uint8", np.uint8), ("np.uint16", np.uint16), ("np.uint32", np.uint32), ("np.uint64", np.uint64), ("np.int8", np.int8),
                ("np.int16", np.int16), ("np.int32", np.int32), ("np.int64", np.int64), ("0-d int64 array", lambda c: np.array(c)),
                ("0-d uint8 array", lambda c: np.array(c, dtype=np.uint8))]


def sigma_forms(cls, absolute):
    """[(description, constructor)] - all of them must give the same observable"""
    a = bool(absolute)
    out = [("keyword: %s(absolute=%s)" % (cls.__name__, a), lambda: cls(absolute=a)),
           ("positional: %s(%s)" % (cls.__name__, a), lambda: cls(a)),
           ("numpy bool: %s(absolute=np.bool_(%s))" % (cls.__name__, a), lambda: cls(absolute=np.bool_(a)))]
    if not a:
        out.append(("default: %s()" % cls.__name__, lambda: cls()))
    return out


def zz_forms(pbc, c):
    from qucumber.observables import NeighbourInteraction as NI
    pbc, c = bool(pbc), int(c)
    out = [("keyword: NeighbourInteraction(periodic_bcs=%s, c=%d)" % (pbc, c), lambda: NI(periodic_bcs=pbc, c=c)),
           ("positional: NeighbourInteraction(%s, %d)" % (pbc, c), lambda: NI(pbc, c)),
           ("positional boundary, keyword distance: NeighbourInteraction(%s, c=%d)" % (pbc, c), lambda: NI(pbc, c=c)),
           ("keywords in the other order: NeighbourInteraction(c=%d, periodic_bcs=%s)" % (c, pbc), lambda: NI(c=c, periodic_bcs=pbc)),
           ("numpy bool boundary: NeighbourInteraction(np.bool_(%s), %d)" % (pbc, c), lambda: NI(np.bool_(pbc), c))]
    if not pbc:
        out.append(("distance only: NeighbourInteraction(c=%d)" % c, lambda: NI(c=c)))
    if c == 1:
        out.append(("boundary only: NeighbourInteraction(%s)" % pbc, lambda: NI(pbc)))
        if not pbc:
            out.append(("defaults: NeighbourInteraction()", lambda: NI()))
    for j, (tn, conv) in enumerate(NP_INT_FORMS):
        if j % 2 == 0:
            out.append(("numpy distance [%s]: NeighbourInteraction(%s, %s(%d))" % (tn, pbc, tn, c), lambda conv=conv: NI(pbc, conv(c))))
        else:
            out.append(("numpy distance [%s]: NeighbourInteraction(periodic_bcs=%s, c=%s(%d))" % (tn, pbc, tn, c), lambda conv=conv: NI(periodic_bcs=pbc, c=conv(c))))
    return out


def version_of(t):
    """torch's write counter of a tensor (None where torch keeps none: inference tensors)"""
    try:
        return int(t._version)
    except Exception:
        return None


class InjectedFault(Exception):
    pass


class FaultyState:
    """Stands for a state in ONE apply call (red-team round 2, C08_3): every attribute is the real state's, but the k-th call of
    importance_sampling_numerator / importance_sampling_weight raises.  Whatever apply does then, the CALLER's sample tensor must still hold
    its values ("leaves the sample array unchanged" has no exception clause)."""

    def __init__(self, state, k):
        self.__dict__["_state"], self.__dict__["_k"], self.__dict__["_calls"] = state, int(k), 0

    def __getattr__(self, name):
        return getattr(self.__dict__["_state"], name)

    def _tick(self):
        self.__dict__["_calls"] += 1
        if self.__dict__["_calls"] == self.__dict__["_k"]:
            raise InjectedFault("fault injected by the harness into call %d of the state's importance-sampling functions" % self.__dict__["_k"])

    def importance_sampling_numerator(self, *a, **kw):
        self._tick()
        return self.__dict__["_state"].importance_sampling_numerator(*a, **kw)

    def importance_sampling_weight(self, *a, **kw):
        self._tick()
        return self.__dict__["_state"].importance_sampling_weight(*a, **kw)


# --------------------------------------------------------------------------- building states
def build(kind, nv, nh, na, params):
    """Real QuCumber object with the given parameters (lists)."""
    from qucumber.nn_states import PositiveWaveFunction, ComplexWaveFunction, DensityMatrix
    A = [np.asarray(x, dtype=float) for x in params["am"]]
    if kind == "positive":
        s = PositiveWaveFunction(nv, nh, gpu=False)
        gen.set_brbm(s.rbm_am, *A)
        return s
    P = [np.asarray(x, dtype=float) for x in params["ph"]]
    if kind == "complex":
        s = ComplexWaveFunction(nv, nh, gpu=False)
        gen.set_brbm(s.rbm_am, *A)
        gen.set_brbm(s.rbm_ph, *P)
        return s
    s = DensityMatrix(nv, nh, na, gpu=False)
    gen.set_prbm(s.rbm_am, *A)
    gen.set_prbm(s.rbm_ph, *P)
    return s


def large_biases(ctx, arrs, bias_from, keep_zero_last=False):
    """Large-bias regime (the quantifier's "magnitudes up to ~30"): every bias entry log-uniform in [1e-3, 30] with a
    random sign, one of them pushed to 20..30; gen.nonzero_bias alone only draws N(0,1) / U[-3,3]."""
    rng = ctx.rng
    out = [np.array(a, dtype=float) for a in arrs]
    last = len(out) - 1 if keep_zero_last else len(out)
    for k in range(bias_from, last):
        b = out[k]
        b[...] = np.exp(rng.uniform(np.log(1e-3), np.log(30.0), size=b.shape)) * rng.choice([-1.0, 1.0], size=b.shape)
    k = int(rng.integers(bias_from, last))
    j = int(rng.integers(0, out[k].size))
    out[k].flat[j] = rng.uniform(20.0, 30.0) * rng.choice([-1.0, 1.0])
    ctx.count("param_regime:large_bias")
    return out


def draw(ctx, kind, nv, nh, na):
    big = ctx.rng.random() < 0.25
    if kind == "mixed":
        am = gen.prbm_params(ctx, nv, nh, na)
        ph = gen.prbm_params(ctx, nv, nh, na, phase=True)
        if big:
            am = large_biases(ctx, am, 2)
            ph = large_biases(ctx, ph, 2, keep_zero_last=True)      # documented: aux bias of the phase net stays 0
        return {"am": gen.plist(*am), "ph": gen.plist(*ph)}
    am = gen.brbm_params(ctx, nv, nh)
    if big:
        am = large_biases(ctx, am, 1)
    if kind == "positive":
        return {"am": gen.plist(*am)}
    ph = gen.brbm_params(ctx, nv, nh)
    if big:
        ph = large_biases(ctx, ph, 1)
    return {"am": gen.plist(*am), "ph": gen.plist(*ph)}


def aux_rng(ctx):
    """generator of the phase network's auxiliary bias (seed round 5): derived from the seed, separate from ctx.rng, so that draw() - which
    c09.py imports - consumes the seed's stream exactly as before"""
    if not hasattr(ctx, "_c08_aux_rng"):
        ctx._c08_aux_rng = np.random.Generator(np.random.PCG64([int(ctx.seed) & 0xFFFFFFFF, 0xC08E]))
    return ctx._c08_aux_rng


def draw_all(ctx, kind, nv, nh, na):
    """draw() + in 60 % of the mixed states a NON-ZERO auxiliary bias of the phase network (seed C08e): the library initialises that tensor to
    zero and never trains it, but it is a parameter of the model (state dict, files) and the reconstructed matrix does not depend on it."""
    params = draw(ctx, kind, nv, nh, na)
    if kind != "mixed":
        return params
    g = aux_rng(ctx)
    r = g.random()
    if r < 0.4:
        ctx.count("phase aux bias: zero (as the library initialises it)")
        return params
    if r < 0.7:
        d = g.normal(size=na)
    elif r < 0.9:
        d = g.uniform(-np.pi, np.pi, size=na)
    else:
        d = np.exp(g.uniform(np.log(1e-3), np.log(30.0), size=na)) * g.choice([-1.0, 1.0], size=na)
    d[np.abs(d) < 1e-3] = 0.37
    params["ph"][4] = d.tolist()
    ctx.count("phase aux bias: non-zero")
    return params


def widen(ctx, kind, nv, nh, na):
    """in ~15 % of the random states a network WIDER than nv + 1 (nh, na up to 2nv + 2; the quantifier does not bound them); own generator"""
    g = aux_rng(ctx)
    if g.random() < 0.15:
        nh = int(g.integers(nv + 2, 2 * nv + 3))
        ctx.count("architecture: num_hidden > nv + 1")
    if kind == "mixed" and g.random() < 0.15:
        na = int(g.integers(nv + 2, 2 * nv + 3))
        ctx.count("architecture: num_aux > nv + 1")
    return nh, na


def model_state_args(kind, params):
    tag = {"positive": 0, "complex": 1, "mixed": 2}[kind]
    args = [tag] + list(params["am"])
    if kind != "positive":
        args += list(params["ph"])
    return args


def energies_ok(kind, params, sp):
    A = [np.asarray(x, dtype=float) for x in params["am"]]
    if kind == "mixed":
        E = gen.np_eff_energy_p(*A, sp)
    else:
        E = gen.np_eff_energy(*A, sp)
    if np.max(np.abs(E)) > 300:
        return False
    if kind != "positive":
        P = [np.asarray(x, dtype=float) for x in params["ph"]]
        if max(float(np.max(np.abs(x))) if x.size else 0.0 for x in P) > 1e3:
            return False
    return True


def nontrivial(kind, params):
    def nz(x):
        x = np.asarray(x, dtype=float)
        return bool(np.all(x != 0))
    A = params["am"]
    biases = A[1:] if kind != "mixed" else A[2:]
    ok = all(nz(b) for b in biases)
    if kind != "positive":
        P = params["ph"]
        ok = ok and bool(np.any(np.asarray(P[0], dtype=float) != 0))
    return ok


# --------------------------------------------------------------------------- one case
def independent_space(ctx, s, n):
    """The full basis, enumerated here (itertools.product, site 0 most significant) and NOT by the code under test."""
    import torch
    sp = gen.all_states(n)
    try:
        own = s.generate_hilbert_space().numpy()
        if own.shape != sp.shape or not np.array_equal(own, sp):
            ctx.count("generate_hilbert_space differs from the independent enumeration (C19's clause; not required here)")
    except Exception:
        ctx.count("generate_hilbert_space raised (C19's clause; not required here)")
    return torch.tensor(sp, dtype=torch.double), sp


def state_matrices(ctx, s, kind, space, case):
    """rho (dense complex, unnormalised), p (weights used for sampling) from the implementation."""
    from qucumber.utils import cplx
    if kind == "mixed":
        ok, r = ctx.call("rho(space, space)", case, lambda: s.rho(space, space))
        if not ok:
            return None
        rho = r[0].numpy() + 1j * r[1].numpy()
    else:
        ok, r = ctx.call("psi(space)", case, lambda: s.psi(space))
        if not ok:
            return None
        psi = r[0].numpy() + 1j * r[1].numpy()
        rho = np.outer(psi, np.conj(psi))
    ok, p = ctx.call("probability(space)", case, lambda: s.probability(space))
    if not ok:
        return None
    return rho, p.numpy().astype(float)


def very_long_done(ctx):
    if not hasattr(ctx, "_very_long_done"):
        ctx._very_long_done = set()
    return ctx._very_long_done


def check_state(ctx, kind, nv, nh, na, params, with_model=True, very_long=False, encodings="draw"):
    import torch
    from qucumber.observables import SigmaX, SigmaY, SigmaZ, NeighbourInteraction
    case = {"state": kind, "nv": nv, "nh": nh, "na": na, "params": params}
    s = build(kind, nv, nh, na, params)
    space, sp = independent_space(ctx, s, nv)
    if not energies_ok(kind, params, sp):
        ctx.count("skipped_overflow")
        return
    ctx.case({"state": kind, "nv": nv, "nh": nh, "na": na, "am0": params["am"][0][0][0], "b0": params["am"][-2][0]},
             nontrivial=nontrivial(kind, params))
    ctx.count("state:" + kind); ctx.count("nv:%d" % nv)
    if very_long:
        very_long_done(ctx).add(kind)
    sm = state_matrices(ctx, s, kind, space, case)
    if sm is None:
        return
    rho, p = sm
    Z = float(p.sum())
    tr = float(np.trace(rho).real)
    if not math.isclose(Z, tr, rel_tol=1e-8):      # C02's clause (diagonal of rho is the probability), not demanded by C08
        ctx.count("sum of probabilities != trace of the reconstructed matrix (C02's clause; not required here)")
    rho_n = rho / np.trace(rho)
    w = p / Z
    n = nv
    N = len(sp)

    # per-row magnitude of the importance ratios: used only to normalise comparisons
    diag = np.abs(np.diag(rho))
    rowscale = np.ones(N)
    for r in range(N):
        for i in range(n):
            f = sp[r].copy(); f[i] = 1 - f[i]
            j = int("".join(str(int(b)) for b in f), 2)
            rowscale[r] = max(rowscale[r], abs(rho[j, r]) / diag[r])

    m = ctx.get_model() if with_model else None
    margs = model_state_args(kind, params)
    mp = m.call("obs_pauli", *margs, sp) if m else None

    formname = {}

    def pick(name, forms):
        """one documented way of constructing the observable, drawn per state from the encoding generator (every form: fixed states)"""
        f, ctor = forms[int(enc_rng(ctx).integers(0, len(forms)))]
        formname[name] = f
        ctx.count("constructed: " + f.split(":")[0])
        return ctor

    def run_apply(O, what, samples):
        before = samples.clone()
        c2 = dict(case, observable=what)
        if what.split(" on a ")[0] in formname:
            c2["constructed"] = formname[what.split(" on a ")[0]]
        v0 = version_of(samples)
        ok, out = ctx.call(what + ".apply", c2, lambda: O.apply(s, samples))
        if not ok:
            return None
        ctx.require(what + ": sample tensor unchanged by apply", bool(torch.equal(samples, before)), c2)
        ctx.require(what + ": sample tensor unchanged by apply", version_of(samples) == v0, c2,
                    "contents equal, but the tensor's write counter moved from %r to %r: apply wrote into the caller's tensor (and restored it)" % (v0, version_of(samples)))
        good = (isinstance(out, torch.Tensor) and tuple(out.shape) == (samples.shape[0],) and out.dtype in (torch.float64, torch.float32)
                and not torch.is_complex(out))
        ctx.require(what + ": one real number per sample row", bool(good), c2, {"shape": list(getattr(out, "shape", []))})
        if not good:
            return None
        return out.detach().numpy().astype(float)

    def oracle(what, out, Op):
        want = float(np.trace(rho_n @ Op).real)
        got = float(np.dot(w, out))
        ctx.require(what + ": sum_s p(s)/Z * apply(s) == Re tr(rho Op)", abs(got - want) <= 1e-8 + 1e-7 * abs(want),
                    dict(case, observable=what, constructed=formname.get(what)), {"estimator_mean": got, "trace": want})

    def variants(O, name, out, sc, with_long):
        """The same observable on other sample tensors: a single row, non-contiguous (strided) views, and a batch of
        ~2500 rows (longer than any plausible internal chunk, not a round number).  Only what the property states is
        required: one real per row, tensor unchanged, each row's value is the per-sample value of that basis state."""
        take = lambda r: space[torch.tensor(r, dtype=torch.long)].clone()
        rng = ctx.rng
        B = int(rng.integers(3, 8))
        vs = [("single-row batch", rng.integers(0, N, size=1), take),
              ("non-contiguous batch (column-major storage)", rng.integers(0, N, size=B), lambda r: take(r).t().contiguous().t()),
              ("non-contiguous batch (every second row of a larger tensor)", rng.integers(0, N, size=B),
               lambda r: torch.stack([take(r), 1 - take(r)], 1).reshape(2 * len(r), n)[::2])]
        if with_long:
            vs.append(("long random batch", rng.integers(0, N, size=int(rng.integers(2300, 2700)) | 1), take))
        if very_long:
            # > 20000 rows, odd length, cycling through the basis from a random offset
            Bv = 20001 + 2 * int(rng.integers(0, 3000))
            vs.append(("very long batch", (int(rng.integers(0, N)) + np.arange(Bv)) % N, take))
        for vname, ridx, mk in vs:
            ctx.count("batch:" + vname.split(" (")[0])
            ov = run_apply(O, "%s on a %s" % (name, vname), mk(ridx))
            if ov is None:
                continue
            rows = ridx.tolist() if len(ridx) <= 8 else "%d rows" % len(ridx)
            ctx.require(name + ": value of a row does not depend on the rest of the batch",
                        bool(np.allclose(ov / sc[ridx], out[ridx] / sc[ridx], rtol=1e-9, atol=1e-12)),
                        dict(case, observable=name, batch=vname, rows=rows))

    paulis = [("SigmaX", SigmaX, PX, 0), ("SigmaY", SigmaY, PY, 1), ("SigmaZ", SigmaZ, PZ, 2)]
    refs = []        # (name, family, constructor, dense operator or None, double-encoded reference values, row scale, twin) for the encoding pass
    batch_idx = ctx.rng.integers(0, N, size=5)
    batch = space[torch.tensor(batch_idx, dtype=torch.long)].clone()
    for name, cls, M, k in paulis:
        mkF, mkT = pick(name, sigma_forms(cls, False)), pick(name + "(absolute)", sigma_forms(cls, True))
        ok1, _ = ctx.call(name + ": constructor", dict(case, observable=name, constructed=formname[name]), mkF)
        ok2, _ = ctx.call(name + ": constructor", dict(case, observable=name + "(absolute)", constructed=formname[name + "(absolute)"]), mkT)
        if not (ok1 and ok2):
            continue
        out = run_apply(mkF(), name, space.clone())
        if out is None:
            continue
        oracle(name, out, mean_site(M, n))
        out_abs = run_apply(mkT(), name + "(absolute)", space.clone())
        if out_abs is not None:
            ctx.require(name + ": absolute=True is the pointwise absolute value", bool(np.allclose(out_abs, np.abs(out), rtol=1e-12, atol=0)),
                        dict(case, observable=name + "(absolute)", constructed=formname.get(name + "(absolute)")))
        sc = rowscale if k < 2 else np.ones(N)
        refs.append((name, name[-1], mkF, mean_site(M, n), out, sc, None, sigma_forms(cls, False)))
        if out_abs is not None:
            refs.append((name + "(absolute)", name[-1], mkT, None, out_abs, sc, name, sigma_forms(cls, True)))
        if mp is not None:
            ctx.agree(name + " per-sample value", out / sc, np.array(mp[k]) / sc, dict(case, observable=name), scale=1.0)
            if out_abs is not None:
                ctx.agree(name + "(absolute) per-sample value", out_abs / sc, np.array(mp[3 + k]) / sc, dict(case, observable=name + "(absolute)"), scale=1.0)
        ob = run_apply(mkF(), name + " on a batch", batch.clone())
        if ob is not None:
            ctx.require(name + ": value of a row does not depend on the rest of the batch",
                        bool(np.allclose(ob / sc[batch_idx], out[batch_idx] / sc[batch_idx], rtol=1e-9, atol=1e-12)), dict(case, observable=name, batch=batch_idx.tolist()))
        variants(mkF(), name, out, sc, with_long=True)
        if out_abs is not None:
            variants(mkT(), name + "(absolute)", out_abs, sc, with_long=False)
    for pbc in (False, True):
        c_long = int(ctx.rng.integers(1, n + 1))
        for c in range(1, n + 1):
            name = "NeighbourInteraction(pbc=%s,c=%d)" % (pbc, c)
            mkZ = pick(name, zz_forms(pbc, c))
            ok, O = ctx.call(name + ": constructor", dict(case, observable=name, constructed=formname[name]), mkZ)
            if not ok:
                continue
            out = run_apply(O, name, space.clone())
            if out is None:
                continue
            oracle(name, out, zz_op(n, c, pbc))
            refs.append((name, "ZZ", mkZ, zz_op(n, c, pbc), out, np.ones(N), None, zz_forms(pbc, c)))
            if m:
                ctx.agree(name + " per-sample value", out, m.call("obs_neighbour", 1 if pbc else 0, c, sp), dict(case, observable=name), scale=1.0)
            variants(mkZ(), name, out, np.ones(N), with_long=(c == c_long))
            ctx.count("neighbour")

    # importance-sampling numerator / denominator / weight against the model and against the matrix
    perm = ctx.rng.permutation(N)
    vps = space[torch.tensor(perm, dtype=torch.long)].clone()
    ok, r = ctx.call("importance sampling", case, lambda: (s.importance_sampling_numerator(vps, space),
                                                          s.importance_sampling_denominator(space),
                                                          s.importance_sampling_weight(vps, space)))
    if ok:
        num, den, wt = [x.detach().numpy() for x in r]
        wt_c = wt[0] + 1j * wt[1]
        want = np.array([rho[perm[r_], r_] / rho[r_, r_] for r_ in range(N)])
        ctx.require("importance weight(s', s) == rho(s', s)/rho(s, s)", bool(np.allclose(wt_c, want, rtol=1e-7, atol=1e-9 * max(1.0, np.abs(want).max()))),
                    dict(case, observable="importance_sampling_weight"), {"got": str(wt_c[:4]), "want": str(want[:4])})
        if m:
            mw = m.call("obs_weight", *margs, vps.numpy(), sp)
            s_num = max(1e-300, float(np.abs(num).max())); s_den = max(1e-300, float(np.abs(den).max()))
            ctx.agree("importance numerator", (num / s_num).T, [[x[0][0] / s_num, x[0][1] / s_num] for x in mw], case, scale=1.0)
            ctx.agree("importance denominator", (den / s_den).T, [[x[1][0] / s_den, x[1][1] / s_den] for x in mw], case, scale=1.0)
            ws = np.maximum(1.0, np.abs(want))
            ctx.agree("importance weight", (wt / ws).T, [[x[2][0] / ws[i], x[2][1] / ws[i]] for i, x in enumerate(mw)], case, scale=1.0)
    if encodings:
        check_encodings(ctx, s, kind, n, sp, rho_n, w, refs, case, encodings, very_long=very_long)
    ctx.traces += 1


# =========================================================================== ENCODINGS of the sample tensor
# Seed round 4 (C08d): to_pm1 rewritten with operator arithmetic that keeps the dtype of the sample tensor + a plain division in
# NeighbourInteraction.apply: on torch.uint8 samples bit 0 became 255 instead of -1 and the ZZ estimator was wrong, every other
# encoding stayed exact.  The class: the value depends on HOW the caller stores the 0/1 bits (dtype, strides, storage offset,
# numpy-backed / read-only memory, Parameter, inference-mode tensor, negative zeros, requires_grad) although each entry is exactly 0 or 1.
#
# LEGAL encodings := those the UNCHANGED library (HEAD 292381a, torch of /venv) evaluates to the right per-sample values, measured
# for every observable x state type x dtype (tools: the probe is reproduced by the 'informational' counters of the fixed block):
#   ZZ (NeighbourInteraction) : every real dtype - float64/32/16, bfloat16, uint8/16/32/64, int8/16/32/64, bool  (all state types)
#   Z                         : float64/32/16, bfloat16                      (integer and bool samples: mean() raises)
#   X, Y, positive / complex  : float64/32/16, bfloat16, int8/16/32/64       (bool raises; uint8 is accepted but WRONG: flip_spin's
#                               sub_(1).abs_() wraps 0 - 1 to 255 - recorded as informational, reported to the integrator)
#   X, Y, mixed               : float64 only                                 (every other dtype: "mat1 and mat2 must have the same dtype")
# Everything else (and complex dtypes, whose Z / ZZ values come back complex) is evaluated once per fixed state and only COUNTED.
ENC_FLOATS = ("float64", "float32", "float16", "bfloat16")
ENC_SINTS = ("int8", "int16", "int32", "int64")
ENC_UINTS = ("uint8", "uint16", "uint32", "uint64")
ENC_ALL = ENC_FLOATS + ENC_UINTS[:1] + ENC_SINTS + ("bool",) + ENC_UINTS[1:]
ENC_INFO_ONLY = ("complex128",)


def enc_legal(family, kind):
    """dtype names that are legal encodings for the observable family ('X', 'Y', 'Z', 'ZZ') on a state of this type"""
    import torch
    if family == "ZZ":
        names = ENC_ALL
    elif family == "Z":
        names = ENC_FLOATS
    else:
        names = ("float64",) if kind == "mixed" else ENC_FLOATS + ENC_SINTS
    return [d for d in names if hasattr(torch, d)]


def enc_rng(ctx):
    """generator of the encoding passes: derived from the seed, separate from ctx.rng (whose stream stays what it was)"""
    if not hasattr(ctx, "_c08_enc_rng"):
        ctx._c08_enc_rng = np.random.Generator(np.random.PCG64([int(ctx.seed) & 0xFFFFFFFF, 0xC08D]))
    return ctx._c08_enc_rng


def out_eps(dt):
    """rounding unit of the dtype apply returned (0 for double: the double tolerances of the main pass apply unchanged)"""
    import torch
    return 0.0 if dt == torch.float64 else float(torch.finfo(dt).eps)


def enc_layouts():
    """{name: (fn(x64, dtype) -> tensor of that dtype holding the rows of x64, dtype filter, family filter)}.  Containers are built
    in double and converted as a whole, so that no arithmetic is ever done by the harness in an exotic dtype; the tensor handed to
    apply is then a VIEW of the converted container (or a wrapper of it)."""
    import torch
    import warnings
    anyd = lambda d: True
    anyf = lambda f: True
    junk = lambda x: 1.0 - x

    def via_numpy(order=None, readonly=False):
        def mk(x, dt):
            a = x.to(dt).numpy().copy()
            if order == "F":
                a = np.asfortranarray(a)
            if readonly:
                a.setflags(write=False)
            with warnings.catch_warnings():
                warnings.simplefilter("ignore")
                return torch.from_numpy(a)
        return mk

    def negzero(x, dt):
        t = x.to(dt)
        t[t == 0] = -0.0
        return t

    def inference(x, dt):
        with torch.inference_mode():
            return x.to(dt).clone()

    n_of = lambda x: x.shape[1]
    return {
        "contiguous": (lambda x, dt: x.to(dt), anyd, anyf),
        "column-major storage": (lambda x, dt: x.t().contiguous().to(dt).t(), anyd, anyf),
        "every second row of a larger tensor": (lambda x, dt: torch.stack([x, junk(x)], 1).reshape(2 * len(x), n_of(x)).to(dt)[::2], anyd, anyf),
        "every second column of a wider tensor": (lambda x, dt: torch.stack([x, junk(x)], 2).reshape(len(x), 2 * n_of(x)).to(dt)[:, ::2], anyd, anyf),
        "right half of a wider tensor (storage offset)": (lambda x, dt: torch.cat([junk(x), x], 1).to(dt)[:, n_of(x):], anyd, anyf),
        "rows 2.. of a longer tensor (storage offset)": (lambda x, dt: torch.cat([junk(x[:2]), x], 0).to(dt)[2:], anyd, anyf),
        "torch.from_numpy (C order)": (via_numpy(), lambda d: d != "bfloat16", anyf),
        "torch.from_numpy (Fortran order)": (via_numpy("F"), lambda d: d != "bfloat16", anyf),
        "torch.from_numpy of a read-only array": (via_numpy(readonly=True), lambda d: d != "bfloat16", anyf),
        "nn.Parameter(requires_grad=False)": (lambda x, dt: torch.nn.Parameter(x.to(dt), requires_grad=False), anyd, anyf),
        "created under inference_mode": (inference, anyd, anyf),
        "zeros stored as -0.0": (negzero, lambda d: d in ENC_FLOATS, anyf),
        # X / Y on a tensor that requires grad raise on the unchanged tree (in-place op with out= on a graph tensor): Z and ZZ only
        "requires_grad=True": (lambda x, dt: x.to(dt).requires_grad_(True), lambda d: d in ENC_FLOATS, lambda f: f in ("Z", "ZZ")),
    }


def as_f64(t):
    return np.array(t.detach().to("cpu").to(__import__("torch").float64).numpy(), dtype=float, copy=True)


def enc_apply(ctx, s, O, name, x, case):
    """O.apply(s, x) on an encoded tensor: no exception, x unchanged (contents, dtype, shape, strides), one real number per row.
    Returns (values as float64 array, rounding unit of the returned dtype) or None."""
    import torch
    before = as_f64(x)
    meta = (x.dtype, tuple(x.shape), tuple(x.stride()))
    v0 = version_of(x)
    ok, out = ctx.call(name + ".apply", case, lambda: O.apply(s, x))
    if not ok:
        return None
    same = bool(np.array_equal(as_f64(x), before)) and meta == (x.dtype, tuple(x.shape), tuple(x.stride()))
    ctx.require(name + ": sample tensor unchanged by apply", same, case)
    ctx.require(name + ": sample tensor unchanged by apply", version_of(x) == v0, case,
                "contents equal, but the tensor's write counter moved from %r to %r: apply wrote into the caller's tensor (and restored it)" % (v0, version_of(x)))
    good = (isinstance(out, torch.Tensor) and tuple(out.shape) == (x.shape[0],) and out.is_floating_point() and not torch.is_complex(out))
    ctx.require(name + ": one real number per sample row", bool(good), case,
                {"shape": list(getattr(out, "shape", [])), "dtype": str(getattr(out, "dtype", type(out)))})
    if not good:
        return None
    return as_f64(out), out_eps(out.dtype)


def enc_informational(ctx, s, kind, n, sp, refs):
    """Encodings OUTSIDE the legal table: evaluated once, the outcomes counted in the evidence histogram (one key per observable family
    and state type), nothing required."""
    import torch
    import warnings
    x64 = torch.tensor(sp, dtype=torch.double)
    for name, fam, ctor, Op, ref, sc, twin, forms in refs:
        if twin is not None or (fam == "ZZ" and not name.endswith("pbc=False,c=1)")):
            continue
        legal = enc_legal(fam, kind)
        res = {}
        trials = [(dn, lambda dn=dn: x64.to(getattr(torch, dn))) for dn in list(ENC_ALL) + list(ENC_INFO_ONLY) if dn not in legal and hasattr(torch, dn)]
        if fam in ("X", "Y"):
            trials.append(("float64+requires_grad", lambda: x64.clone().requires_grad_(True)))
        for dn, mk in trials:
            try:
                with warnings.catch_warnings():
                    warnings.simplefilter("ignore")
                    out = ctor().apply(s, mk())
                if not (isinstance(out, torch.Tensor) and out.is_floating_point() and tuple(out.shape) == (len(sp),)):
                    r = "not one real number per row"
                else:
                    v = as_f64(out)
                    r = "right values" if np.all(np.abs(v - ref) <= (1e-9 + 4 * out_eps(out.dtype)) * sc) else "WRONG VALUES RETURNED SILENTLY"
            except Exception as e:
                r = "raises"
            res.setdefault(r, []).append(dn)
        if res:
            ctx.count("informational (encodings outside the legal table, nothing required): %s, %s state: %s"
                      % (fam if fam == "ZZ" else "Sigma" + fam, kind, "; ".join("%s: %s" % (r, " ".join(d)) for r, d in sorted(res.items()))))


def fault_pass(ctx, s, ref_entry, n, sp, kf, case, rng):
    """A fault inside the state during apply, then an ordinary evaluation on the SAME tensor (red-team round 2, C08_3: flip the caller's
    tensor in place, evaluate, flip back - a fault in between left the caller's tensor modified).  Required: after the aborted call the tensor
    holds what it held (the exception itself is the harness's; if apply swallows it or never calls the function, nothing more is asked);
    the ordinary evaluation that follows gives the per-sample values."""
    import torch
    name, fam, ctor, Op, ref, sc, twin, forms = ref_entry
    N = len(sp)
    ridx = rng.permutation(N)[:max(1, min(N, int(rng.integers(1, 7))))]
    x = torch.tensor(sp[ridx], dtype=torch.double)
    c2 = dict(case, observable=name, rows=ridx.tolist(), fault="the state's importance_sampling_numerator / _weight raises at its call number %d during apply" % kf)
    ok, O = ctx.call(name + ": constructor", c2, ctor)
    if not ok:
        return
    before = as_f64(x)
    ctx.count("fault injected into the state during apply")
    try:
        O.apply(FaultyState(s, kf), x)
        ctx.count("fault injected into the state during apply: apply returned normally")
    except InjectedFault:
        pass
    except Exception:
        ctx.count("fault injected into the state during apply: another exception came out (accepted)")
    ctx.require(name + ": sample tensor unchanged by apply", bool(np.array_equal(as_f64(x), before)), c2,
                {"rows_before": before.tolist()[:6], "rows_after_the_aborted_apply": as_f64(x).tolist()[:6]})
    x2 = torch.tensor(sp[ridx], dtype=torch.double)
    r = enc_apply(ctx, s, O, name, x2, dict(c2, after="an apply of the same observable instance was aborted by the fault; this is the next, ordinary call"))
    if r is not None:
        vals, eps = r
        want = ref[ridx]
        ctx.require(name.replace("(absolute)", "") + ": value of a row does not depend on the rest of the batch",
                    bool(np.all(np.abs(vals - want) <= 1e-9 * np.abs(want) + (1e-12 + 4 * eps) * sc[ridx])),
                    dict(c2, batch="ordinary call after an apply aborted by a fault inside the state"))


def check_encodings(ctx, s, kind, n, sp, rho_n, w, refs, case, mode, very_long=False):
    """The observables of one state on OTHER ENCODINGS of the same basis states.
    refs: what check_state measured on the plain double tensor (already verified against the trace).
    mode 'all'  : every observable x every legal dtype (contiguous, full basis), every observable x every layout x (float64 + two
                  rotating legal dtypes), batches with repeats (long, odd length; one row expanded with stride 0), informational counts;
    mode 'draw' : every observable x two drawn legal non-double dtypes and one drawn dtype on a drawn layout (full basis), one batch
                  with repeats per observable family.
    Required (only what C08 states): apply does not raise, leaves the tensor alone, returns one real number per row; on the full basis
    sum_s p(s)/Z apply(s) == Re tr(rho Op) (absolute=True: |.| of the absolute=False values in the same encoding); on other batches each
    row's value is the per-sample value of its basis state.  Tolerances: the double ones of the main pass + 4 rounding units of the
    dtype apply returned (the unchanged tree is within 0.5 of a unit: float32 4e-8, float16 3e-4, bfloat16 3e-3 measured)."""
    import torch
    rng = enc_rng(ctx)
    N = len(sp)
    x64 = torch.tensor(sp, dtype=torch.double)
    layouts = enc_layouts()
    lnames = list(layouts)
    # only for batches of identical rows: ONE stored row, stride 0 along the batch
    layouts["one row expanded to several rows (stride 0)"] = ((lambda x, dt_: x[:1].to(dt_).expand(len(x), x.shape[1])), lambda d: True, lambda f: True)
    full = np.arange(N)

    def one(name, fam, ctor, Op, ref, sc, twin, dn, lname, ridx, cache, form=None):
        dt = getattr(torch, dn)
        mk, dok, fok = layouts[lname]
        if not (dok(dn) and fok(fam)):
            return False
        is_full = len(ridx) == N and np.array_equal(ridx, full)
        rows = "all %d basis states in order" % N if is_full else (ridx.tolist() if len(ridx) <= 8 else "%d rows" % len(ridx))
        c2 = dict(case, observable=name, sample_dtype=dn, sample_layout=lname, rows=rows)
        if form is not None:
            c2["constructed"] = form
        ok, O = ctx.call(name + ": constructor", c2, ctor)
        if not ok:
            return True
        try:
            x = mk(x64[torch.tensor(ridx, dtype=torch.long)].clone(), dt)
            assert x.dtype == dt and np.array_equal(as_f64(x), sp[ridx])
        except Exception:
            ctx.count("encoding: the harness could not build (%s, %s), skipped" % (dn, lname))
            return False
        ctx.count("encoding dtype:" + dn)
        ctx.count("encoding layout:" + lname)
        r = enc_apply(ctx, s, O, name, x, c2)
        if r is None:
            return True
        vals, eps = r
        if is_full and form is None:
            cache[(name, dn, lname)] = vals
            if Op is not None:
                want = float(np.trace(rho_n @ Op).real)
                got = float(np.dot(w, vals))
                tol = 1e-8 + 1e-7 * abs(want) + 4 * eps * float(np.dot(w, sc))
                ctx.require(name + ": sum_s p(s)/Z * apply(s) == Re tr(rho Op)", abs(got - want) <= tol, c2,
                            {"estimator_mean": got, "trace": want, "values": vals[:8].tolist(), "values_on_the_float64_tensor": ref[:8].tolist()})
            elif (twin, dn, lname) in cache and form is None:
                base = cache[(twin, dn, lname)]
                ctx.require(twin + ": absolute=True is the pointwise absolute value",
                            bool(np.all(np.abs(vals - np.abs(base)) <= (1e-12 + 4 * eps) * np.maximum(1.0, np.abs(base)))), c2)
        else:
            want = ref[ridx]
            bad = np.abs(vals - want) > 1e-9 * np.abs(want) + (1e-12 + 4 * eps) * sc[ridx]
            ctx.require(name.replace("(absolute)", "") + ": value of a row does not depend on the rest of the batch", not bool(np.any(bad)),
                        dict(c2, batch="rows with repeats in another encoding; reference: the float64 full-basis evaluation"),
                        {"row": int(np.argmax(bad)), "got": float(vals[int(np.argmax(bad))]), "value_on_the_float64_tensor": float(want[int(np.argmax(bad))])})
        return True

    cache = {}
    fams_batched = set()
    xy = [r for r in refs if r[1] in ("X", "Y")]
    if mode != "all" and xy:
        # the state fails in the middle of one X / Y evaluation (drawn observable, drawn call)
        r = xy[int(rng.integers(0, len(xy)))]
        fault_pass(ctx, s, r, n, sp, int(rng.integers(1, n + 1)), case, rng)
    for k, (name, fam, ctor, Op, ref, sc, twin, forms) in enumerate(refs):
        legal = enc_legal(fam, kind)
        others = [d for d in legal if d != "float64"]
        args = (name, fam, ctor, Op, ref, sc, twin)
        if mode == "all":
            # every documented way of constructing this observable (on the plain double tensor: full basis -> trace identity, |.| -> per row)
            for fname, fctor in forms:
                ctx.count("constructed: " + fname.split(":")[0])
                if Op is not None:
                    one(name, fam, fctor, Op, ref, sc, twin, "float64", "contiguous", full, cache, form=fname)
                else:
                    one(name, fam, fctor, Op, ref, sc, twin, "float64", "contiguous", np.concatenate([full, full[:1]]), cache, form=fname)
            if fam in ("X", "Y"):
                for kf in range(1, n + 1):
                    fault_pass(ctx, s, refs[k], n, sp, kf, case, rng)
            for dn in legal:
                one(*args, dn, "contiguous", full, cache)
            for j, lname in enumerate(lnames[1:]):
                dns = ["float64"] + ([others[(k + 2 * j) % len(others)], others[(k + 2 * j + 1) % len(others)]] if others else [])
                for dn in dict.fromkeys(dns):
                    one(*args, dn, lname, full, cache)
            for dn in dict.fromkeys(["float64"] + others[k % max(1, len(others)):][:1] + (["uint8"] if "uint8" in legal else [])):
                B = int(rng.integers(1025, 2100)) * 2 + 1
                one(*args, dn, lnames[int(rng.integers(0, 6))], (int(rng.integers(0, N)) + np.arange(B) * int(rng.integers(1, 4))) % N, cache)
                one(*args, dn, "one row expanded to several rows (stride 0)", np.full(int(rng.integers(2, 9)), int(rng.integers(0, N))), cache)
        else:
            picks = [others[i] for i in rng.permutation(len(others))[:2]] if others else []
            if fam == "ZZ" and "uint8" in others and "uint8" not in picks and rng.random() < 0.5:
                picks[0] = "uint8"
            for dn in picks:
                one(*args, dn, "contiguous", full, cache)
            # a drawn layout: with a drawn legal dtype (float64 included - for mixed X / Y it is the only one)
            for _ in range(4):
                if one(*args, legal[int(rng.integers(0, len(legal)))], lnames[int(rng.integers(1, len(lnames)))], full, cache):
                    break
            if fam not in fams_batched and twin is None:
                fams_batched.add(fam)
                dn = legal[int(rng.integers(0, len(legal)))]
                B = int(rng.integers(3, 40))
                if rng.random() < 0.35:
                    one(*args, dn, "one row expanded to several rows (stride 0)", np.full(int(rng.integers(2, 9)), int(rng.integers(0, N))), cache)
                else:
                    one(*args, dn, lnames[int(rng.integers(0, 6))], rng.integers(0, N, size=B), cache)
        if very_long and twin is None and fam in ("Z", "ZZ") and (fam == "Z" or name.endswith("c=1)")):
            # > 20000 rows in a narrow encoding (a sum over the batch kept in the sample dtype would leave its exact range)
            for dn in [d for d in ("float16", "uint8", "int8", "bfloat16") if d in legal][:2]:
                Bv = 20001 + 2 * int(rng.integers(0, 3000))
                ctx.count("batch:very long batch in a narrow encoding")
                one(*args, dn, "contiguous", (int(rng.integers(0, N)) + np.arange(Bv)) % N, cache)
    if mode == "all":
        enc_informational(ctx, s, kind, n, sp, refs)
    ctx.count("encoding passes:" + mode)


FIXED_ENCODING_STATES = [
    {"kind": "positive", "nv": 2, "nh": 2, "na": 0, "pseed": 840001},
    {"kind": "complex", "nv": 3, "nh": 2, "na": 0, "pseed": 840002},
    {"kind": "mixed", "nv": 2, "nh": 2, "na": 2, "pseed": 840003},
    {"kind": "positive", "nv": 1, "nh": 1, "na": 0, "pseed": 840004},
    {"kind": "mixed", "nv": 3, "nh": 3, "na": 2, "pseed": 840005, "ph_aux": True},
    {"kind": "complex", "nv": 4, "nh": 3, "na": 0, "pseed": 840006},
]


def fixed_params(spec):
    """parameters of a fixed encoding state: N(0, 0.8), no bias entry near 0, phase aux bias 0 unless the spec says "ph_aux" (own generator,
    independent of the seed; the extra draw comes last, the other values are what they were)"""
    g = np.random.Generator(np.random.PCG64(int(spec["pseed"])))

    def v(shape, bias=False):
        x = g.normal(size=shape) * 0.8
        if bias:
            x[np.abs(x) < 1e-2] = 0.37
        return x
    kind, nv, nh, na = spec["kind"], spec["nv"], spec["nh"], spec["na"]
    if kind == "mixed":
        return {"am": gen.plist(v((nh, nv)), v((na, nv)), v(nv, True), v(nh, True), v(na, True)),
                "ph": gen.plist(v((nh, nv)), v((na, nv)), v(nv, True), v(nh, True), v(na, True) if spec.get("ph_aux") else np.zeros(na))}
    out = {"am": gen.plist(v((nh, nv)), v(nv, True), v(nh, True))}
    if kind == "complex":
        out["ph"] = gen.plist(v((nh, nv)), v(nv, True), v(nh, True))
    return out


def fixed_encoding_block(ctx):
    """Runs FIRST: every observable x every legal dtype x every layout on fixed states of all three types (independent of VERIF_SEED)."""
    saved = ctx.rng
    try:
        for spec in FIXED_ENCODING_STATES:
            # check_state draws its batches from ctx.rng: a private generator here, so that the seed's stream starts where it always did
            ctx.rng = np.random.Generator(np.random.PCG64(int(spec["pseed"]) + 1))
            check_state(ctx, spec["kind"], spec["nv"], spec["nh"], spec["na"], fixed_params(spec), with_model=False, encodings="all")
            ctx.count("fixed encoding states")
    finally:
        ctx.rng = saved


# =========================================================================== histories on the SAME objects
# Seed round 3 (C08c): SigmaX / SigmaY took their single-spin-flip copies from a memo keyed by the IDENTITY of the sample
# tensor; "evaluate -> refill the same tensor in place -> evaluate again" gave the values of the old rows.  The class: any
# cache / memo / stored handle (in the observables, in the states' importance-sampling functions, module level or per
# instance) that goes stale when the caller legally changes something between two evaluations on the same objects.
PNAMES = {"positive": ("weights", "visible_bias", "hidden_bias"), "complex": ("weights", "visible_bias", "hidden_bias"),
          "mixed": ("weights_W", "weights_U", "visible_bias", "hidden_bias", "aux_bias")}


def nets_of(kind):
    return ("rbm_am",) if kind == "positive" else ("rbm_am", "rbm_ph")


def live_params(s, kind):
    """numpy copies of the CURRENT parameters, read through the public attributes of the live object"""
    out = {}
    for net in nets_of(kind):
        rbm = getattr(s, net)
        out[net[4:]] = [np.array(getattr(rbm, k).detach().cpu().numpy(), dtype=float, copy=True) for k in PNAMES[kind]]
    return out


def np_rho(kind, P, sp):
    """dense unnormalised density matrix rho[s, s'] from the raw parameters, numpy only"""
    f = lambda W, b, c: sp @ b + gen.softplus(sp @ W.T + c).sum(-1)
    if kind == "mixed":
        W, U, b, c, d = P["am"]
        Wp, Up, bp, cp, _ = P["ph"]
        fa, fp = f(W, b, c), f(Wp, bp, cp)
        gam = 0.5 * (fa[:, None] + fa[None, :]) + 0.5j * (fp[:, None] - fp[None, :])
        ua, up = sp @ U.T, sp @ Up.T
        arg = 0.5 * (ua[:, None, :] + ua[None, :, :]) + d + 0.5j * (up[:, None, :] - up[None, :, :])
        return np.exp(gam + np.log(1.0 + np.exp(arg)).sum(-1))
    psi = np.exp(0.5 * f(*P["am"])).astype(complex)
    if kind == "complex":
        psi = psi * np.exp(0.5j * f(*P["ph"]))
    return np.outer(psi, np.conj(psi))


_OBS_CACHE = {}


def obs_table(n):
    """[(name, constructor, dense operator or None, name of the non-absolute twin or None)] for a chain of n sites"""
    if n in _OBS_CACHE:
        return _OBS_CACHE[n]
    from qucumber.observables import SigmaX, SigmaY, SigmaZ, NeighbourInteraction
    tab = []
    # the way of constructing each instance rotates through the documented call forms (positional / keyword / defaults / numpy scalars)
    rot = lambda forms: forms[(len(tab) + n) % len(forms)][1]
    for name, cls, M in (("SigmaX", SigmaX, PX), ("SigmaY", SigmaY, PY), ("SigmaZ", SigmaZ, PZ)):
        tab.append((name, rot(sigma_forms(cls, False)), mean_site(M, n), None))
        tab.append((name + "(absolute)", rot(sigma_forms(cls, True)), None, name))
    for pbc in (False, True):
        for c in range(1, n + 1):
            tab.append(("NeighbourInteraction(pbc=%s,c=%d)" % (pbc, c), rot(zz_forms(pbc, c)), zz_op(n, c, pbc), None))
    _OBS_CACHE[n] = tab
    return tab


def obs_pool(ctx):
    """ONE instance per observable for the whole run (shared by all histories, all states, all chain lengths)"""
    if not hasattr(ctx, "_c08_pool"):
        ctx._c08_pool = {}
    return ctx._c08_pool


def construct(H, box, name, ctor):
    """the observable built in the call form the table prescribes; a constructor that raises is a failing input (once per name and run)"""
    ctx = H.ctx
    bad = ctx.__dict__.setdefault("_c08_bad_ctor", set())
    try:
        return ctor()
    except Exception as e:
        if name not in bad:
            bad.add(name)
            ctx.require(name + ": constructor raised " + type(e).__name__, False, H.case(box, name), repr(e)[:300])
        return None


class Box:
    """one live state object + the numpy view of what it currently is"""

    def __init__(self, kind, nv, nh, na, s):
        self.kind, self.nv, self.nh, self.na, self.s = kind, nv, nh, na, s
        self.sp = gen.all_states(nv)
        self.pw = (2 ** np.arange(nv)[::-1]).astype(float)
        self.refresh()

    def refresh(self):
        """re-read the parameters of the live object; everything derived is rebuilt with numpy"""
        self.P = live_params(self.s, self.kind)
        rho = np_rho(self.kind, self.P, self.sp)
        d = np.abs(np.diag(rho))
        self.rho_n = rho / np.trace(rho)
        self.w = np.real(np.diag(rho)) / float(np.real(np.trace(rho)))
        self.sc = np.maximum(1.0, np.abs(rho).max(axis=0) / d)      # per-row magnitude of the importance ratios
        self.finite = bool(np.all(np.isfinite(rho)) and np.all(d > 0) and np.all(np.isfinite(self.sc)))
        self.ref = None

    def plist(self):
        return {k: gen.plist(*v) for k, v in self.P.items()}


class Hist:
    def __init__(self, ctx, spec):
        self.ctx, self.spec = ctx, spec
        self.rng = np.random.Generator(np.random.PCG64(int(spec["hseed"])))
        self.step, self.log, self.kept = 0, [], []
        self.only = spec.get("only_ops")
        # seed round 5: in two of three histories EVERY parameter tensor is written, the phase network's auxiliary bias of a mixed state included
        # (the library initialises it to zero and never trains it; reinitialize_parameters / initialize_parameters put the zero back)
        self.ph_aux = bool(spec["ph_aux"]) if "ph_aux" in spec else (int(spec["hseed"]) % 3 != 0)

    def bits(self, n):
        return int(self.rng.integers(0, n))

    def tseed(self):
        import torch
        torch.manual_seed(int(self.rng.integers(0, 2 ** 31 - 1)))

    def values(self, shape, bias=False):
        x = self.rng.normal(size=shape) * 0.8
        if bias:
            x[np.abs(x) < 1e-2] = 0.37
        return x

    def case(self, box, name, **extra):
        c = {"state": box.kind, "nv": box.nv, "nh": box.nh, "na": box.na, "observable": name, "history": self.spec, "step": self.step,
             "steps_so_far": self.log[-14:], "params": box.plist()}
        c.update(extra)
        return c

    def mutation_failed(self, label, e):
        """a mutation operator is the CALLER's action (torch / fit / load ...): when it raises, that is not C08's clause"""
        self.ctx.count("history: mutation operator raised, skipped (not required here): " + label.split(" [")[0])


def new_state(H, kind, nv, nh=None, na=None):
    nh = int(H.rng.integers(1, nv + 2)) if nh is None else nh
    na = (int(H.rng.integers(1, nv + 2)) if na is None else na) if kind == "mixed" else 0
    if kind == "mixed":
        am = [H.values((nh, nv)), H.values((na, nv)), H.values(nv, True), H.values(nh, True), H.values(na, True)]
        ph = [H.values((nh, nv)), H.values((na, nv)), H.values(nv, True), H.values(nh, True), H.values(na, True) if H.ph_aux else np.zeros(na)]
        H.ctx.count("history: mixed state, phase aux bias " + ("non-zero" if H.ph_aux else "zero (as the library initialises it)"))
        params = {"am": gen.plist(*am), "ph": gen.plist(*ph)}
    else:
        params = {"am": gen.plist(H.values((nh, nv)), H.values(nv, True), H.values(nh, True))}
        if kind == "complex":
            params["ph"] = gen.plist(H.values((nh, nv)), H.values(nv, True), H.values(nh, True))
    return Box(kind, nv, nh, na, build(kind, nv, nh, na, params))


def decode_rows(box, buf):
    a = np.array(buf.detach().cpu().numpy(), dtype=float)
    if a.ndim != 2 or a.shape[1] != box.nv or not np.all((a == 0) | (a == 1)):
        return None
    return (a @ box.pw).astype(int)


def h_apply(H, box, O, name, buf, fresh=False, what=None):
    """O.apply(state, buf): no exception, tensor unchanged, one real per row.  Returns (tensor, float array copy) or (None, None)."""
    import torch
    ctx = H.ctx
    before = buf.clone()
    meta = (buf.dtype, tuple(buf.shape), tuple(buf.stride()), bool(buf.requires_grad))
    v0 = version_of(buf)
    ok, out = ctx.call((what or name) + ".apply", H.case(box, name), lambda: O.apply(box.s, buf))
    if not ok:
        return None, None
    same = bool(torch.equal(buf, before)) and meta == (buf.dtype, tuple(buf.shape), tuple(buf.stride()), bool(buf.requires_grad))
    if not same:
        ctx.require(name + ": sample tensor unchanged by apply", False, H.case(box, name, rows_before=before.tolist()[:16]))
    elif version_of(buf) != v0:
        ctx.require(name + ": sample tensor unchanged by apply", False, H.case(box, name),
                    "contents equal, but the tensor's write counter moved from %r to %r: apply wrote into the caller's tensor (and restored it)" % (v0, version_of(buf)))
    good = (isinstance(out, torch.Tensor) and tuple(out.shape) == (buf.shape[0],) and out.dtype in (torch.float64, torch.float32)
            and not torch.is_complex(out))
    if not good:
        ctx.require(name + ": one real number per sample row", False, H.case(box, name), {"shape": list(getattr(out, "shape", []))})
        return None, None
    return out, np.array(out.detach().cpu().numpy(), dtype=float, copy=True)


def reference(H, box):
    """fresh observable instances on fresh full-basis tensors (what check_state does), verified by the trace identity
    against the numpy rho of the CURRENT parameters"""
    import torch
    ctx = H.ctx
    ref = {}
    for name, ctor, Op, twin in obs_table(box.nv):
        O = construct(H, box, name, ctor)
        if O is None:
            continue
        t, out = h_apply(H, box, O, name, torch.tensor(box.sp, dtype=torch.double), what=name + " (fresh tensor, fresh observable)")
        if out is None:
            continue
        ref[name] = out
        if Op is not None:
            want, got = float(np.trace(box.rho_n @ Op).real), float(np.dot(box.w, out))
            if not abs(got - want) <= 1e-8 + 1e-7 * abs(want):
                ctx.require(name + ": sum_s p(s)/Z * apply(s) == Re tr(rho Op)", False,
                            H.case(box, name, tensor="fresh full-basis tensor, fresh observable instance"), {"estimator_mean": got, "trace": want})
    return ref


def evaluate(H, box, buf, label, acc=None, rowcheck=True, names=None, scribble=None):
    """Observables of the pool applied to (the live state, the very tensor object buf) in its CURRENT condition.
    names=None: all of them, the order rotated from step to step (so that every observable is at some point the last one
    evaluated before a mutation and the first one after it); names=[...]: only these, in this order."""
    import torch
    ctx = H.ctx
    H.step += 1
    H.log.append(label if names is None else "%s {%s}" % (label, ", ".join(names)))
    ctx.count("history evaluations")
    if not box.finite:
        ctx.count("history: skipped_overflow")
        return None
    rows = decode_rows(box, buf)
    if rows is None:
        ctx.count("history: buffer does not hold basis states after a mutation (harness), step skipped")
        return None
    N = len(box.sp)
    full = len(rows) == N and np.array_equal(np.sort(rows), np.arange(N))
    pool = obs_pool(ctx)
    table = {t[0]: t for t in obs_table(box.nv)}
    if names is None:
        order = list(table)
        r = (3 * H.step) % len(order)
        order = order[r:] + order[:r]
    else:
        order = list(names)
    outs, kept = {}, []
    shown = rows.tolist() if len(rows) <= 32 else "%d rows" % len(rows)
    for name in order:
        if name not in pool:
            O = construct(H, box, name, table[name][1])
            if O is None:
                continue
            pool[name] = O
        t, out = h_apply(H, box, pool[name], name, buf)
        if out is None:
            continue
        outs[name] = out
        kept.append([name, t, out.copy(), False])
    # the weights as the library itself gives them (observe_at: "weighted by probability(space)/Z"), next to the numpy ones
    w_lib = None
    if full and names is None:
        try:
            pl = np.array(box.s.probability(buf).detach().cpu().numpy(), dtype=float)
            if pl.shape == (N,) and np.all(np.isfinite(pl)) and pl.sum() > 0:
                w_lib = pl / pl.sum()
        except Exception:
            ctx.count("history: probability(buffer) raised (C01/C02's clause; not required here)")
    for name in order:
        if name not in outs:
            continue
        out, Op, twin = outs[name], table[name][2], table[name][3]
        if Op is not None and full:
            want = float(np.trace(box.rho_n @ Op).real)
            for wts, src_ in ((box.w[rows], "numpy, from the current parameters"), (w_lib, "probability(buffer) of the library, normalised")):
                if wts is None:
                    continue
                got = float(np.dot(wts, out))
                if not abs(got - want) <= 1e-8 + 1e-7 * abs(want):
                    ctx.require(name + ": sum_s p(s)/Z * apply(s) == Re tr(rho Op)", False, H.case(box, name, rows_now=shown, after=label, weights=src_),
                                {"estimator_mean": got, "trace": want})
                    break
        if twin is not None and twin in outs:
            if not np.allclose(out, np.abs(outs[twin]), rtol=1e-12, atol=0):
                ctx.require(twin + ": absolute=True is the pointwise absolute value", False, H.case(box, name, rows_now=shown, after=label))
        if acc is not None and Op is not None:
            acc[name] = acc.get(name, 0.0) + float(np.dot(box.w[rows], out))
    # values handed out by the previous evaluation are still what they were (unless the harness itself scribbled over them)
    for name, t, val, scribbled in H.kept:
        if not scribbled and not np.array_equal(np.array(t.detach().cpu().numpy(), dtype=float), val):
            ctx.require(name.replace("(absolute)", "") + ": the values returned by an earlier apply are not altered by a later apply", False,
                        H.case(box, name, after=label), {"then": val[:4].tolist(), "now": t.detach().cpu().numpy()[:4].tolist()})
    H.kept = kept
    if (H.step % 2 == 0) if scribble is None else scribble:
        # the caller edits the tensors apply returned (they are the caller's): later evaluations must not depend on them
        for k in kept:
            try:
                k[1].detach().fill_(-7.0)
                k[3] = True
            except Exception:
                pass
        ctx.count("history: returned tensors overwritten by the caller")
    if rowcheck:
        first = box.ref is None
        if first:
            box.ref = reference(H, box)
        for name, out in outs.items():
            if name not in box.ref:
                continue
            sc = box.sc[rows] if name.startswith(("SigmaX", "SigmaY")) else np.ones(len(rows))
            want = box.ref[name][rows]
            if not np.allclose(out / sc, want / sc, rtol=1e-9, atol=1e-11):
                bad = int(np.argmax(np.abs(out - want) / sc))
                ctx.require(name.replace("(absolute)", "") + ": value of a row does not depend on the rest of the batch", False,
                            H.case(box, name, rows_now=shown, after=label, batch="the same tensor object, evaluated before with other contents / other parameters"),
                            {"row": bad, "basis_state": int(rows[bad]), "got": float(out[bad]), "value_of_that_state_on_a_fresh_tensor": float(want[bad])})
        if first:
            # the reference ran on other tensors: evaluate the buffer once more (nothing changed: same values) so that it is
            # again the most recently evaluated tensor when the next mutation comes
            for name in order:
                if name not in pool:
                    continue
                t, out = h_apply(H, box, pool[name], name, buf)
                if out is not None and name in outs and not np.allclose(out, outs[name], rtol=1e-9, atol=1e-11):
                    ctx.require(name.replace("(absolute)", "") + ": value of a row does not depend on the rest of the batch", False,
                                H.case(box, name, rows_now=shown, after=label + "; evaluated a second time with nothing changed" +
                                       ("" if not (kept and kept[0][3]) else " except that the caller overwrote the tensors the first evaluation returned")))
    return outs


# --------------------------------------------------------------------------- mutation operators: the sample tensor (same object)
def other_perm(H, box, buf, B=None):
    """basis rows (as a float array) that differ from what buf holds now; the whole basis in a new order when B is None"""
    N = len(box.sp)
    cur = decode_rows(box, buf)
    for _ in range(20):
        idx = H.rng.permutation(N) if B is None else H.rng.integers(0, N, size=B)
        if B is not None and len(idx) != buf.shape[0]:
            break
        if cur is None or len(cur) != len(idx) or not np.array_equal(cur, idx):
            break
    return box.sp[idx].copy()


def sample_ops(H, box, layout):
    """[(label, fn(buf))]: each changes the CONTENTS of the tensor object buf (never re-binds it)"""
    import torch
    from qucumber.observables.pauli import flip_spin
    T = lambda a: torch.tensor(np.asarray(a), dtype=torch.double)
    n = box.nv
    pool = obs_pool(H.ctx)

    def rows_assign(buf):
        new = other_perm(H, box, buf)
        for r in range(buf.shape[0]):
            buf[r] = T(new[r])

    def numpy_view(buf):
        buf.numpy()[...] = other_perm(H, box, buf)

    def through_base(buf):
        b = layout.get("base")
        if b is None:
            buf.view(-1)[:] = T(other_perm(H, box, buf)).view(-1)      # another view of the same storage
        else:
            layout["write_base"](T(other_perm(H, box, buf)))

    def permute_rows(buf):
        perm = H.rng.permutation(buf.shape[0])
        if np.array_equal(perm, np.arange(len(perm))):
            perm = np.roll(perm, 1)
        buf.copy_(buf[torch.tensor(perm, dtype=torch.long)])

    def swap_two(buf):
        i, j = (H.rng.choice(buf.shape[0], size=2, replace=False) if buf.shape[0] > 1 else (0, 0))
        tmp = buf[int(i)].clone(); buf[int(i)] = buf[int(j)]; buf[int(j)] = tmp

    def chain(buf):
        H.tseed()
        box.s.sample(k=int(H.rng.integers(1, 4)), initial_state=buf, overwrite=True)

    def obs_sample(buf):
        # Observable.sample with the caller's chain: advances buf in place and returns the values of its NEW rows
        for name in ("SigmaX", "SigmaY", "SigmaZ"):
            H.tseed()
            O = pool.get(name) or construct(H, box, name, obs_table(n)[[t[0] for t in obs_table(n)].index(name)][1])
            if O is None:
                continue
            ok, out = H.ctx.call(name + ".sample(initial_state=buffer, overwrite=True)", H.case(box, name), lambda: O.sample(box.s, k=1, initial_state=buf, overwrite=True))
            rows = decode_rows(box, buf)
            if ok and rows is not None and box.ref is not None and name in box.ref and isinstance(out, torch.Tensor) and tuple(out.shape) == (len(rows),):
                sc = box.sc[rows] if name != "SigmaZ" else np.ones(len(rows))
                got, want = np.array(out.detach().numpy(), dtype=float), box.ref[name][rows]
                if not np.allclose(got / sc, want / sc, rtol=1e-9, atol=1e-11):
                    H.ctx.require(name + ": value of a row does not depend on the rest of the batch", False,
                                  H.case(box, name, rows_now=rows.tolist()[:32], after="Observable.sample(k=1, initial_state=buffer, overwrite=True): values of the advanced chain",
                                         batch="the same tensor object, evaluated before with other contents"))

    def obs_statistics(buf):
        H.tseed()
        O = pool.get("SigmaX") or construct(H, box, "SigmaX", obs_table(n)[0][1])
        if O is None:
            raise RuntimeError("no SigmaX instance")
        O.statistics(box.s, num_samples=3 * buf.shape[0], burn_in=1, steps=1, initial_state=buf, overwrite=True)

    def shrink(buf):
        buf.resize_(buf.shape[0] - 1, n)

    def grow_refill(buf):
        buf.resize_(len(box.sp), n)
        buf.copy_(T(other_perm(H, box, buf)))

    ops = [("copy_", lambda buf: buf.copy_(T(other_perm(H, box, buf)))),
           ("slice assignment buf[:] = rows", lambda buf: buf.__setitem__(slice(None), T(other_perm(H, box, buf)))),
           ("chain advanced with sample(initial_state=buffer, overwrite=True)", chain),
           (".data.copy_ (no version bump)", lambda buf: buf.data.copy_(T(other_perm(H, box, buf)))),
           ("flip_spin(i, buffer) (the library's in-place helper)", lambda buf: flip_spin(H.bits(n), buf)),
           ("written through a numpy view (no version bump)", numpy_view),
           ("Observable.sample(initial_state=buffer, overwrite=True)", obs_sample),
           ("row-by-row assignment", rows_assign),
           ("in-place row permutation", permute_rows),
           ("bernoulli_", lambda buf: (H.tseed(), buf.bernoulli_(0.5))),
           ("written through the base tensor / another view", through_base),
           ("all spins flipped in place (sub_(1).abs_())", lambda buf: buf.sub_(1).abs_()),
           ("Observable.statistics(initial_state=buffer, overwrite=True)", obs_statistics),
           ("zero_().add_(rows)", lambda buf: buf.zero_().add_(T(other_perm(H, box, buf)))),
           ("two rows swapped", swap_two),
           ("out= of a torch op", lambda buf: torch.index_select(T(other_perm(H, box, buf)), 0, torch.arange(buf.shape[0]), out=buf)),
           ("copy_ of the whole basis again", lambda buf: buf.copy_(T(other_perm(H, box, buf))))]
    if layout.get("resizable"):
        ops += [("resize_ to one row less", shrink), ("resize_ back and refilled", grow_refill),
                ("set_ to another storage", lambda buf: buf.set_(T(other_perm(H, box, buf))))]
    return ops


def make_buffer(H, box, variant):
    """(the tensor object all evaluations of a history are run on, layout info).  It holds the whole basis."""
    import torch
    N, n = len(box.sp), box.nv
    first = torch.tensor(box.sp[H.rng.permutation(N)], dtype=torch.double)
    if variant == "plain":
        return first, {"resizable": True}
    if variant == "view of a larger tensor":
        base = torch.zeros(N + 3, n, dtype=torch.double)
        buf = base[2:2 + N]
        buf.copy_(first)
        return buf, {"base": base, "write_base": lambda t: base.__setitem__(slice(2, 2 + N), t)}
    if variant == "every second row of a larger tensor":
        base = torch.ones(2 * N, n, dtype=torch.double)
        buf = base[::2]
        buf.copy_(first)
        return buf, {"base": base, "write_base": lambda t: base.__setitem__(slice(0, 2 * N, 2), t)}
    if variant == "column-major storage":
        base = torch.zeros(n, N, dtype=torch.double)
        buf = base.t()
        buf.copy_(first)
        return buf, {"base": base, "write_base": lambda t: base.copy_(t.t())}
    if variant == "returned by generate_hilbert_space":
        try:
            buf = box.s.generate_hilbert_space()
            if decode_rows(box, buf) is not None and tuple(buf.shape) == (N, n) and buf.dtype == torch.double:
                return buf, {"resizable": True}
        except Exception:
            pass
        H.ctx.count("generate_hilbert_space unusable (C19's clause; not required here)")
        return first, {"resizable": True}
    if variant == "returned by sample":
        H.tseed()
        try:
            buf = box.s.sample(k=2, num_samples=N)
            if decode_rows(box, buf) is not None and tuple(buf.shape) == (N, n) and buf.dtype == torch.double:
                return buf, {"resizable": True}
        except Exception:
            pass
        H.ctx.count("sample unusable (C05's clause; not required here)")
        return first, {"resizable": True}
    raise ValueError(variant)


BUFFER_VARIANTS = ["plain", "view of a larger tensor", "returned by generate_hilbert_space", "every second row of a larger tensor",
                   "column-major storage", "returned by sample"]


def run_ops(H, box, buf, ops, evaluate_after):
    for label, fn in ops:
        if H.only is not None and label not in H.only:
            continue
        try:
            fn(buf)
        except Exception as e:
            H.mutation_failed(label, e)
            continue
        H.ctx.count("history op: " + label)
        evaluate_after(label)


def script_buffer(H):
    spec = H.spec
    box = new_state(H, spec["kind"], spec["nv"])
    buf, layout = make_buffer(H, box, spec.get("buffer", "plain"))
    evaluate(H, box, buf, "initial contents (%s)" % spec.get("buffer", "plain"))
    ops = sample_ops(H, box, layout)
    if spec.get("shuffle"):
        head = [ops[i] for i in H.rng.permutation(17)]
        ops = head[:spec.get("n_ops", len(head))] + ops[17:]
    run_ops(H, box, buf, ops, lambda label: evaluate(H, box, buf, label))
    return box


# --------------------------------------------------------------------------- mutation operators: the parameters of the live state
def param_ops(H, box):
    """[(label, fn())]: each changes the parameters of the live state box.s in a way the library offers or tolerates"""
    import torch
    from qucumber.rbm import BinaryRBM, PurificationRBM
    kind, s, nv = box.kind, box.s, box.nv
    T = lambda a: torch.tensor(np.asarray(a), dtype=torch.double)
    nets = nets_of(kind)
    pick_net = lambda: nets[H.bits(len(nets))]
    is_bias = lambda k: k.endswith("bias")

    def fresh_values(rbm, net):
        """new values with the shapes the live network has now"""
        out = {}
        for k in PNAMES[kind]:
            shape = tuple(getattr(rbm, k).shape)
            out[k] = np.zeros(shape) if (kind == "mixed" and net == "rbm_ph" and k == "aux_bias" and not H.ph_aux) else H.values(shape, is_bias(k))
        return out

    def each_param(fn, all_nets=True):
        for net in (nets if all_nets else (pick_net(),)):
            rbm = getattr(s, net)
            for k, v in fresh_values(rbm, net).items():
                fn(rbm, k, v)

    def rebind(rbm, k, v):
        setattr(rbm, k, torch.nn.Parameter(T(v), requires_grad=False))

    def nograd_copy(rbm, k, v):
        with torch.no_grad():
            getattr(rbm, k).copy_(T(v))

    def arith(rbm, k, v):
        with torch.no_grad():
            getattr(rbm, k).mul_(-0.7).add_(T(v) * 0.5)

    def replace_net():
        net = pick_net()
        old = getattr(s, net)
        nh2 = int(H.rng.integers(1, nv + 2))
        new = PurificationRBM(nv, nh2, box.na, gpu=False) if kind == "mixed" else BinaryRBM(nv, nh2, gpu=False)
        for k, v in fresh_values(new, net).items():
            getattr(new, k).data = T(v)
        setattr(s, net, new)

    def entries():
        for net in nets:
            rbm = getattr(s, net)
            rbm.visible_bias.data[H.bits(nv)] += 1.5
            w = getattr(rbm, PNAMES[kind][0])
            w.data[H.bits(w.shape[0]), H.bits(w.shape[1])] -= 1.25
            if kind == "mixed":
                rbm.weights_U.data[H.bits(rbm.weights_U.shape[0]), H.bits(nv)] += 0.9

    def vec_to_params():
        for net in nets:
            rbm = getattr(s, net)
            ps = list(rbm.parameters())
            vec = T(H.values(sum(p.numel() for p in ps)))
            torch.nn.utils.vector_to_parameters(vec, ps)
            if kind == "mixed" and net == "rbm_ph" and not H.ph_aux:
                rbm.aux_bias.data = torch.zeros_like(rbm.aux_bias)

    def donor_state():
        d = copy.deepcopy(s)
        for net in nets:
            rbm = getattr(d, net)
            for k, v in fresh_values(rbm, net).items():
                getattr(rbm, k).data = T(v)
        return d

    def load_sd():
        d = donor_state()
        for net in nets:
            getattr(s, net).load_state_dict(getattr(d, net).state_dict())

    def load_file():
        path = os.path.join(H.ctx.scratch, "c08_hist_%d.pt" % H.step)
        donor_state().save(path)
        s.load(path)

    def opt_step():
        for net in nets:
            ps = list(getattr(s, net).parameters())
            for p in ps:
                p.grad = T(H.values(tuple(p.shape)))
            torch.optim.SGD(ps, lr=0.3).step()
            for p in ps:
                p.grad = None
            if kind == "mixed" and net == "rbm_ph" and not H.ph_aux:
                getattr(s, net).aux_bias.data.zero_()

    def short_fit():
        if len({tuple(getattr(getattr(s, net), PNAMES[kind][0]).shape) for net in nets}) > 1:
            # an earlier step gave the two networks different num_hidden: training such a state is outside fit's contract
            H.ctx.count("history: short fit not applicable (networks of different sizes), replaced by .data.add_")
            for net in nets:
                getattr(s, net).visible_bias.data.add_(T(H.values(nv, True)))
            return
        H.tseed()
        data = T(H.rng.integers(0, 2, size=(12, nv)))
        kw = dict(epochs=1, pos_batch_size=4, neg_batch_size=4, k=1, lr=0.1, progbar=False)
        if kind != "positive":
            bases = np.array([[str(c) for c in H.rng.choice(["X", "Y", "Z"], size=nv, p=[0.2, 0.2, 0.6])] for _ in range(12)])
            bases[:4, :] = "Z"          # fit seeds its negative-phase chains from reference-basis rows: there must be some
            kw["input_bases"] = bases
        import warnings
        with warnings.catch_warnings():
            warnings.simplefilter("ignore")
            s.fit(data, **kw)

    def reinit():
        H.tseed()
        s.reinitialize_parameters()

    def init_one():
        H.tseed()
        getattr(s, pick_net()).initialize_parameters()

    return [(".data.copy_(new) on every parameter (no version bump)", lambda: each_param(lambda rbm, k, v: getattr(rbm, k).data.copy_(T(v)))),
            ("every parameter re-bound: rbm.<name> = nn.Parameter(new)", lambda: each_param(rebind)),
            ("copy_ under no_grad on every parameter", lambda: each_param(nograd_copy)),
            ("reinitialize_parameters()", reinit),
            (".data = new on every parameter", lambda: each_param(lambda rbm, k, v: setattr(getattr(rbm, k), "data", T(v)))),
            ("load_state_dict from another network", load_sd),
            ("a whole network replaced (state.rbm_xx = new RBM, other num_hidden)", replace_net),
            ("written through numpy views of the parameters (no version bump)",
             lambda: each_param(lambda rbm, k, v: getattr(rbm, k).detach().numpy().__setitem__(Ellipsis, v))),
            ("optimizer step (SGD on given gradients)", opt_step),
            ("rbm.initialize_parameters() on one network", init_one),
            ("single entries edited through .data", entries),
            ("state.load(file saved by another state)", load_file),
            ("in-place arithmetic under no_grad (mul_, add_)", lambda: each_param(arith)),
            ("torch.nn.utils.vector_to_parameters", vec_to_params),
            ("parameters of ONE network re-bound", lambda: each_param(rebind, all_nets=False)),
            ("short fit (1 epoch)", short_fit),
            (".data.copy_(new) on ONE network", lambda: each_param(lambda rbm, k, v: getattr(rbm, k).data.copy_(T(v)), all_nets=False))]


def script_params(H):
    import torch
    spec = H.spec
    box = new_state(H, spec["kind"], spec["nv"])
    buf, layout = make_buffer(H, box, spec.get("buffer", "plain"))
    evaluate(H, box, buf, "initial parameters")
    ops = param_ops(H, box)
    if spec.get("shuffle"):
        ops = [ops[i] for i in H.rng.permutation(len(ops))][:spec.get("n_ops", len(ops))]

    def after(label):
        box.refresh()
        box.nh = int(box.P["am"][0].shape[0])
        evaluate(H, box, buf, label)
    run_ops(H, box, None, [(l, (lambda buf_, f=f: f())) for l, f in ops], after)
    # a deep copy changed on its own: the copy gives the values of ITS parameters, the original keeps its own
    if H.only is None:
        try:
            twin = copy.deepcopy(box.s)
        except Exception as e:
            H.mutation_failed("copy.deepcopy(state)", e)
            return box
        b2 = Box(box.kind, box.nv, box.nh, box.na, twin)
        for net in nets_of(box.kind):
            getattr(twin, net).visible_bias.data.add_(torch.tensor(H.values(box.nv, True)))
        b2.refresh()
        evaluate(H, b2, buf, "a deep copy of the state with other visible biases, same tensor")
        evaluate(H, box, buf, "the original state again, same tensor")
        H.ctx.count("history op: deep copy changed separately")
    return box


def script_stream(H):
    """The whole basis streamed chunk by chunk through ONE re-used buffer; sum_s p(s)/Z value(s) accumulated over the chunks."""
    import torch
    spec = H.spec
    box = new_state(H, spec["kind"], spec["nv"])
    N, n = len(box.sp), box.nv
    T = lambda a: torch.tensor(np.asarray(a), dtype=torch.double)
    for p in range(2):
        B = int(2 ** H.rng.integers(0, max(1, n)))           # 1 .. N/2 rows, divides N
        base = torch.zeros(B + 2, n, dtype=torch.double)
        buf = base[1:1 + B]
        fills = [("copy_", lambda x: buf.copy_(T(x))), ("slice assignment", lambda x: buf.__setitem__(slice(None), T(x))),
                 ("numpy view", lambda x: buf.numpy().__setitem__(Ellipsis, x)), (".data.copy_", lambda x: buf.data.copy_(T(x))),
                 ("through the base tensor", lambda x: base.__setitem__(slice(1, 1 + B), T(x)))]
        order = H.rng.permutation(N)
        acc = {}
        for c in range(N // B):
            label, fill = fills[(c + p) % len(fills)]
            fill(box.sp[order[c * B:(c + 1) * B]])
            evaluate(H, box, buf, "pass %d chunk %d of %d rows refilled by %s" % (p, c, B, label), acc=acc, rowcheck=False)
            H.ctx.count("history op: stream chunk refilled by " + label)
        if not box.finite:
            continue
        for name, ctor, Op, twin in obs_table(n):
            if Op is None or name not in acc:
                continue
            want = float(np.trace(box.rho_n @ Op).real)
            if not abs(acc[name] - want) <= 1e-8 + 1e-7 * abs(want):
                H.ctx.require(name + ": sum_s p(s)/Z * apply(s) == Re tr(rho Op)", False,
                              H.case(box, name, after="the basis streamed through one re-used buffer of %d rows (order %r)" % (B, order.tolist()[:32])),
                              {"estimator_mean": acc[name], "trace": want})
    return box


def script_objects(H):
    """Several live states (all types; another chain length) alternating on the SAME tensor and the SAME observable instances; one of
    them changed in between; fresh tensors created and deleted in a loop."""
    import torch
    spec = H.spec
    nv = spec["nv"]
    kinds = [spec["kind"]] + [k for k in ("positive", "complex", "mixed") if k != spec["kind"]]
    boxes = [new_state(H, k, nv) for k in kinds] + [new_state(H, spec["kind"], nv)]       # last: same type and (maybe) sizes, other parameters
    nv2 = nv + 1 if nv < 4 else nv - 1
    other = new_state(H, kinds[H.bits(3)], nv2)
    buf, layout = make_buffer(H, boxes[0], spec.get("buffer", "plain"))
    buf2, _ = make_buffer(H, other, "plain")
    T = lambda a: torch.tensor(np.asarray(a), dtype=torch.double)
    for rnd in range(2):
        for b in boxes:
            evaluate(H, b, buf, "state #%d (%s) on the shared tensor, round %d" % (boxes.index(b), b.kind, rnd))
        evaluate(H, other, buf2, "the same observables on a chain of %d sites (%s)" % (nv2, other.kind))
        evaluate(H, boxes[0], buf, "back to state #0 on the shared tensor")
        # change one of the states and the tensor at once
        b = boxes[1 + H.bits(len(boxes) - 1)]
        for net in nets_of(b.kind):
            getattr(b.s, net).hidden_bias.data.copy_(T(H.values(tuple(getattr(b.s, net).hidden_bias.shape), True)))
        b.refresh()
        buf.copy_(T(other_perm(H, boxes[0], buf)))
        evaluate(H, b, buf, "state #%d after hidden_bias.data.copy_, tensor refilled by copy_" % boxes.index(b))
        evaluate(H, boxes[0], buf, "state #0 on the refilled tensor")
        H.ctx.count("history op: states alternating on one tensor")
    # fresh tensors, each deleted before the next is made (a new tensor may get the id / the memory of a deleted one)
    b, seen, reused = boxes[0], set(), 0
    for k in range(5):
        t = T(b.sp[H.rng.permutation(len(b.sp))])
        reused += (id(t) in seen) or (t.data_ptr() in seen)
        seen.update((id(t), t.data_ptr()))
        evaluate(H, b, t, "fresh tensor #%d (the previous one was deleted)" % k)
        del t
    H.kept = []
    H.ctx.count("history: fresh tensor re-used the id or memory of a deleted one", int(reused))
    return boxes[0]


def solo_names(H, box):
    """[[names evaluated together]]: every observable on its own (an absolute=True one followed by its twin, which the |.| clause needs)"""
    out = []
    for name, ctor, Op, twin in obs_table(box.nv):
        out.append([name] if twin is None else [name, twin])
    if H.spec.get("shuffle"):
        out = [out[i] for i in H.rng.permutation(len(out))]
    return out


SOLO_BUFFER_OPS = ["copy_", ".data.copy_ (no version bump)", "written through a numpy view (no version bump)",
                   "chain advanced with sample(initial_state=buffer, overwrite=True)", "in-place row permutation",
                   "slice assignment buf[:] = rows", "flip_spin(i, buffer) (the library's in-place helper)", "zero_().add_(rows)",
                   "written through the base tensor / another view", "bernoulli_", "two rows swapped", "row-by-row assignment",
                   "all spins flipped in place (sub_(1).abs_())", "out= of a torch op"]


def script_solo(H):
    """ONE observable at a time: evaluate, change the tensor in place, evaluate the same observable again - nothing else is evaluated
    in between (a one-slot memo shared by several observables is displaced when they are evaluated in turn).  Between the block of one
    observable and the next there is a mutation too, so (last evaluated before, first evaluated after) also runs over neighbouring pairs."""
    spec = H.spec
    box = new_state(H, spec["kind"], spec["nv"])
    buf, layout = make_buffer(H, box, spec.get("buffer", "plain"))
    evaluate(H, box, buf, "initial contents (%s)" % spec.get("buffer", "plain"))          # all observables; builds the reference
    ops = dict(sample_ops(H, box, layout))
    k = 0
    per = spec.get("n_ops", 5)
    for names in solo_names(H, box):
        evaluate(H, box, buf, "solo", names=names, scribble=False)
        # first the three representative kinds (in-place with / without version bump), then a rotating selection of the others
        labels = SOLO_BUFFER_OPS[:3] + [SOLO_BUFFER_OPS[3 + (k + j) % (len(SOLO_BUFFER_OPS) - 3)] for j in range(max(0, per - 3))]
        k += max(0, per - 3)
        for label in labels:
            try:
                ops[label](buf)
            except Exception as e:
                H.mutation_failed(label, e)
                continue
            H.ctx.count("history op (solo): " + label)
            evaluate(H, box, buf, label, names=names, scribble=False)
        # nothing changed but the tensor apply returned (the caller's own): the same call again
        evaluate(H, box, buf, "nothing changed", names=names, scribble=True)
        evaluate(H, box, buf, "nothing changed; the tensors returned by the previous apply were overwritten by the caller", names=names, scribble=False)
        H.ctx.count("history op (solo): returned tensor overwritten, same call again")
    return box


def script_solo_params(H):
    """ONE observable at a time: evaluate on the full-basis tensor, change the parameters of the live state, evaluate again."""
    spec = H.spec
    box = new_state(H, spec["kind"], spec["nv"])
    buf, layout = make_buffer(H, box, spec.get("buffer", "plain"))
    ops = param_ops(H, box)
    groups = solo_names(H, box)
    per = spec.get("n_ops", 4)
    k = 0
    for names in groups:
        evaluate(H, box, buf, "solo", names=names, rowcheck=False, scribble=False)
        for j in range(per):
            label, fn = ops[(k + j) % len(ops)]
            try:
                fn()
            except Exception as e:
                H.mutation_failed(label, e)
                continue
            box.refresh()
            box.nh = int(box.P["am"][0].shape[0])
            H.ctx.count("history op (solo): " + label)
            evaluate(H, box, buf, label, names=names, rowcheck=False, scribble=False)
        k += per
    return box


def obs_family(name):
    return name[5] if name.startswith("Sigma") else "ZZ"


def enc_evaluate(H, box, x, perm, dn, lname, label):
    """the pool's observables on the encoded tensor x (holding the basis in the order perm): the trace identity in that encoding"""
    import torch
    ctx = H.ctx
    H.step += 1
    H.log.append(label)
    ctx.count("history evaluations (encoded tensors)")
    pool = obs_pool(ctx)
    vals = {}
    tab = obs_table(box.nv)
    r = (3 * H.step) % len(tab)
    for name, ctor, Op, twin in tab[r:] + tab[:r]:
        fam = obs_family(name)
        if dn not in enc_legal(fam, box.kind) or not enc_layouts()[lname][2](fam):
            continue
        if name not in pool:
            O = construct(H, box, name, ctor)
            if O is None:
                continue
            pool[name] = O
        c2 = H.case(box, name, sample_dtype=dn, sample_layout=lname, rows_now=perm.tolist()[:32], after=label)
        res = enc_apply(ctx, box.s, pool[name], name, x, c2)
        if res is None:
            continue
        vals[name] = res
    for name, ctor, Op, twin in tab:
        if name not in vals:
            continue
        v, eps = vals[name]
        c2 = H.case(box, name, sample_dtype=dn, sample_layout=lname, rows_now=perm.tolist()[:32], after=label)
        if Op is not None:
            want, got = float(np.trace(box.rho_n @ Op).real), float(np.dot(box.w[perm], v))
            sc = box.sc[perm] if obs_family(name) in ("X", "Y") else np.ones(len(perm))
            if not abs(got - want) <= 1e-8 + 1e-7 * abs(want) + 4 * eps * float(np.dot(box.w[perm], sc)):
                ctx.require(name + ": sum_s p(s)/Z * apply(s) == Re tr(rho Op)", False, c2, {"estimator_mean": got, "trace": want, "values": v[:8].tolist()})
        elif twin in vals:
            b = vals[twin][0]
            if not np.all(np.abs(v - np.abs(b)) <= (1e-12 + 4 * eps) * np.maximum(1.0, np.abs(b))):
                ctx.require(twin + ": absolute=True is the pointwise absolute value", False, c2)


def script_encodings(H):
    """ONE pool of observable instances, ONE state: the basis handed over in encoding after encoding (dtype x layout).  Every encoded
    tensor is evaluated, refilled IN PLACE with the basis in another order and evaluated again (a memo keyed by the tensor object or by
    shape alone - not by dtype - goes stale here); the float64 buffer of the ordinary histories is evaluated in between."""
    import torch
    spec = H.spec
    box = new_state(H, spec["kind"], spec["nv"])
    if not box.finite:
        H.ctx.count("history: skipped_overflow")
        return box
    N = len(box.sp)
    T = lambda a: torch.tensor(np.asarray(a), dtype=torch.double)
    layouts = enc_layouts()
    frozen = ("torch.from_numpy of a read-only array", "created under inference_mode", "requires_grad=True")
    buf64, _ = make_buffer(H, box, "plain")
    evaluate(H, box, buf64, "initial contents (float64 buffer)")
    dns = [d for d in ENC_ALL if hasattr(torch, d)]
    if spec.get("shuffle"):
        dns = [dns[i] for i in H.rng.permutation(len(dns))][:spec.get("n_ops", len(dns))]
    lnames = list(layouts)
    for k, dn in enumerate(dns):
        lname = lnames[(k + H.bits(len(lnames))) % len(lnames)] if spec.get("shuffle") else lnames[(2 * k + int(spec["hseed"])) % len(lnames)]
        if not layouts[lname][1](dn):
            lname = "contiguous"
        perm = H.rng.permutation(N)
        try:
            x = layouts[lname][0](T(box.sp[perm]), getattr(torch, dn))
        except Exception as e:
            H.mutation_failed("building the encoded tensor", e)
            continue
        H.ctx.count("history op: basis in encoding " + dn)
        enc_evaluate(H, box, x, perm, dn, lname, "fresh %s tensor (%s)" % (dn, lname))
        if lname not in frozen:
            perm = np.roll(perm, 1 + H.bits(max(1, N - 1)))
            try:
                x.copy_(T(box.sp[perm]))
            except Exception as e:
                H.mutation_failed("copy_ into the encoded tensor", e)
                continue
            enc_evaluate(H, box, x, perm, dn, lname, "the same %s tensor refilled in place by copy_ (%s)" % (dn, lname))
        if k % 3 == 2:
            buf64.copy_(T(other_perm(H, box, buf64)))
            evaluate(H, box, buf64, "float64 buffer refilled by copy_, after the %s tensor" % dn)
    return box


# =========================================================================== ARCHITECTURES x EVERY parameter tensor x CONSTRUCTION PATHS
# Seed round 5 (C08e): DensityMatrix.pi(expand=False) - the only form the X / Y estimators use - rewritten with rbm_ph.mixing_term, which adds
# the PHASE network's auxiliary bias; the full matrix rho(space, space) never reads that bias.  The library initialises it to zero and never
# trains it, every generator of this check kept "the documented zero", so nothing ever saw it.  The class: CONFIGURATIONS inside the
# quantifier that the generators never build - a parameter that stays zero in ordinary use, an asymmetric architecture in which a formula
# written for the symmetric one goes wrong (nh + na < nv, na > nh, nh = 1 with nv = 5 ...), a state obtained through module= / autoload /
# load instead of the sizes, a path only one state type / call form uses (expand=False).  Closed by enumeration: every architecture of
# the ranges once, every parameter tensor of every network random, the construction paths in rotation, every observable once on the full
# basis, against rho built by numpy from the formula on the parameters the live object holds.
CONSTRUCTION_PATHS = ("sizes", "module=", "autoload", "load")


def arch_list():
    """[(kind, nv, nh, na)]: every architecture with nv 1..5, nh 1..nv+1 (na 1..nv+1) + a few wider ones"""
    out = []
    for nv in range(1, 6):
        for nh in list(range(1, nv + 2)) + [2 * nv + 1]:
            out.append(("complex", nv, nh, 0))
            out.append(("positive", nv, nh, 0))
        for nh in range(1, nv + 2):
            for na in range(1, nv + 2):
                out.append(("mixed", nv, nh, na))
        out += [("mixed", nv, 2 * nv + 1, 1), ("mixed", nv, 1, 2 * nv + 2), ("mixed", nv, 2 * nv + 1, 2 * nv + 1)]
    return out


def arch_params(idx, kind, nv, nh, na, ph_aux):
    """every parameter tensor N(0, 0.8), no bias entry near zero; the phase network's auxiliary bias N(0, 1.2) when ph_aux (else the
    documented zero).  Own generator per architecture, independent of the seed."""
    g = np.random.Generator(np.random.PCG64([0xC08E, int(idx)]))

    def v(shape, bias=False, scale=0.8):
        x = g.normal(size=shape) * scale
        if bias:
            x[np.abs(x) < 1e-2] = 0.37
        return x
    if kind == "mixed":
        return {"am": gen.plist(v((nh, nv)), v((na, nv)), v(nv, True), v(nh, True), v(na, True)),
                "ph": gen.plist(v((nh, nv)), v((na, nv)), v(nv, True), v(nh, True), v(na, True, 1.2) if ph_aux else np.zeros(na))}
    out = {"am": gen.plist(v((nh, nv)), v(nv, True), v(nh, True))}
    if kind == "complex":
        out["ph"] = gen.plist(v((nh, nv)), v(nv, True), v(nh, True))
    return out


def build_via(ctx, path, kind, nv, nh, na, params, tag, rewrite_am=True):
    """A real state holding `params`, obtained through one documented construction path."""
    import torch
    from qucumber.nn_states import PositiveWaveFunction, ComplexWaveFunction, DensityMatrix
    from qucumber.rbm import BinaryRBM, PurificationRBM
    if path == "sizes":
        return build(kind, nv, nh, na, params)
    Cls = {"positive": PositiveWaveFunction, "complex": ComplexWaveFunction, "mixed": DensityMatrix}[kind]
    sizes = (nv, nh, na) if kind == "mixed" else (nv, nh)
    T = lambda a: torch.tensor(np.asarray(a, dtype=float), dtype=torch.double)
    names = PNAMES[kind]
    if path == "module=":
        mod = PurificationRBM(nv, nh, na, gpu=False) if kind == "mixed" else BinaryRBM(nv, nh, gpu=False)
        for k, val in zip(names, params["am"]):
            getattr(mod, k).data.copy_(T(val))
        s = Cls(*sizes, gpu=False, module=mod)
        # the two networks (the module and its copy) are then written IN PLACE with different values: the phase network first ...
        if kind != "positive":
            for j, (k, val) in enumerate(zip(names, params["ph"])):
                p = getattr(s.rbm_ph, k)
                if j % 2:
                    with torch.no_grad():
                        p.copy_(T(val))
                else:
                    p.data.copy_(T(val))
        # ... and (every second time) the amplitude network once more
        if rewrite_am:
            for k, val in zip(names, params["am"]):
                with torch.no_grad():
                    getattr(s.rbm_am, k).copy_(T(val))
        return s
    donor = build(kind, nv, nh, na, params)
    fn = os.path.join(ctx.scratch, "c08_arch_%s.pt" % tag)
    donor.save(fn)
    if path == "autoload":
        s = Cls.autoload(fn, gpu=False)
    elif path == "load":
        s = Cls(*sizes, gpu=False)
        s.load(fn)
    else:
        raise ValueError(path)
    try:
        os.remove(fn)
    except OSError:
        pass
    return s


def arch_one(ctx, idx, kind, nv, nh, na, path, ph_aux, params=None):
    """One architecture: all parameters random, built through `path`, every observable ONCE on the full basis against the formula."""
    import torch
    import warnings
    if params is None:
        params = arch_params(idx, kind, nv, nh, na, ph_aux)
    case = {"state": kind, "nv": nv, "nh": nh, "na": na, "arch_index": int(idx), "constructed_through": path, "params": params}
    if kind == "mixed":
        case["phase_aux_bias"] = "non-zero" if ph_aux else "zero (as the library initialises it)"
    try:
        with warnings.catch_warnings():
            warnings.simplefilter("ignore")
            s = build_via(ctx, path, kind, nv, nh, na, params, "%d" % idx, rewrite_am=bool(idx % 2))
    except Exception:
        ctx.count("architectures: construction path '%s' raised (C11 / C20's clause; not required here), state built from the sizes instead" % path)
        path = case["constructed_through"] = "sizes"
        s = build(kind, nv, nh, na, params)
    ctx.count("architectures: %s through %s" % (kind, path) + ((", phase aux bias " + case["phase_aux_bias"].split(" (")[0]) if kind == "mixed" else ""))
    ctx.count("architecture regime: " + ("nh + na < nv" if kind == "mixed" and nh + na < nv else "na > nh" if na > nh else "nh = 1, nv >= 4" if nh == 1 and nv >= 4
                                         else "nh > nv" if nh > nv else "other"))
    sp = gen.all_states(nv)
    P = live_params(s, kind)
    want_P = {k: [np.asarray(a, dtype=float) for a in v] for k, v in params.items()}
    if any(a.shape != b.shape or not np.array_equal(a, b) for k in want_P for a, b in zip(P[k], want_P[k])):
        ctx.count("architectures: the live state does not hold the values handed to '%s' (C11 / C20's clause; the oracle uses the live ones)" % path)
    rho = np_rho(kind, P, sp)
    d = np.real(np.diag(rho))
    if not (np.all(np.isfinite(rho)) and np.all(d > 0)):
        ctx.count("skipped_overflow")
        return
    ctx.case({"architecture": kind, "nv": nv, "nh": nh, "na": na, "through": path, "phase_aux_bias": case.get("phase_aux_bias")}, nontrivial=True)
    rho_n = rho / np.trace(rho)
    w = d / float(d.sum())
    x = torch.tensor(sp, dtype=torch.double)          # ONE tensor for all observables of this state
    vals = {}
    for name, ctor, Op, twin in obs_table(nv):
        c2 = dict(case, observable=name)
        ok, O = ctx.call(name + ": constructor", c2, ctor)
        if not ok:
            continue
        r = enc_apply(ctx, s, O, name, x, c2)
        if r is None:
            continue
        v = vals[name] = r[0]
        if Op is not None:
            want, got = float(np.trace(rho_n @ Op).real), float(np.dot(w, v))
            ctx.require(name + ": sum_s p(s)/Z * apply(s) == Re tr(rho Op)", abs(got - want) <= 1e-8 + 1e-7 * abs(want), c2,
                        {"estimator_mean": got, "trace": want, "rho": "numpy, exp(Gamma+ + i Gamma- + Pi) from the parameters read from the live state"})
        elif twin in vals:
            ctx.require(twin + ": absolute=True is the pointwise absolute value", bool(np.allclose(v, np.abs(vals[twin]), rtol=1e-12, atol=0)), c2)
    ctx.traces += 1


def arch_block(ctx):
    """Runs FIRST (independent of VERIF_SEED): every architecture x all parameters random x the construction paths in rotation."""
    j = 0
    for idx, (kind, nv, nh, na) in enumerate(arch_list()):
        ph_aux = False
        if kind == "mixed":
            ph_aux = (j % 3 != 2)
            j += 1
        # paths rotate with a stride that is coprime to the 3-cycle of the phase aux bias and to the row lengths of the enumeration
        arch_one(ctx, idx, kind, nv, nh, na, CONSTRUCTION_PATHS[(idx + idx // 4) % 4], ph_aux)
    ctx.count("architecture block")


SCRIPTS = {"buffer": script_buffer, "params": script_params, "stream": script_stream, "objects": script_objects,
           "solo": script_solo, "solo_params": script_solo_params, "encodings": script_encodings}

FIXED_HISTORIES = [
    {"script": "buffer", "kind": "positive", "nv": 2, "buffer": "plain", "hseed": 810001},
    {"script": "params", "kind": "complex", "nv": 2, "buffer": "plain", "hseed": 810002},
    {"script": "solo", "kind": "complex", "nv": 2, "buffer": "plain", "hseed": 810013},
    {"script": "solo_params", "kind": "mixed", "nv": 2, "buffer": "plain", "hseed": 810014, "n_ops": 17, "ph_aux": True},
    {"script": "buffer", "kind": "mixed", "nv": 2, "buffer": "returned by generate_hilbert_space", "hseed": 810003, "ph_aux": True},
    {"script": "stream", "kind": "complex", "nv": 3, "hseed": 810004},
    {"script": "params", "kind": "mixed", "nv": 2, "buffer": "view of a larger tensor", "hseed": 810005, "ph_aux": True},
    {"script": "objects", "kind": "mixed", "nv": 2, "buffer": "plain", "hseed": 810006, "ph_aux": False},
    {"script": "buffer", "kind": "complex", "nv": 3, "buffer": "view of a larger tensor", "hseed": 810007},
    {"script": "params", "kind": "positive", "nv": 3, "buffer": "returned by generate_hilbert_space", "hseed": 810008},
    {"script": "stream", "kind": "mixed", "nv": 2, "hseed": 810009, "ph_aux": True},
    {"script": "stream", "kind": "positive", "nv": 1, "hseed": 810010},
    {"script": "buffer", "kind": "positive", "nv": 1, "buffer": "every second row of a larger tensor", "hseed": 810011},
    {"script": "objects", "kind": "complex", "nv": 3, "buffer": "column-major storage", "hseed": 810012},
    {"script": "solo", "kind": "mixed", "nv": 3, "buffer": "view of a larger tensor", "hseed": 810015, "ph_aux": False},
    {"script": "solo_params", "kind": "complex", "nv": 3, "buffer": "returned by generate_hilbert_space", "hseed": 810016, "n_ops": 6},
    {"script": "solo", "kind": "positive", "nv": 2, "buffer": "returned by sample", "hseed": 810017},
    {"script": "solo_params", "kind": "positive", "nv": 2, "buffer": "plain", "hseed": 810018, "n_ops": 17},
    {"script": "encodings", "kind": "complex", "nv": 2, "hseed": 810019},
    {"script": "encodings", "kind": "mixed", "nv": 3, "hseed": 810020, "ph_aux": True},
    {"script": "encodings", "kind": "positive", "nv": 3, "hseed": 810021},
]


def run_history(ctx, spec):
    """One history; deterministic in spec (own generator, own torch seeds), so a failing one can be replayed from its spec."""
    import torch
    H = Hist(ctx, spec)
    torch.manual_seed(int(spec["hseed"]))
    n0 = len(ctx.failures)
    ctx.count("history script:" + spec["script"]); ctx.count("history state:" + spec["kind"]); ctx.count("history nv:%d" % spec["nv"])
    box = SCRIPTS[spec["script"]](H)
    ctx.case({"history": spec["script"], "state": spec["kind"], "nv": spec["nv"], "buffer": spec.get("buffer"), "hseed": spec["hseed"]},
             nontrivial=True)
    if len(ctx.failures) == n0:
        ctx.traces += 1


def random_history_spec(ctx):
    rng = ctx.rng
    script = str(rng.choice(["buffer", "params", "stream", "objects", "solo", "solo_params"], p=[0.25, 0.2, 0.1, 0.1, 0.2, 0.15]))
    nv = int(rng.choice([1, 2, 3, 4], p=[0.15, 0.35, 0.3, 0.2]))
    spec = {"script": script, "kind": str(rng.choice(["positive", "complex", "mixed"])), "nv": nv,
            "buffer": str(rng.choice(BUFFER_VARIANTS)), "hseed": int(rng.integers(1, 2 ** 31 - 1)), "shuffle": True}
    if not ctx.thorough:
        spec["n_ops"] = {"solo": 4, "solo_params": 3}.get(script, 8)
    elif script in ("solo", "solo_params"):
        spec["n_ops"] = 6
    if script == "objects" and nv == 4:
        spec["nv"] = 3
    return spec


def run(ctx):
    # every architecture x every parameter tensor x every construction path, once each: independent of VERIF_SEED, always first
    arch_block(ctx)
    # fixed states in every legal encoding of the sample tensor (dtype x layout): independent of VERIF_SEED
    fixed_encoding_block(ctx)
    # fixed histories on the same objects: independent of VERIF_SEED
    for spec in FIXED_HISTORIES:
        run_history(ctx, dict(spec))
    # nv 1..5 in both tiers (the property's range); the quick tier uses fewer draws
    plan = {1: 20, 2: 20, 3: 20, 4: 20, 5: 20} if ctx.thorough else {1: 6, 2: 6, 3: 6, 4: 5, 5: 4}
    for nv in (1, 2, 3, 4, 5):
        for kind in ("mixed", "complex", "positive"):
            for d in range(plan[nv]):
                ctx.torch_seed()
                nh = int(ctx.rng.integers(1, nv + 2))
                na = int(ctx.rng.integers(1, nv + 2)) if kind == "mixed" else 0
                nh, na = widen(ctx, kind, nv, nh, na)
                params = draw_all(ctx, kind, nv, nh, na)
                # the > 20000-row batch: first state of every type with nv in (2, 3) that is not skipped for overflow
                check_state(ctx, kind, nv, nh, na, params, very_long=(nv in (2, 3) and kind not in very_long_done(ctx)))
    # table-fed model: the observable layer alone, on the implementation's own psi / rho values
    table_cases(ctx)
    # random histories on the same objects (after the main stream, whose draws for a given seed stay what they were)
    for _ in range(48 if ctx.thorough else 16):
        run_history(ctx, random_history_spec(ctx))
    # histories over encodings (specs from the encoding generator: the draws above stay what they were)
    g = enc_rng(ctx)
    for _ in range(9 if ctx.thorough else 3):
        run_history(ctx, {"script": "encodings", "kind": str(g.choice(["positive", "complex", "mixed"])), "nv": int(g.choice([1, 2, 3, 4])),
                          "hseed": int(g.integers(1, 2 ** 31 - 1)), "shuffle": True, "n_ops": 13 if ctx.thorough else 7})


def table_cases(ctx):
    """Feed the model's observable layer with explicit psi / rho tables taken from the implementation."""
    import torch
    from qucumber.observables import SigmaX, SigmaY
    m = ctx.get_model()
    for kind in ("complex", "mixed"):
        for nv in (2, 3):
            nh = nv
            na = 2 if kind == "mixed" else 0
            params = draw_all(ctx, kind, nv, nh, na)
            s = build(kind, nv, nh, na, params)
            space, sp = independent_space(ctx, s, nv)
            if not energies_ok(kind, params, sp):
                ctx.count("skipped_overflow")
                continue
            case = {"state": kind, "nv": nv, "nh": nh, "na": na, "params": params, "table_fed": True}
            ctx.case({"table": kind, "nv": nv, "am0": params["am"][0][0][0]}, nontrivial=nontrivial(kind, params))
            if kind == "complex":
                psi = s.psi(space).numpy()
                margs = [3, psi.T.tolist()]
                scale = np.abs(psi[0] + 1j * psi[1])
                rs = np.array([max(1.0, max(scale[j] / scale[r] for j in range(len(sp)))) for r in range(len(sp))])
            else:
                r = s.rho(space, space).numpy()
                p = s.probability(space).numpy()
                margs = [4, np.stack([r[0], r[1]], axis=-1).tolist(), p.tolist()]
                a = np.abs(r[0] + 1j * r[1])
                rs = np.array([max(1.0, a[:, j].max() / p[j]) for j in range(len(sp))])
            mp = m.call("obs_pauli", *margs, sp)
            for k, cls in ((0, SigmaX), (1, SigmaY)):
                ok, out = ctx.call(cls.__name__ + ".apply", case, lambda: cls().apply(s, space.clone()))
                if ok:
                    ctx.agree(cls.__name__ + " (table-fed model)", out.numpy() / rs, np.array(mp[k]) / rs, case, scale=1.0)


def search(ctx, broken, budget):
    """Wider oracle sweep (no model needed): all small sizes, more draws."""
    t0 = time.time()
    n0 = len(ctx.failures)
    arch_block(ctx)
    if len(ctx.failures) > n0:
        return ctx.failures[n0]
    for rep in range(6):
        for nv in (1, 2, 3, 4):
            for kind in ("positive", "complex", "mixed"):
                nh = int(ctx.rng.integers(1, nv + 2))
                na = int(ctx.rng.integers(1, nv + 2)) if kind == "mixed" else 0
                check_state(ctx, kind, nv, nh, na, draw_all(ctx, kind, nv, nh, na), with_model=False)
                if len(ctx.failures) == n0:
                    run_history(ctx, random_history_spec(ctx))
                if len(ctx.failures) > n0:
                    return ctx.failures[n0]
                if time.time() - t0 > budget:
                    return None
    return None


def replay(ctx, rec):
    case = rec.get("failing", {}).get("case", {})
    if isinstance(case.get("history"), dict):
        print("replay of the history", case["history"], "(failed at step", case.get("step"), "after", case.get("after"), ")")
        run_history(ctx, dict(case["history"]))
        for f in ctx.failures[:5]:
            print("  fails:", f["what"], f["detail"][:200])
        return
    if "params" not in case:
        print("replay: no stored case; re-running the generated cases")
        return run(ctx)
    if "constructed_through" in case and "arch_index" in case:
        print("replay of the architecture", case.get("state"), "nv", case.get("nv"), "nh", case.get("nh"), "na", case.get("na"), "built through", case["constructed_through"])
        arch_one(ctx, case["arch_index"], case["state"], case["nv"], case["nh"], case.get("na", 0), case["constructed_through"],
                 case.get("phase_aux_bias") == "non-zero", params=case["params"])
        for f in ctx.failures[:5]:
            print("  fails:", f["what"], f["detail"][:200])
        return
    print("replay of", case.get("state"), "nv", case.get("nv"), "nh", case.get("nh"), "observable", case.get("observable"))
    check_state(ctx, case["state"], case["nv"], case["nh"], case.get("na", 0), case["params"], with_model=not case.get("sample_dtype"),
                very_long=True, encodings="all")
    for f in ctx.failures[:5]:
        print("  fails:", f["what"], f["detail"][:200])
