"""C08 — Observable estimators are unbiased for the operator they name.

Correspondence: SigmaX/SigmaY/SigmaZ(absolute on/off).apply and NeighbourInteraction(pbc, c).apply of real
Positive/Complex/DensityMatrix objects on the full basis (and on a random batch with repeats), plus
importance_sampling_numerator/denominator/weight, vs the extracted Coq model (Observables.sigma_x, ... fed with
States.pos_psi / cplx_psi / dm_rho / dm_probability evaluated by the model from the same parameters).

Oracle (property relation on the implementation's own outputs, independent numpy reference):
  sum_s p(s)/Z * O.apply(state, basis)[s]  ==  Re tr(rho_normalised . Op)
with rho built from the implementation's psi(space) / rho(space, space), Op a dense matrix built by Kronecker
products of Pauli matrices (Z = diag(-1,+1) for bit 0/1, <0|Y|1> = -i), one real number per row, the sample
tensor bit-identical before/after apply, absolute=True equal to |.| of absolute=False pointwise."""
import math, time
import numpy as np
import gen

RULE = ("state types positive/complex/mixed, nv 1..5 in both tiers (quick: fewer draws), nh (and na) drawn in 1..nv+1, parameter draws from "
        "the mixture in harness/gen.py plus a large-bias regime (|b| up to 30, 25 % of the draws) written into live QuCumber objects; the basis is "
        "enumerated independently of the code under test; for every state: SigmaX/Y/Z with absolute off/on and "
        "NeighbourInteraction for c = 1..n and both boundary conditions, applied to all 2^n basis states (weighted exactly by "
        "probability/Z), to a random batch with repeats, to a single row, to non-contiguous (strided) double tensors and to a random batch "
        "of ~2500 rows, and (first nv = 2 or 3 state of every state type, every observable) to a batch of 20001..26000 rows of odd length; a case is (state type, sizes, parameter draw); "
        "non-trivial := all biases non-zero and (state is positive or its phase network is non-zero)")
ASSUMPTIONS = ["torch elementwise kernels implement the real functions up to rounding",
               "states with |effective energy| > 300 are skipped (double overflow in |psi|^2 products), counted as skipped_overflow"]

I2 = np.eye(2, dtype=complex)
PX = np.array([[0, 1], [1, 0]], dtype=complex)
PY = np.array([[0, -1j], [1j, 0]], dtype=complex)
PZ = np.array([[-1, 0], [0, 1]], dtype=complex)     # bit 0 -> -1, bit 1 -> +1 (to_pm1)


def site(M, i, n):
    out = np.array([[1.0 + 0j]])
    for j in range(n):
        out = np.kron(out, M if j == i else I2)
    return out


def mean_site(M, n):
    return sum(site(M, i, n) for i in range(n)) / n


def zz_op(n, c, pbc):
    d = 2 ** n
    acc = np.zeros((d, d), dtype=complex)
    if pbc:
        for i in range(n):
            acc += site(PZ, i, n) @ site(PZ, (i + c) % n, n)
    else:
        for i in range(n - c):
            acc += site(PZ, i, n) @ site(PZ, i + c, n)
    return acc / n


# --------------------------------------------------------------------------- building states
def build(kind, nv, nh, na, params):
    """Real QuCumber object with the given parameters (lists)."""
    from qucumber.nn_states import PositiveWaveFunction, ComplexWaveFunction, DensityMatrix
    A = [np.asarray(x, dtype=float) for x in params["am"]]
    if kind == "positive":
        s = PositiveWaveFunction(nv, nh, gpu=False)
        gen.set_brbm(s.rbm_am, *A)
        return s
    P = [np.asarray(x, dtype=float) for x in params["ph"]]
    if kind == "complex":
        s = ComplexWaveFunction(nv, nh, gpu=False)
        gen.set_brbm(s.rbm_am, *A)
        gen.set_brbm(s.rbm_ph, *P)
        return s
    s = DensityMatrix(nv, nh, na, gpu=False)
    gen.set_prbm(s.rbm_am, *A)
    gen.set_prbm(s.rbm_ph, *P)
    return s


def large_biases(ctx, arrs, bias_from, keep_zero_last=False):
    """Large-bias regime (the quantifier's "magnitudes up to ~30"): every bias entry log-uniform in [1e-3, 30] with a
    random sign, one of them pushed to 20..30; gen.nonzero_bias alone only draws N(0,1) / U[-3,3]."""
    rng = ctx.rng
    out = [np.array(a, dtype=float) for a in arrs]
    last = len(out) - 1 if keep_zero_last else len(out)
    for k in range(bias_from, last):
        b = out[k]
        b[...] = np.exp(rng.uniform(np.log(1e-3), np.log(30.0), size=b.shape)) * rng.choice([-1.0, 1.0], size=b.shape)
    k = int(rng.integers(bias_from, last))
    j = int(rng.integers(0, out[k].size))
    out[k].flat[j] = rng.uniform(20.0, 30.0) * rng.choice([-1.0, 1.0])
    ctx.count("param_regime:large_bias")
    return out


def draw(ctx, kind, nv, nh, na):
    big = ctx.rng.random() < 0.25
    if kind == "mixed":
        am = gen.prbm_params(ctx, nv, nh, na)
        ph = gen.prbm_params(ctx, nv, nh, na, phase=True)
        if big:
            am = large_biases(ctx, am, 2)
            ph = large_biases(ctx, ph, 2, keep_zero_last=True)      # documented: aux bias of the phase net stays 0
        return {"am": gen.plist(*am), "ph": gen.plist(*ph)}
    am = gen.brbm_params(ctx, nv, nh)
    if big:
        am = large_biases(ctx, am, 1)
    if kind == "positive":
        return {"am": gen.plist(*am)}
    ph = gen.brbm_params(ctx, nv, nh)
    if big:
        ph = large_biases(ctx, ph, 1)
    return {"am": gen.plist(*am), "ph": gen.plist(*ph)}


def model_state_args(kind, params):
    tag = {"positive": 0, "complex": 1, "mixed": 2}[kind]
    args = [tag] + list(params["am"])
    if kind != "positive":
        args += list(params["ph"])
    return args


def energies_ok(kind, params, sp):
    A = [np.asarray(x, dtype=float) for x in params["am"]]
    if kind == "mixed":
        E = gen.np_eff_energy_p(*A, sp)
    else:
        E = gen.np_eff_energy(*A, sp)
    if np.max(np.abs(E)) > 300:
        return False
    if kind != "positive":
        P = [np.asarray(x, dtype=float) for x in params["ph"]]
        if max(float(np.max(np.abs(x))) if x.size else 0.0 for x in P) > 1e3:
            return False
    return True


def nontrivial(kind, params):
    def nz(x):
        x = np.asarray(x, dtype=float)
        return bool(np.all(x != 0))
    A = params["am"]
    biases = A[1:] if kind != "mixed" else A[2:]
    ok = all(nz(b) for b in biases)
    if kind != "positive":
        P = params["ph"]
        ok = ok and bool(np.any(np.asarray(P[0], dtype=float) != 0))
    return ok


# --------------------------------------------------------------------------- one case
def independent_space(ctx, s, n):
    """The full basis, enumerated here (itertools.product, site 0 most significant) and NOT by the code under test."""
    import torch
    sp = gen.all_states(n)
    try:
        own = s.generate_hilbert_space().numpy()
        if own.shape != sp.shape or not np.array_equal(own, sp):
            ctx.count("generate_hilbert_space differs from the independent enumeration (C19's clause; not required here)")
    except Exception:
        ctx.count("generate_hilbert_space raised (C19's clause; not required here)")
    return torch.tensor(sp, dtype=torch.double), sp


def state_matrices(ctx, s, kind, space, case):
    """rho (dense complex, unnormalised), p (weights used for sampling) from the implementation."""
    from qucumber.utils import cplx
    if kind == "mixed":
        ok, r = ctx.call("rho(space, space)", case, lambda: s.rho(space, space))
        if not ok:
            return None
        rho = r[0].numpy() + 1j * r[1].numpy()
    else:
        ok, r = ctx.call("psi(space)", case, lambda: s.psi(space))
        if not ok:
            return None
        psi = r[0].numpy() + 1j * r[1].numpy()
        rho = np.outer(psi, np.conj(psi))
    ok, p = ctx.call("probability(space)", case, lambda: s.probability(space))
    if not ok:
        return None
    return rho, p.numpy().astype(float)


def very_long_done(ctx):
    if not hasattr(ctx, "_very_long_done"):
        ctx._very_long_done = set()
    return ctx._very_long_done


def check_state(ctx, kind, nv, nh, na, params, with_model=True, very_long=False):
    import torch
    from qucumber.observables import SigmaX, SigmaY, SigmaZ, NeighbourInteraction
    case = {"state": kind, "nv": nv, "nh": nh, "na": na, "params": params}
    s = build(kind, nv, nh, na, params)
    space, sp = independent_space(ctx, s, nv)
    if not energies_ok(kind, params, sp):
        ctx.count("skipped_overflow")
        return
    ctx.case({"state": kind, "nv": nv, "nh": nh, "na": na, "am0": params["am"][0][0][0], "b0": params["am"][-2][0]},
             nontrivial=nontrivial(kind, params))
    ctx.count("state:" + kind); ctx.count("nv:%d" % nv)
    if very_long:
        very_long_done(ctx).add(kind)
    sm = state_matrices(ctx, s, kind, space, case)
    if sm is None:
        return
    rho, p = sm
    Z = float(p.sum())
    tr = float(np.trace(rho).real)
    if not math.isclose(Z, tr, rel_tol=1e-8):      # C02's clause (diagonal of rho is the probability), not demanded by C08
        ctx.count("sum of probabilities != trace of the reconstructed matrix (C02's clause; not required here)")
    rho_n = rho / np.trace(rho)
    w = p / Z
    n = nv
    N = len(sp)

    # per-row magnitude of the importance ratios: used only to normalise comparisons
    diag = np.abs(np.diag(rho))
    rowscale = np.ones(N)
    for r in range(N):
        for i in range(n):
            f = sp[r].copy(); f[i] = 1 - f[i]
            j = int("".join(str(int(b)) for b in f), 2)
            rowscale[r] = max(rowscale[r], abs(rho[j, r]) / diag[r])

    m = ctx.get_model() if with_model else None
    margs = model_state_args(kind, params)
    mp = m.call("obs_pauli", *margs, sp) if m else None

    def run_apply(O, what, samples):
        before = samples.clone()
        ok, out = ctx.call(what + ".apply", dict(case, observable=what), lambda: O.apply(s, samples))
        if not ok:
            return None
        c2 = dict(case, observable=what)
        ctx.require(what + ": sample tensor unchanged by apply", bool(torch.equal(samples, before)), c2)
        good = (isinstance(out, torch.Tensor) and tuple(out.shape) == (samples.shape[0],) and out.dtype in (torch.float64, torch.float32)
                and not torch.is_complex(out))
        ctx.require(what + ": one real number per sample row", bool(good), c2, {"shape": list(getattr(out, "shape", []))})
        if not good:
            return None
        return out.detach().numpy().astype(float)

    def oracle(what, out, Op):
        want = float(np.trace(rho_n @ Op).real)
        got = float(np.dot(w, out))
        ctx.require(what + ": sum_s p(s)/Z * apply(s) == Re tr(rho Op)", abs(got - want) <= 1e-8 + 1e-7 * abs(want),
                    dict(case, observable=what), {"estimator_mean": got, "trace": want})

    def variants(O, name, out, sc, with_long):
        """The same observable on other sample tensors: a single row, non-contiguous (strided) views, and a batch of
        ~2500 rows (longer than any plausible internal chunk, not a round number).  Only what the property states is
        required: one real per row, tensor unchanged, each row's value is the per-sample value of that basis state."""
        take = lambda r: space[torch.tensor(r, dtype=torch.long)].clone()
        rng = ctx.rng
        B = int(rng.integers(3, 8))
        vs = [("single-row batch", rng.integers(0, N, size=1), take),
              ("non-contiguous batch (column-major storage)", rng.integers(0, N, size=B), lambda r: take(r).t().contiguous().t()),
              ("non-contiguous batch (every second row of a larger tensor)", rng.integers(0, N, size=B),
               lambda r: torch.stack([take(r), 1 - take(r)], 1).reshape(2 * len(r), n)[::2])]
        if with_long:
            vs.append(("long random batch", rng.integers(0, N, size=int(rng.integers(2300, 2700)) | 1), take))
        if very_long:
            # > 20000 rows, odd length, cycling through the basis from a random offset
            Bv = 20001 + 2 * int(rng.integers(0, 3000))
            vs.append(("very long batch", (int(rng.integers(0, N)) + np.arange(Bv)) % N, take))
        for vname, ridx, mk in vs:
            ctx.count("batch:" + vname.split(" (")[0])
            ov = run_apply(O, "%s on a %s" % (name, vname), mk(ridx))
            if ov is None:
                continue
            rows = ridx.tolist() if len(ridx) <= 8 else "%d rows" % len(ridx)
            ctx.require(name + ": value of a row does not depend on the rest of the batch",
                        bool(np.allclose(ov / sc[ridx], out[ridx] / sc[ridx], rtol=1e-9, atol=1e-12)),
                        dict(case, observable=name, batch=vname, rows=rows))

    paulis = [("SigmaX", SigmaX, PX, 0), ("SigmaY", SigmaY, PY, 1), ("SigmaZ", SigmaZ, PZ, 2)]
    batch_idx = ctx.rng.integers(0, N, size=5)
    batch = space[torch.tensor(batch_idx, dtype=torch.long)].clone()
    for name, cls, M, k in paulis:
        out = run_apply(cls(absolute=False), name, space.clone())
        if out is None:
            continue
        oracle(name, out, mean_site(M, n))
        out_abs = run_apply(cls(absolute=True), name + "(absolute)", space.clone())
        if out_abs is not None:
            ctx.require(name + ": absolute=True is the pointwise absolute value", bool(np.allclose(out_abs, np.abs(out), rtol=1e-12, atol=0)),
                        dict(case, observable=name + "(absolute)"))
        sc = rowscale if k < 2 else np.ones(N)
        if mp is not None:
            ctx.agree(name + " per-sample value", out / sc, np.array(mp[k]) / sc, dict(case, observable=name), scale=1.0)
            if out_abs is not None:
                ctx.agree(name + "(absolute) per-sample value", out_abs / sc, np.array(mp[3 + k]) / sc, dict(case, observable=name + "(absolute)"), scale=1.0)
        ob = run_apply(cls(absolute=False), name + " on a batch", batch.clone())
        if ob is not None:
            ctx.require(name + ": value of a row does not depend on the rest of the batch",
                        bool(np.allclose(ob / sc[batch_idx], out[batch_idx] / sc[batch_idx], rtol=1e-9, atol=1e-12)), dict(case, observable=name, batch=batch_idx.tolist()))
        variants(cls(absolute=False), name, out, sc, with_long=True)
        if out_abs is not None:
            variants(cls(absolute=True), name + "(absolute)", out_abs, sc, with_long=False)
    for pbc in (False, True):
        c_long = int(ctx.rng.integers(1, n + 1))
        for c in range(1, n + 1):
            name = "NeighbourInteraction(pbc=%s,c=%d)" % (pbc, c)
            out = run_apply(NeighbourInteraction(periodic_bcs=pbc, c=c), name, space.clone())
            if out is None:
                continue
            oracle(name, out, zz_op(n, c, pbc))
            if m:
                ctx.agree(name + " per-sample value", out, m.call("obs_neighbour", 1 if pbc else 0, c, sp), dict(case, observable=name), scale=1.0)
            variants(NeighbourInteraction(periodic_bcs=pbc, c=c), name, out, np.ones(N), with_long=(c == c_long))
            ctx.count("neighbour")

    # importance-sampling numerator / denominator / weight against the model and against the matrix
    perm = ctx.rng.permutation(N)
    vps = space[torch.tensor(perm, dtype=torch.long)].clone()
    ok, r = ctx.call("importance sampling", case, lambda: (s.importance_sampling_numerator(vps, space),
                                                          s.importance_sampling_denominator(space),
                                                          s.importance_sampling_weight(vps, space)))
    if ok:
        num, den, wt = [x.detach().numpy() for x in r]
        wt_c = wt[0] + 1j * wt[1]
        want = np.array([rho[perm[r_], r_] / rho[r_, r_] for r_ in range(N)])
        ctx.require("importance weight(s', s) == rho(s', s)/rho(s, s)", bool(np.allclose(wt_c, want, rtol=1e-7, atol=1e-9 * max(1.0, np.abs(want).max()))),
                    dict(case, observable="importance_sampling_weight"), {"got": str(wt_c[:4]), "want": str(want[:4])})
        if m:
            mw = m.call("obs_weight", *margs, vps.numpy(), sp)
            s_num = max(1e-300, float(np.abs(num).max())); s_den = max(1e-300, float(np.abs(den).max()))
            ctx.agree("importance numerator", (num / s_num).T, [[x[0][0] / s_num, x[0][1] / s_num] for x in mw], case, scale=1.0)
            ctx.agree("importance denominator", (den / s_den).T, [[x[1][0] / s_den, x[1][1] / s_den] for x in mw], case, scale=1.0)
            ws = np.maximum(1.0, np.abs(want))
            ctx.agree("importance weight", (wt / ws).T, [[x[2][0] / ws[i], x[2][1] / ws[i]] for i, x in enumerate(mw)], case, scale=1.0)
    ctx.traces += 1


def run(ctx):
    # nv 1..5 in both tiers (the property's range); the quick tier uses fewer draws
    plan = {1: 20, 2: 20, 3: 20, 4: 20, 5: 20} if ctx.thorough else {1: 6, 2: 6, 3: 6, 4: 5, 5: 4}
    for nv in (1, 2, 3, 4, 5):
        for kind in ("mixed", "complex", "positive"):
            for d in range(plan[nv]):
                ctx.torch_seed()
                nh = int(ctx.rng.integers(1, nv + 2))
                na = int(ctx.rng.integers(1, nv + 2)) if kind == "mixed" else 0
                params = draw(ctx, kind, nv, nh, na)
                # the > 20000-row batch: first state of every type with nv in (2, 3) that is not skipped for overflow
                check_state(ctx, kind, nv, nh, na, params, very_long=(nv in (2, 3) and kind not in very_long_done(ctx)))
    # table-fed model: the observable layer alone, on the implementation's own psi / rho values
    table_cases(ctx)


def table_cases(ctx):
    """Feed the model's observable layer with explicit psi / rho tables taken from the implementation."""
    import torch
    from qucumber.observables import SigmaX, SigmaY
    m = ctx.get_model()
    for kind in ("complex", "mixed"):
        for nv in (2, 3):
            nh = nv
            na = 2 if kind == "mixed" else 0
            params = draw(ctx, kind, nv, nh, na)
            s = build(kind, nv, nh, na, params)
            space, sp = independent_space(ctx, s, nv)
            if not energies_ok(kind, params, sp):
                ctx.count("skipped_overflow")
                continue
            case = {"state": kind, "nv": nv, "nh": nh, "na": na, "params": params, "table_fed": True}
            ctx.case({"table": kind, "nv": nv, "am0": params["am"][0][0][0]}, nontrivial=nontrivial(kind, params))
            if kind == "complex":
                psi = s.psi(space).numpy()
                margs = [3, psi.T.tolist()]
                scale = np.abs(psi[0] + 1j * psi[1])
                rs = np.array([max(1.0, max(scale[j] / scale[r] for j in range(len(sp)))) for r in range(len(sp))])
            else:
                r = s.rho(space, space).numpy()
                p = s.probability(space).numpy()
                margs = [4, np.stack([r[0], r[1]], axis=-1).tolist(), p.tolist()]
                a = np.abs(r[0] + 1j * r[1])
                rs = np.array([max(1.0, a[:, j].max() / p[j]) for j in range(len(sp))])
            mp = m.call("obs_pauli", *margs, sp)
            for k, cls in ((0, SigmaX), (1, SigmaY)):
                ok, out = ctx.call(cls.__name__ + ".apply", case, lambda: cls().apply(s, space.clone()))
                if ok:
                    ctx.agree(cls.__name__ + " (table-fed model)", out.numpy() / rs, np.array(mp[k]) / rs, case, scale=1.0)


def search(ctx, broken, budget):
    """Wider oracle sweep (no model needed): all small sizes, more draws."""
    t0 = time.time()
    n0 = len(ctx.failures)
    for rep in range(6):
        for nv in (1, 2, 3, 4):
            for kind in ("positive", "complex", "mixed"):
                nh = int(ctx.rng.integers(1, nv + 2))
                na = int(ctx.rng.integers(1, nv + 2)) if kind == "mixed" else 0
                check_state(ctx, kind, nv, nh, na, draw(ctx, kind, nv, nh, na), with_model=False)
                if len(ctx.failures) > n0:
                    return ctx.failures[n0]
                if time.time() - t0 > budget:
                    return None
    return None


def replay(ctx, rec):
    case = rec.get("failing", {}).get("case", {})
    if "params" not in case:
        print("replay: no stored case; re-running the generated cases")
        return run(ctx)
    print("replay of", case.get("state"), "nv", case.get("nv"), "nh", case.get("nh"), "observable", case.get("observable"))
    check_state(ctx, case["state"], case["nv"], case["nh"], case.get("na", 0), case["params"], very_long=True)
    for f in ctx.failures[:5]:
        print("  fails:", f["what"], f["detail"][:200])
