"""C04 — Measurement-basis rotations equal the tensor-product unitary they denote.

Observed: return values of qucumber.utils.unitaries.rotate_psi / rotate_rho / rotate_psi_inner_prod /
rotate_rho_probs (plus create_dict), on real Positive/ComplexWaveFunction and DensityMatrix objects and on
explicitly supplied complex psi / Hermitian as well as non-Hermitian complex rho (seed round 8: every structure of PSI_TAGS /
RHO_TAGS; no symmetry, positivity or normalisation of an explicit array is assumed by any relation except non-negativity for "psd").

Correspondence: the extracted Coq model (Unitaries.rotate_psi, rotate_rho, rotate_psi_inner_prod,
rotate_rho_probs, expansions, ut_coeff, lookup / U_X U_Y U_Z; KronIndex.kron_index = the index-level loops)
on the same arrays.
Oracle (independent of the code under test): dense numpy Kronecker product U of the per-site matrices:
U psi, U rho U^dagger, (U psi)[idx s], diag(U rho U^dagger)[idx s]; rotated probabilities >= -tol and summing
to the normalisation; default dictionary: Z = I, X/Y unitary with rows = bras of the +1/-1 eigenvectors of
the Pauli matrices (written down here, not taken from the library).
Beyond the dense oracle (n > 20 sites, k <= 3 rotated sites): the fast paths against the 2^k-term expansion
sum_v prod_j U_j[s_j, v_j] psi(v) written out here, with psi(v) from the numpy formula of the state (rho(v, v') from the
state's own vector call form).
Regimes of the calling program (red-team round 2): library calls under no_grad / inference_mode / enable_grad / default
dtype float32 or float64; explicit psi / rho, outcome batches and basis rows handed over as strided / transposed / sliced views;
explicit arrays whose number of sites differs from the state object's; include_extras as bool / numpy bool / int;
every returned tensor overwritten in place by the caller and the same calls repeated."""
import contextlib, functools, itertools, math, os, time
import numpy as np
import gen

RULE = ("state kinds {ComplexWaveFunction, PositiveWaveFunction (with unitaries= and with no dictionary at all -> create_dict() "
        "fallback), DensityMatrix with random non-zero-bias parameters; "
        "explicit arbitrary complex psi (Gaussian, site-wise rescaled, real, imaginary, sparse, one-hot, norm >> 1 / << 1: never normalised); "
        "explicit complex rho: Hermitian (PSD, indefinite) AND without that symmetry (general complex, real non-symmetric, complex symmetric, "
        "anti-Hermitian, upper / lower triangular, rank-one |a><b|, imaginary, complex diagonal, negative definite -- the diagonal of "
        "U rho U^dagger is then complex / negative and its real part is demanded), half of the explicit rho of the stream being non-Hermitian; "
        "every structure runs first as a fixed case through all four functions with include_extras default / False-like / True} x "
        "all 3^n basis strings over XYZ for n<=3 (quick) / n<=4 (thorough), random longer strings n<=6 (thorough: n<=7), strings with "
        "user-added random 2x2 unitaries (QR of complex Gaussians; passed via unitary_dict= or unitaries=, as tensor or "
        "nested list, optionally overriding X or Y [and Z: see Z_OVERRIDE_MODE]); basis given as str / list / numpy row (also a strided, "
        "column-major or reversed view); x random batches of outcome states (repeats, any order; contiguous / strided / column-major) plus the full "
        "space; explicit psi / rho as contiguous tensors and as views (block of a larger array, transposed buffer, re/im interleaved, every "
        "second column), also with a number of sites different from the state object's; calling modes {ambient, no_grad, inference_mode, "
        "enable_grad, default dtype float32 / float64}; include_extras as bool / numpy bool / int; every returned tensor overwritten by the caller and "
        "the calls repeated; n in {21, 25, 40} (thorough: also 30, 60) with k <= 3 rotated sites (sparse 2^k-term oracle) for the fast paths; "
        "fixed cases of every one of these regimes run first; a case is (state kind, n, basis string, dictionary, batch, mode, layouts); "
        "non-trivial := basis contains Y and differs from its site-reversal")
ASSUMPTIONS = ["the fast paths' theorems (C04_inner_prod_fastpath, C04_rho_probs_fastpath_*) are about dictionaries in which the letter Z denotes the "
               "identity (lookup _ LZ = I by definition); with Z overridden the implementation's fast paths deviate (known finding F-C04-z-override)",
               "numpy kron / matmul on complex128 are the reference for the dense tensor product",
               "outcome batches are 2-D double tensors (the library's data type; contiguous or strided views); other dtypes are not generated",
               "n > 20 sites (no dense oracle): psi(v) on the 2^k expansions comes from the numpy formula of the state (C01), rho(v, v') on the "
               "expansions of one outcome from the state's own batched rho on those 2^k rows (C02); k <= 3 rotated sites",
               "an explicit psi / rho is rotated with whatever state object is handed over (it supplies dictionary and device only): its number of "
               "sites may differ from the array's (red-team C04_3 judged IN scope: the statement does not tie the explicit array to the state's size)",
               "returned tensors that are views of the caller's own arguments (the expanded states of an all-Z basis) are not overwritten in the "
               "overwrite-and-repeat relation",
               "explicit non-Hermitian rho (seed round 8, judged IN: the quantifier names non-symmetric complex rho supplied explicitly): rotate_rho_probs "
               "(both include_extras values, and the value returned next to the extras) is held to Re diag(U rho U^dagger) on every such matrix; "
               "rotate_rho returned (U rho U^dagger)^dagger on them until the repair 209e65c of /repo (finding F-C04-rotate-rho-adjoint, fixed); its dense "
               "oracle U rho U^dagger is demanded on every explicit matrix (C04_NONHERM_ROTATE_RHO=skip switches that off for experiments), and theorem "
               "C04_rotate_rho_is_UrhoUdag no longer carries a Hermiticity hypothesis"]
# Overriding Z by a non-identity matrix: the sweep (rotate_psi / rotate_rho) uses the overriding matrix, the fast paths
# (_rotate_basis_state) skip every site whose LETTER is "Z".  In-quantifier failing input on the unchanged tree; the
# integrator registered it as the OPEN known finding F-C04-z-override (match {"z_overridden": true, "call": "fastpath"}).
# "on": generated unconditionally; fast-path oracle failures of these cases carry exactly those keys and are printed as
# KNOWN-FINDING, every other failure (e.g. of the sweep with an overridden Z) is a violation.  "skip": not generated,
# counted as skipped_z_override in the evidence.
Z_OVERRIDE_MODE = os.environ.get("C04_Z_OVERRIDE", "on")        # env override for experiments

# rotate_rho on an explicit rho that is NOT Hermitian (seed round 8 widened the explicit matrices to the non-Hermitian ones the
# quantifier names): the unchanged tree returns U rho^dagger U^dagger = (U rho U^dagger)^dagger -- the second sweep is applied to
# cplx.conjugate (= conjugate TRANSPOSE) of U rho -- for EVERY basis, the all-Z one included; for a Hermitian rho the two coincide
# (theorem C04_rotate_rho_is_UrhoUdag / DESIGN 5 C04 thm 3 carry the hypothesis "rho Hermitian").  Failing input on the unchanged
# tree: n = 1, basis "Z", rho = [[0, 1], [0, 0]] -> rotate_rho gives [[0, 0], [1, 0]].
# "on": the dense oracle is demanded; its failures on such inputs carry {"rho_nonhermitian": true, "call": "rotate_rho"} so that
# the integrator can register an OPEN known finding with exactly that match (or repair /repo, after which "on" is silent).
# "skip": the oracle is not evaluated on these inputs (counted as skipped_rotate_rho_nonhermitian_oracle) and a NOTE line says so
# on every run; the correspondence with the model (which transcribes the code: sweep, conjugate transpose, sweep) is evaluated in
# both modes.  Default "auto": "on" as soon as known_findings.json holds an entry (open or fixed) for C04 whose match names
# rho_nonhermitian, "skip" until then (the builder of this check cannot register findings).  rotate_rho_probs is NOT affected:
# Re diag(U rho U^dagger) = Re diag((U rho U^dagger)^dagger), and its oracle is demanded for every explicit matrix.
# Since the repair 209e65c of /repo (rho_r = conjugate(K(conjugate(K(rho))))) and the matching model change the default is "on".
NONHERM_ROTATE_RHO_MODE = os.environ.get("C04_NONHERM_ROTATE_RHO", "on")        # env override for experiments


def rr_on(ctx):
    """is rotate_rho's dense oracle demanded on non-Hermitian explicit matrices?"""
    if NONHERM_ROTATE_RHO_MODE in ("on", "skip"):
        return NONHERM_ROTATE_RHO_MODE == "on"
    return any("rho_nonhermitian" in (k.get("match") or {}) for k in (getattr(ctx, "known", None) or []))     # ctx.known: this property's entries


def non_hermitian(r):
    r = np.asarray(r)
    return bool(np.abs(r - r.conj().T).max() > 1e-12 * max(float(np.abs(r).max()), 1e-300))


S2 = math.sqrt(2.0)
# rows = bras of the +1 / -1 eigenvectors of the Pauli matrices
REF = {"X": np.array([[1, 1], [1, -1]], dtype=complex) / S2,
       "Y": np.array([[1, -1j], [1, 1j]], dtype=complex) / S2,
       "Z": np.eye(2, dtype=complex)}
PAULI = {"X": np.array([[0, 1], [1, 0]], dtype=complex),
         "Y": np.array([[0, -1j], [1j, 0]], dtype=complex),
         "Z": np.array([[1, 0], [0, -1]], dtype=complex)}
# names of user-added unitaries: any dictionary key is a letter -- upper / lower case (lower-case twins of X, Y, Z and of
# other user letters carry DIFFERENT matrices), digits, non-ASCII, multi-character (then the basis is a list / numpy row)
USER_NAMES = ["H", "S", "A", "B", "Q", "x", "y", "z", "h", "s", "a", "7", "0", "\u00e9", "\u03a9", "Hd", "X2", "\u03b1\u03b2", "xx"]
# create_dict(**kw) accepts tensors, float64 ndarrays and nested Python lists.  (The nested-list form used to be
# rounded to single precision -- torch.tensor(list) is float32 -- repaired in /repo commit b4d870a; it is generated
# unconditionally so that a regression is reported.)
PROBE_LIST_FORM = True
USER_FORMS = ["tensor", "ndarray", "list"]


# ----------------------------------------------------------------------------- helpers
def cnp(t):
    """library complex tensor (2, ...) -> numpy complex"""
    a = t.detach().cpu().numpy()
    return a[0] + 1j * a[1]


def cl(z):
    """numpy complex array -> nested lists of [re, im] for the model"""
    z = np.asarray(z)
    if z.ndim == 0:
        return [float(z.real), float(z.imag)]
    return [cl(x) for x in z]


def from_model_c(x):
    a = np.asarray(x, dtype=float)
    return a[..., 0] + 1j * a[..., 1]


def stack(z, dtype="double", layout="contiguous"):
    """explicit psi / rho as the library's [re, im] stack; the functions convert whatever dtype they are handed to double
    (generated with exactly representable data, so the double-precision result is demanded); layout: see lay()"""
    import torch
    z = np.asarray(z)
    t = torch.tensor(np.stack([z.real, z.imag]), dtype=torch.double)
    return lay(t if dtype == "double" else t.to(getattr(torch, dtype)), layout)


MODES = ["ambient", "no_grad", "inference_mode", "enable_grad", "default_float32", "default_float64"]
LAYOUTS = ["contiguous", "block", "transposed", "interleaved", "step"]
STATE_LAYOUTS = ["contiguous", "step", "column-major", "block"]
BASIS_VIEWS = ["ndarray_step", "ndarray_column", "ndarray_reversed"]
FLAGS = {"bool": (True, False), "numpy": (np.True_, np.False_), "int": (1, 0)}


@contextlib.contextmanager
def dtype_mode(mode):
    """a calling program sets the default dtype once (float32 is torch's own default, float64 common in numerical work): states
    are built AND used under it"""
    import torch
    if mode in ("default_float32", "default_float64"):
        old = torch.get_default_dtype()
        torch.set_default_dtype(torch.float32 if mode == "default_float32" else torch.float64)
        try:
            yield
        finally:
            torch.set_default_dtype(old)
    else:
        yield


@contextlib.contextmanager
def grad_mode(mode):
    import torch
    if mode == "no_grad":
        with torch.no_grad():
            yield
    elif mode == "inference_mode":
        with torch.inference_mode():
            yield
    elif mode == "enable_grad":
        with torch.enable_grad():
            yield
    else:
        yield


def lay(t, layout):
    """the same values as the contiguous tensor t (leading axis = re / im, or a batch of rows), held in the caller's memory
    the way `layout` says; every result is a legal torch view"""
    import torch
    if layout in (None, "contiguous"):
        return t
    if layout == "block":               # a block of a larger array (junk around it)
        big = torch.full(tuple(t.shape[:1]) + tuple(d + 2 for d in t.shape[1:]), 3, dtype=t.dtype)
        idx = (slice(None),) + tuple(slice(1, d + 1) for d in t.shape[1:])
        big[idx] = t
        return big[idx]
    if layout == "transposed":          # the buffer holds the transposed data; the caller hands over its transpose
        perm = list(range(t.dim()))[::-1]
        return t.permute(perm).contiguous().permute(perm)
    if layout == "column-major":
        return t.t().contiguous().t()
    if layout == "interleaved":         # (..., 2) memory, as torch.view_as_real of a complex tensor gives
        return t.movedim(0, -1).contiguous().movedim(-1, 0)
    if layout == "step":                # every second column of a wider table
        wide = torch.full(tuple(t.shape[:-1]) + (2 * t.shape[-1],), 5, dtype=t.dtype)
        wide[..., ::2] = t
        return wide[..., ::2]
    raise ValueError(layout)


def storage_of(t):
    try:
        return t.untyped_storage().data_ptr()
    except Exception:
        return None


def overwrite(ts, args=()):
    """the caller scribbles over tensors the library returned to him -- except those that are views of HIS OWN arguments
    (the expanded states of an all-Z basis are a view of the batch he passed: writing to them would change the arguments)"""
    import torch
    own = set(storage_of(a) for a in args if isinstance(a, torch.Tensor))
    n = 0
    with torch.no_grad():
        for t in ts:
            if isinstance(t, torch.Tensor) and storage_of(t) not in own:
                try:
                    t.mul_(0).add_(7); n += 1
                except Exception:
                    pass
    return n


def rand_unitary(rng):
    g = rng.normal(size=(2, 2)) + 1j * rng.normal(size=(2, 2))
    q, r = np.linalg.qr(g)
    d = np.diag(r)
    return q * (d / np.abs(d))


def dense_U(basis, dnp):
    return functools.reduce(np.kron, [dnp[b] for b in basis])


def idx_of(states):
    states = np.asarray(states, dtype=float)
    n = states.shape[-1]
    return (states @ (2.0 ** np.arange(n - 1, -1, -1))).round().astype(int)


def letters_for_model(basis, user):
    """user: ordered dict letter -> complex 2x2 (may override X / Y).  Model letters: 0 X, 1 Y, 2 Z, 3+k user[k]."""
    names = list(user.keys())
    out = []
    for b in basis:
        if b in user:
            out.append(3 + names.index(b))
        else:
            out.append("XYZ".index(b))
    return out, [cl(user[k]) for k in names]


def nontrivial(basis):
    basis = list(basis)
    return ("Y" in basis) and (basis != basis[::-1])


def z_overridden(spec):
    u = spec.get("user", {}).get("Z")
    return u is not None and not np.allclose(np.array(u[0]) + 1j * np.array(u[1]), np.eye(2), rtol=0, atol=0)


def basis_in_form(basis, f):
    """the basis in the form the caller passes it: str (single-character names only), list of names, numpy row of names"""
    if f == "ndarray":
        return np.array(list(basis))
    if f == "ndarray_step":             # every second entry of a wider row of names
        a = np.array(list(basis))
        wide = np.full(2 * len(a), "Z", dtype=a.dtype)
        wide[::2] = a
        return wide[::2]
    if f == "ndarray_column":           # one row of a column-major table of bases
        return np.asfortranarray(np.array([list(basis), list(basis)[::-1], list(basis)]))[0]
    if f == "ndarray_reversed":         # a reversed view (negative stride)
        return np.array(list(basis)[::-1])[::-1]
    if f == "str" and all(len(b) == 1 for b in basis):
        return "".join(basis)
    return list(basis)


def basis_arg(spec):
    return basis_in_form(spec["basis"], spec.get("basis_form", "str"))


def close_c(got, want, bound):
    """|got - want| <= 1e-9 |want| + 1e-10 * bound elementwise; bound = |U| |x| (the size of the summands)"""
    got, want = np.asarray(got), np.asarray(want)
    if got.shape != want.shape:
        return False
    return bool(np.all(np.abs(got - want) <= 1e-9 * np.abs(want) + 1e-10 * np.asarray(bound) + 1e-300))


def to_c22(t):
    """a dictionary entry as a complex 2x2 matrix, or None"""
    try:
        u = cnp(t)
        return u if u.shape == (2, 2) else None
    except Exception:
        return None


# ----------------------------------------------------------------------------- building the state of a spec
def build(spec):
    """Returns (nn_state, unitaries_arg, dictionary actually used as numpy, user matrices, model (arg, state) tables)."""
    import torch
    from qucumber.nn_states import ComplexWaveFunction, PositiveWaveFunction, DensityMatrix
    from qucumber.utils import unitaries as UU
    kind, n = spec["kind"], spec["n"]
    user = {k: np.array(v[0]) + 1j * np.array(v[1]) for k, v in spec["user"].items()}
    kw = {}
    for k, m in user.items():
        t = np.stack([m.real, m.imag])
        form = spec.get("user_form", "tensor")
        kw[k] = torch.tensor(t, dtype=torch.double) if form == "tensor" else (t.tolist() if form == "list" else t)
    d = UU.create_dict(**kw)
    route = spec.get("route", "ctor")
    if kind == "positive" and route == "ctor":
        route = "arg"                       # PositiveWaveFunction carries no dictionary
    if route == "none" and (kind != "positive" or user):
        route = "arg"
    ctor_dict = d if route == "ctor" else None
    # explicit psi / rho: the state object only supplies the dictionary and the device; it may have another number of sites
    ns = int(spec.get("n_state") or n) if kind in ("psi", "rho") else n
    if kind in ("complex", "psi"):
        s = ComplexWaveFunction(ns, spec.get("nh", ns), unitary_dict=ctor_dict, gpu=False)
    elif kind == "positive":
        s = PositiveWaveFunction(n, spec.get("nh", n), gpu=False)
    else:
        s = DensityMatrix(ns, spec.get("nh", ns), spec.get("na", ns), unitary_dict=ctor_dict, gpu=False)
    p = spec.get("params")
    if p is not None:
        if kind == "positive":
            gen.set_brbm(s.rbm_am, *[np.array(x) for x in p["am"]])
        elif kind == "complex":
            gen.set_brbm(s.rbm_am, *[np.array(x) for x in p["am"]])
            gen.set_brbm(s.rbm_ph, *[np.array(x) for x in p["ph"]])
        elif kind == "dm":
            gen.set_prbm(s.rbm_am, *[np.array(x) for x in p["am"]])
            gen.set_prbm(s.rbm_ph, *[np.array(x) for x in p["ph"]])
    uarg = d if route == "arg" else None
    if route == "arg":
        used = d
    elif route == "none":
        used = UU.create_dict()             # what the fallback must amount to (checked against the facts + the model)
    else:
        used = s.unitary_dict
    dnp = {k: to_c22(v) for k, v in used.items()}
    return s, uarg, dnp, user, route


def spec_desc(spec):
    return {"kind": spec["kind"], "n": spec["n"], "basis": spec["basis"], "user": sorted(spec["user"].keys()), "xdtype": spec.get("explicit_dtype"),
            "route": spec.get("route"), "form": spec.get("user_form"), "bform": spec.get("basis_form"), "tag": spec.get("tag"),
            "nstates": len(spec["states"]), "mode": spec.get("mode"), "layout": spec.get("layout"), "slayout": spec.get("states_layout"),
            "n_state": spec.get("n_state"), "flag": spec.get("flag")}


def extras_ok(out, n_terms_dims):
    """include_extras=True: (value, per-term products, expanded states); anything else is not examined"""
    try:
        if not (isinstance(out, (tuple, list)) and len(out) == 3):
            return False
        val, terms, v = out
        return terms.dim() == n_terms_dims and v.dim() == 3 and terms.shape[0] == 2
    except Exception:
        return False


# ----------------------------------------------------------------------------- one case
def check_spec(ctx, spec):
    """Run every observable of the property on one (state, dictionary, basis, batch), the library being built and called
    under the regime spec["mode"] of the calling program."""
    mode = spec.get("mode") or "ambient"
    with dtype_mode(mode):
        built = build(spec)
        with grad_mode(mode):
            _check_spec(ctx, spec, built)


def value_alone(out):
    import torch
    return isinstance(out, torch.Tensor)


def same_structure(a, b):
    """two results of the same call: same nesting, shapes and values"""
    import torch
    if isinstance(a, (tuple, list)) or isinstance(b, (tuple, list)):
        return isinstance(a, (tuple, list)) and isinstance(b, (tuple, list)) and len(a) == len(b) and all(same_structure(x, y) for x, y in zip(a, b))
    if isinstance(a, torch.Tensor) and isinstance(b, torch.Tensor):
        return tuple(a.shape) == tuple(b.shape) and bool(torch.allclose(a.double(), b.double(), rtol=1e-12, atol=0, equal_nan=True))
    return type(a) == type(b)


def _check_spec(ctx, spec, built):
    import torch
    from qucumber.utils import unitaries as UU
    m = ctx.get_model()
    kind, n, basis = spec["kind"], spec["n"], spec["basis"]
    zov = z_overridden(spec)
    case = dict(spec, z_overridden=True) if zov else spec
    cfp = dict(case, call="fastpath") if zov else case       # tag for the fast-path oracles (known-finding match)
    hist = "every tensor returned so far overwritten in place by the caller (t.mul_(0).add_(7)), then the same call again with the same arguments"
    s, uarg, dnp, user, route = built
    barg = basis_arg(spec)
    space = s.generate_hilbert_space(n)
    states = lay(torch.tensor(spec["states"], dtype=torch.double), spec.get("states_layout"))
    flag = spec.get("flag") or "bool"
    f_true, f_false = FLAGS[flag]
    kwf = {} if flag == "bool" else {"include_extras": f_false}      # the default, or "no extras" in another encoding
    rets = []                                                        # every tensor the library returned (they are the caller's)
    ctx.count("mode:" + (spec.get("mode") or "ambient")); ctx.count("flag:" + flag)
    ctx.count("states_layout:" + (spec.get("states_layout") or "contiguous"))
    if kind in ("psi", "rho"):
        ctx.count("explicit_layout:" + (spec.get("layout") or "contiguous"))
        ctx.count("explicit_sites_vs_state:" + ("same" if int(spec.get("n_state") or n) == n else "different"))
    sidx = idx_of(spec["states"])
    full = space.clone()
    lets, userl = letters_for_model(basis, user)
    ctx.case(spec_desc(spec), nontrivial=nontrivial(basis))
    ctx.count("kind:" + kind); ctx.count("n:%d" % n); ctx.count("route:" + route); ctx.count("basis_form:" + spec.get("basis_form", "str"))
    if "Y" in basis:
        ctx.count("basis_has_Y")
    if spec["user"]:
        ctx.count("user_unitaries")
    if zov:
        ctx.count("z_overridden")
    missing = [b for b in basis if dnp.get(b) is None]
    if missing:
        ctx.require("dictionary holds a 2x2 matrix for every letter of the basis", False, case, missing)
        return
    U = dense_U(basis, dnp)
    aU = np.abs(U)
    # the dictionary the functions use: user-supplied matrices are taken as given (property: "user-added unitaries");
    # the default letters are tied to the model's dictionary (correspondence) and to the Pauli facts in check_default_dict
    if route == "none":
        ml = m.call("c04_lookup_resolved", [], [], lets)
    elif route == "arg":
        ml = m.call("c04_lookup_resolved", [userl], [], lets)
    else:
        ml = m.call("c04_lookup_resolved", [], [userl], lets)
    for b, mu in zip(basis, ml):
        mu = from_model_c(mu)
        if b in user:
            ctx.require("dictionary entry == user-supplied matrix", np.allclose(dnp[b], user[b], rtol=0, atol=1e-12), case,
                        {"letter": b, "got": cl(dnp[b]), "want": cl(user[b])})
        ctx.agree("dictionary entry vs model lookup", [dnp[b].real, dnp[b].imag], [mu.real, mu.imag], case)

    if kind in ("complex", "positive", "psi"):
        # ------------------------------------------------------------------ wavefunctions
        if kind == "psi":
            psi_np = np.array(spec["psi"][0]) + 1j * np.array(spec["psi"][1])
            kwp = {"psi": stack(psi_np, spec.get("explicit_dtype", "double"), spec.get("layout"))}
            ctx.count("explicit_dtype:" + spec.get("explicit_dtype", "double"))
        else:
            ok, psi0 = ctx.call("psi(space)", case, lambda: s.psi(space))
            if not ok:
                return
            psi_np = cnp(psi0)
            kwp = {}
            if not np.all(np.isfinite(psi_np)) or np.abs(psi_np).max() > 1e150:
                ctx.count("skipped_overflow")
                return
        l1 = float(np.abs(psi_np).sum())
        want = U @ psi_np
        bnd = aU @ np.abs(psi_np)
        # rotate_psi
        ok, out = ctx.call("rotate_psi", case, lambda: UU.rotate_psi(s, barg, space, unitaries=uarg, **kwp))
        if ok:
            rets.append(out)
            got = cnp(out)
            ctx.require("rotate_psi == (U_0 (x) ... (x) U_{n-1}) psi", close_c(got, want, bnd), case,
                        {"got": cl(got), "want": cl(want)})
            r = m.call("c04_rotate_psi", userl, lets, cl(psi_np))
            if ctx.agree_exact("rotate_psi accepted by impl and model", True, len(r[0]) == 1, case):
                ctx.agree("rotate_psi vs model (index-level loops)", [got.real, got.imag],
                          [from_model_c(r[0][0]).real, from_model_c(r[0][0]).imag], case, scale=l1)
            ctx.agree("rotate_psi vs model (structural)", [got.real, got.imag],
                      [from_model_c(r[1]).real, from_model_c(r[1]).imag], case, scale=l1)
            tot = float((np.abs(got) ** 2).sum())
            if kind != "psi":
                ok2, Z = ctx.call("normalization", case, lambda: float(s.normalization(space)))
            else:
                ok2, Z = True, float((np.abs(psi_np) ** 2).sum())
            if ok2:
                ctx.require("rotated probabilities sum to the normalisation", math.isclose(tot, Z, rel_tol=1e-8), case,
                            {"sum": tot, "normalisation": Z})
        # rotate_psi_inner_prod on the batch
        fp_ok = True
        ok, out = ctx.call("rotate_psi_inner_prod", cfp,
                           lambda: UU.rotate_psi_inner_prod(s, barg, states, unitaries=uarg, **kwp, **kwf))
        if ok and ctx.require("rotate_psi_inner_prod without extras (default / False / numpy False / 0) returns the amplitudes alone", value_alone(out), cfp,
                              {"include_extras": repr(kwf.get("include_extras", "default")), "returned": type(out).__name__}):
            rets.append(out)
            got = cnp(out)
            fp_ok = ctx.require("rotate_psi_inner_prod == (U psi)[idx s]", close_c(got, want[sidx], bnd[sidx]), cfp,
                                {"got": cl(got), "want": cl(want[sidx])})
            if fp_ok or not zov:
                r = from_model_c(m.call("c04_inner_prod", userl, lets, cl(psi_np), spec["states"]))
                ctx.agree("rotate_psi_inner_prod vs model", [got.real, got.imag], [r.real, r.imag], case, scale=l1)
        # the full space, shuffled: probabilities non-negative by construction, must sum to the normalisation
        perm = np.array(spec.get("perm", list(range(2 ** n))))
        ok, out = ctx.call("rotate_psi_inner_prod(full space)", cfp,
                           lambda: UU.rotate_psi_inner_prod(s, barg, full[perm], unitaries=uarg, **kwp))
        if ok:
            rets.append(out)
            got = cnp(out)
            ctx.require("rotate_psi_inner_prod over the whole space == U psi (permuted)", close_c(got, want[perm], bnd[perm]), cfp,
                        {"got": cl(got), "want": cl(want[perm])})
            tot = float((np.abs(got) ** 2).sum()) if got.ndim == 1 else float("nan")
            ref = float((np.abs(psi_np) ** 2).sum())
            ctx.require("sum_s |<s|U psi>|^2 == sum |psi|^2", math.isclose(tot, ref, rel_tol=1e-8), cfp, {"sum": tot, "ref": ref})
        # include_extras=True: the call must work; the layout of the extras is not part of the property, so it is
        # compared with the model only when it has the present layout, as sets keyed by the expanded state
        ok, out = ctx.call("rotate_psi_inner_prod(include_extras)", cfp,
                           lambda: UU.rotate_psi_inner_prod(s, barg, states, unitaries=uarg, include_extras=f_true, **kwp))
        if ok and isinstance(out, (tuple, list)) and len(out) >= 1 and value_alone(out[0]):
            # the value handed back next to the extras IS the rotated amplitude of the batch (it feeds the gradients): property oracle,
            # whatever the layout of the extras
            gv = cnp(out[0])
            ctx.require("rotate_psi_inner_prod(include_extras=True)[0] == (U psi)[idx s]", close_c(gv, want[sidx], bnd[sidx]), cfp,
                        {"include_extras": repr(f_true), "got": cl(gv), "want": cl(want[sidx])})
        if ok and flag != "bool":
            # the flag's encoding does not matter: same result (structure and values) as with the Python constant True
            ok3, out3 = ctx.call("rotate_psi_inner_prod(include_extras=True)", cfp,
                                 lambda: UU.rotate_psi_inner_prod(s, barg, states, unitaries=uarg, include_extras=True, **kwp))
            if ok3:
                ctx.require("rotate_psi_inner_prod: include_extras given as numpy bool / int gives what include_extras=True gives", same_structure(out, out3), cfp,
                            {"include_extras": repr(f_true), "returned": type(out).__name__, "with True": type(out3).__name__})
                rets.extend(out3 if isinstance(out3, (tuple, list)) else [out3])
        if ok:
            rets.extend(out if isinstance(out, (tuple, list)) else [out])
        if ok and not extras_ok(out, 3):
            ctx.count("extras_layout_not_examined")
        elif ok and (fp_ok or not zov):
            Upsi, Upsi_v, v = out
            ex = m.call("c04_expansions", userl, lets, spec["states"])
            vi = v.detach().cpu().numpy().round().astype(int)
            terms = cnp(Upsi_v)
            if vi.shape[1] == len(sidx) and terms.shape[1] == len(sidx):
                for b in range(len(sidx)):
                    mv = np.array([[int(x) for x in row] for row in ex[b][0]])
                    if vi[:, b, :].shape != mv.shape:
                        ctx.count("extras_layout_not_examined")
                        continue
                    oi, om = np.argsort(idx_of(vi[:, b, :]), kind="stable"), np.argsort(idx_of(mv), kind="stable")
                    if ctx.agree_exact("expanded basis states v (as a set)", vi[oi, b, :].tolist(), mv[om].tolist(), case):
                        ut = from_model_c(ex[b][1])
                        tv = (ut * psi_np[idx_of(mv)])[om]
                        ctx.agree("terms Ut(v) psi(v)", [terms[oi, b].real, terms[oi, b].imag], [tv.real, tv.imag], case, scale=l1)
                gv = cnp(Upsi)
                ctx.agree("extras: value vs (U psi)[idx s]", [gv.real, gv.imag], [want[sidx].real, want[sidx].imag], case, scale=l1)
            else:
                ctx.count("extras_layout_not_examined")
        # the caller overwrites what he was handed, then makes the same calls with the same arguments (his explicit psi included)
        if overwrite(rets, [space, states, full] + list(kwp.values())):
            ctx.count("returned_tensors_overwritten_before_the_repeated_call")
        for rnd in range(2):        # second round: each call right after its OWN result was overwritten
            ok, out = ctx.call("rotate_psi (repeated)", dict(case, history=hist), lambda: UU.rotate_psi(s, barg, space, unitaries=uarg, **kwp))
            if ok:
                ctx.require("rotate_psi == (U_0 (x) ... (x) U_{n-1}) psi, called again after the caller overwrote the returned tensors",
                            close_c(cnp(out), want, bnd), dict(case, history=hist), {"got": cl(cnp(out)), "want": cl(want)})
                overwrite([out], [space, states, full] + list(kwp.values()))
        for rnd in range(2):
            ok, out = ctx.call("rotate_psi_inner_prod (repeated)", dict(cfp, history=hist),
                               lambda: UU.rotate_psi_inner_prod(s, barg, states, unitaries=uarg, **kwp))
            if ok and value_alone(out):
                ctx.require("rotate_psi_inner_prod == (U psi)[idx s], called again after the caller overwrote the returned tensors",
                            close_c(cnp(out), want[sidx], bnd[sidx]), dict(cfp, history=hist), {"got": cl(cnp(out)), "want": cl(want[sidx])})
                overwrite([out], [space, states, full] + list(kwp.values()))
    else:
        # ------------------------------------------------------------------ density matrices
        if kind == "rho":
            rho_np = np.array(spec["rho"][0]) + 1j * np.array(spec["rho"][1])
            kwr = {"rho": stack(rho_np, spec.get("explicit_dtype", "double"), spec.get("layout"))}
            ctx.count("explicit_dtype:" + spec.get("explicit_dtype", "double"))
        else:
            ok, rho0 = ctx.call("rho(space, space)", case, lambda: s.rho(space, space))
            if not ok:
                return
            rho_np = cnp(rho0)
            kwr = {}
            if not np.all(np.isfinite(rho_np)) or np.abs(rho_np).max() > 1e150:
                ctx.count("skipped_overflow")
                return
        l1 = float(np.abs(rho_np).sum())
        want = U @ rho_np @ U.conj().T
        bnd = aU @ np.abs(rho_np) @ aU.T
        wd, bd = np.real(np.diag(want)), np.diag(bnd)
        nonherm = kind == "rho" and non_hermitian(rho_np)
        crr = dict(case, rho_nonhermitian=True, call="rotate_rho") if nonherm else case      # tag for rotate_rho's dense oracle (see NONHERM_ROTATE_RHO_MODE)
        rr_oracle = not (nonherm and not rr_on(ctx))
        if nonherm:
            ctx.count("explicit_rho_non_hermitian")
            if not rr_oracle:
                ctx.count("skipped_rotate_rho_nonhermitian_oracle")
        ok, out = ctx.call("rotate_rho", case, lambda: UU.rotate_rho(s, barg, space, unitaries=uarg, **kwr))
        if ok:
            rets.append(out)
            got = cnp(out)
            if rr_oracle:
                ctx.require("rotate_rho == U rho U^dagger", close_c(got, want, bnd), crr,
                            {"got": cl(got) if n <= 2 else "omitted", "maxdiff": float(np.abs(got - want).max()) if got.shape == want.shape else None})
            r = m.call("c04_rotate_rho", userl, lets, cl(rho_np))
            if ctx.agree_exact("rotate_rho accepted by impl and model", True, len(r[0]) == 1, case):
                mi = from_model_c(r[0][0])
                ctx.agree("rotate_rho vs model (index-level loops)", [got.real, got.imag], [mi.real, mi.imag], case, scale=l1)
            ms = from_model_c(r[1])
            ctx.agree("rotate_rho vs model (structural)", [got.real, got.imag], [ms.real, ms.imag], case, scale=l1)
        fp_ok = True
        ok, out = ctx.call("rotate_rho_probs", cfp, lambda: UU.rotate_rho_probs(s, barg, states, unitaries=uarg, **kwr, **kwf))
        if ok and ctx.require("rotate_rho_probs without extras (default / False / numpy False / 0) returns the probabilities alone", value_alone(out), cfp,
                              {"include_extras": repr(kwf.get("include_extras", "default")), "returned": type(out).__name__}):
            rets.append(out)
            got = out.detach().cpu().numpy()
            fp_ok = ctx.require("rotate_rho_probs == diag(U rho U^dagger)[idx s]", close_c(got, wd[sidx], bd[sidx]), cfp,
                                {"got": got.tolist(), "want": wd[sidx].tolist()})
            if fp_ok or not zov:
                r = m.call("c04_rho_probs", userl, lets, cl(rho_np), spec["states"])
                ctx.agree("rotate_rho_probs vs model", got, r, case, scale=l1)
        perm = np.array(spec.get("perm", list(range(2 ** n))))
        ok, out = ctx.call("rotate_rho_probs(full space)", cfp,
                           lambda: UU.rotate_rho_probs(s, barg, full[perm], unitaries=uarg, **kwr))
        if ok:
            rets.append(out)
            got = out.detach().cpu().numpy()
            ctx.require("rotate_rho_probs over the whole space == diag(U rho U^dagger) (permuted)", close_c(got, wd[perm], bd[perm]), cfp,
                        {"got": got.tolist(), "want": wd[perm].tolist()})
            tr = float(np.real(np.trace(rho_np)))
            if kind == "dm":
                ok2, Z = ctx.call("normalization", case, lambda: float(s.normalization(space)))
                if ok2:
                    ctx.require("rotated probabilities sum to the normalisation", math.isclose(float(got.sum()), Z, rel_tol=1e-8,
                                abs_tol=1e-10 * l1), cfp, {"sum": float(got.sum()), "normalisation": Z})
            else:
                ctx.require("rotated probabilities sum to tr rho", math.isclose(float(got.sum()), tr, rel_tol=1e-8, abs_tol=1e-10 * l1),
                            cfp, {"sum": float(got.sum()), "trace": tr})
            if kind == "dm" or spec.get("tag") == "psd":
                ctx.require("rotated probabilities of a physical state are non-negative", bool(np.all(got >= -1e-12 * max(1.0, l1))), cfp,
                            {"min": float(got.min())})
        ok, out = ctx.call("rotate_rho_probs(include_extras)", cfp,
                           lambda: UU.rotate_rho_probs(s, barg, states, unitaries=uarg, include_extras=f_true, **kwr))
        if ok and isinstance(out, (tuple, list)) and len(out) >= 1 and value_alone(out[0]):
            gP = out[0].detach().cpu().numpy()       # the probabilities handed back next to the extras: property oracle
            ctx.require("rotate_rho_probs(include_extras=True)[0] == diag(U rho U^dagger)[idx s]", close_c(gP, wd[sidx], bd[sidx]), cfp,
                        {"include_extras": repr(f_true), "got": gP.tolist(), "want": wd[sidx].tolist()})
        if ok and flag != "bool":
            ok3, out3 = ctx.call("rotate_rho_probs(include_extras=True)", cfp,
                                 lambda: UU.rotate_rho_probs(s, barg, states, unitaries=uarg, include_extras=True, **kwr))
            if ok3:
                ctx.require("rotate_rho_probs: include_extras given as numpy bool / int gives what include_extras=True gives", same_structure(out, out3), cfp,
                            {"include_extras": repr(f_true), "returned": type(out).__name__, "with True": type(out3).__name__})
                rets.extend(out3 if isinstance(out3, (tuple, list)) else [out3])
        if ok:
            rets.extend(out if isinstance(out, (tuple, list)) else [out])
        if ok and not extras_ok(out, 4):
            ctx.count("extras_layout_not_examined")
        elif ok and (fp_ok or not zov):
            P, P_v, v = out
            ex = m.call("c04_expansions", userl, lets, spec["states"])
            vi = v.detach().cpu().numpy().round().astype(int)
            terms = cnp(P_v)
            if vi.shape[1] == len(sidx) and terms.shape[-1] == len(sidx):
                for b in range(min(2, len(sidx))):
                    mv = np.array([[int(x) for x in row] for row in ex[b][0]])
                    if vi[:, b, :].shape != mv.shape or terms.shape[:2] != (len(mv), len(mv)):
                        ctx.count("extras_layout_not_examined")
                        continue
                    oi, om = np.argsort(idx_of(vi[:, b, :]), kind="stable"), np.argsort(idx_of(mv), kind="stable")
                    if ctx.agree_exact("expanded basis states v (as a set)", vi[oi, b, :].tolist(), mv[om].tolist(), case):
                        ut = from_model_c(ex[b][1])
                        ii = idx_of(mv)
                        tv = (np.outer(ut, ut.conj()) * rho_np[np.ix_(ii, ii)])[np.ix_(om, om)]
                        ti = terms[:, :, b][np.ix_(oi, oi)]
                        ctx.agree("terms Ut(v) conj Ut(v') rho(v,v')", [ti.real, ti.imag], [tv.real, tv.imag], case, scale=l1)
                gP = P.detach().cpu().numpy()
                ctx.agree("extras: value vs diag(U rho U^dagger)[idx s]", gP, wd[sidx], case, scale=l1)
            else:
                ctx.count("extras_layout_not_examined")
        if overwrite(rets, [space, states, full] + list(kwr.values())):
            ctx.count("returned_tensors_overwritten_before_the_repeated_call")
        for rnd in range(2):        # second round: each call right after its OWN result was overwritten
            ok, out = ctx.call("rotate_rho (repeated)", dict(case, history=hist), lambda: UU.rotate_rho(s, barg, space, unitaries=uarg, **kwr))
            if ok:
                if rr_oracle:
                    ctx.require("rotate_rho == U rho U^dagger, called again after the caller overwrote the returned tensors", close_c(cnp(out), want, bnd),
                                dict(crr, history=hist), {"maxdiff": float(np.abs(cnp(out) - want).max()) if cnp(out).shape == want.shape else None})
                overwrite([out], [space, states, full] + list(kwr.values()))
        for rnd in range(2):
            ok, out = ctx.call("rotate_rho_probs (repeated)", dict(cfp, history=hist), lambda: UU.rotate_rho_probs(s, barg, states, unitaries=uarg, **kwr))
            if ok and value_alone(out):
                got = out.detach().cpu().numpy().copy()
                ctx.require("rotate_rho_probs == diag(U rho U^dagger)[idx s], called again after the caller overwrote the returned tensors",
                            close_c(got, wd[sidx], bd[sidx]), dict(cfp, history=hist), {"got": got.tolist(), "want": wd[sidx].tolist()})
                overwrite([out], [space, states, full] + list(kwr.values()))
    ctx.traces += 1


# ----------------------------------------------------------------------------- dictionary facts
def dict_facts(ctx, d, case, label):
    """The property's statements about a default dictionary: Z -> I; X, Y unitary with rows = bras of the +1 / -1
    eigenvectors of the Pauli matrices (nothing about further keys, dtype, layout or phases)."""
    us = {}
    for name in "XYZ":
        u = to_c22(d[name]) if name in d else None
        if not ctx.require("%s maps %s to a 2x2 complex matrix ([re, im] stack)" % (label, name), u is not None, case, sorted(d.keys())):
            continue
        us[name] = u
        ctx.require("%s: %s is unitary (U U^dagger = I)" % (label, name), np.allclose(u @ u.conj().T, np.eye(2), rtol=0, atol=1e-12), case, cl(u))
        ctx.require("%s: %s is unitary (U^dagger U = I)" % (label, name), np.allclose(u.conj().T @ u, np.eye(2), rtol=0, atol=1e-12), case, cl(u))
        if name == "Z":
            ctx.require("%s: Z is the identity" % label, np.allclose(u, np.eye(2), rtol=0, atol=1e-15), case, cl(u))
        else:
            P = PAULI[name]
            for kk, lam in ((0, 1.0), (1, -1.0)):
                vec = u.conj().T[:, kk]          # U^dagger e_k
                ctx.require("%s: row %d of %s is the bra of the %+d eigenvector of Pauli %s" % (label, kk, name, int(lam), name),
                            np.allclose(P @ vec, lam * vec, rtol=0, atol=1e-12) and math.isclose(float(np.linalg.norm(vec)), 1.0, abs_tol=1e-12),
                            case, {"row": cl(u[kk]), "P v": cl(P @ vec)})
    if len(d) > 3:
        ctx.count("default_dictionary_has_further_keys")
    return us


def check_default_dict(ctx):
    import torch
    from qucumber.utils import unitaries as UU
    from qucumber.nn_states import ComplexWaveFunction, DensityMatrix
    m = ctx.get_model()
    case = {"call": "create_dict", "kwargs": {}}
    ctx.case({"call": "create_dict"}, nontrivial=True)
    ok, d = ctx.call("create_dict()", case, UU.create_dict)
    if not ok:
        return
    us = dict_facts(ctx, d, case, "create_dict()")
    mm = m.call("c04_default_dict")
    for k, name in enumerate("XYZ"):
        if name in us:
            mu = from_model_c(mm[k])
            ctx.agree("create_dict()[%s] vs model" % name, [us[name].real, us[name].imag], [mu.real, mu.imag], case)
    # fresh states carry a default dictionary with the same properties
    makers = ((lambda: ComplexWaveFunction(2, 2, gpu=False), "ComplexWaveFunction"), (lambda: DensityMatrix(2, 2, 2, gpu=False), "DensityMatrix"))
    olds = []
    for mk, nm in makers:
        ok, st = ctx.call(nm + " construction", case, mk)
        if ok:
            olds.append(st)
            us2 = dict_facts(ctx, st.unitary_dict, case, "fresh " + nm)
            for k, name in enumerate("XYZ"):
                if name in us2:
                    mu = from_model_c(mm[k])
                    ctx.agree("fresh %s dictionary [%s] vs model" % (nm, name), [us2[name].real, us2[name].imag], [mu.real, mu.imag], case)
    # history: a user edits HIS dictionary (and the dictionary of HIS state) in place; every dictionary made afterwards
    # and every state constructed afterwards must still carry the default X, Y, Z of the property
    case3 = {"call": "create_dict", "history": "in-place edits of an earlier create_dict() result and of earlier states' dictionaries"}
    ctx.case({"call": "create_dict", "history": "in-place edits"}, nontrivial=True)
    try:
        d["X"].mul_(3.0); d["Y"][0] += 1.0; d["Z"].zero_()
        for st in olds:
            st.unitary_dict["X"].zero_(); st.unitary_dict["Y"].neg_(); st.unitary_dict["Z"][1] += 0.5
            st.unitary_dict["W"] = st.unitary_dict["X"]
    except Exception:
        ctx.count("dictionary_not_editable_in_place")
    ok, d3 = ctx.call("create_dict() (second call)", case3, UU.create_dict)
    if ok:
        us3 = dict_facts(ctx, d3, case3, "create_dict() after another dictionary was edited in place")
        for k, name in enumerate("XYZ"):
            if name in us3:
                mu = from_model_c(mm[k])
                ctx.agree("second create_dict()[%s] vs model" % name, [us3[name].real, us3[name].imag], [mu.real, mu.imag], case3)
    for mk, nm in makers:
        ok, st = ctx.call(nm + " construction (second)", case3, mk)
        if ok:
            dict_facts(ctx, st.unitary_dict, case3, "fresh %s after other dictionaries were edited in place" % nm)
    # user-added matrices: present with the given values, overriding a default of the same name
    rng = ctx.rng
    a, b = rand_unitary(rng), rand_unitary(rng)
    ta = torch.tensor(np.stack([a.real, a.imag]), dtype=torch.float64)
    lb = np.stack([b.real, b.imag]).tolist()
    case2 = {"call": "create_dict", "kwargs": {"A": cl(a), "Y": cl(b)}, "user_form": "list"}
    ctx.case({"call": "create_dict", "kw": ["A", "Y"]}, nontrivial=True)
    ok, d2 = ctx.call("create_dict(A=tensor, Y=nested list)", case2, lambda: UU.create_dict(A=ta, Y=lb))
    if ok:
        g = {k: (to_c22(d2[k]) if k in d2 else None) for k in "AXYZ"}
        ctx.require("create_dict(**kw) holds the given operators (overriding a default of the same name) next to the other defaults",
                    all(v is not None for v in g.values()) and np.allclose(g["A"], a, rtol=0, atol=1e-15)
                    and np.allclose(g["Y"], b, rtol=0, atol=1e-15) and np.allclose(g["Z"], np.eye(2), rtol=0, atol=1e-15), case2,
                    {k: (cl(v) if v is not None else None) for k, v in g.items()})
        try:
            if d2["A"].data_ptr() == ta.data_ptr():
                ctx.count("create_dict_aliases_argument")
        except Exception:
            pass
        if all(v is not None for v in g.values()):
            lk = m.call("c04_lookup", [cl(a), cl(b)], [0, 4, 2, 3])          # X, Y:=user[1], Z, A:=user[0]
            for nm, mu in zip(["X", "Y", "Z", "A"], lk):
                mu = from_model_c(mu)
                ctx.agree("create_dict(**kw)[%s] vs model lookup" % nm, [g[nm].real, g[nm].imag], [mu.real, mu.imag], case2)


def check_size_guard(ctx):
    """Malformed stream (not part of the property): a psi whose length is not 2^len(basis).  Correspondence only:
    implementation raises (any exception class) <-> the model's guard rejects."""
    from qucumber.utils import unitaries as UU
    from qucumber.nn_states import ComplexWaveFunction
    m = ctx.get_model()
    s = ComplexWaveFunction(2, 2, gpu=False)
    for n, basis in ((2, "XYZ"), (3, "XY"), (2, "X")):
        psi = ctx.rng.normal(size=2 ** n) + 1j * ctx.rng.normal(size=2 ** n)
        case = {"call": "rotate_psi", "basis": basis, "len_psi": 2 ** n}
        ctx.case(case, nontrivial=False)
        try:
            UU.rotate_psi(s, basis, None, psi=stack(psi))
            raised = None
        except Exception as e:
            raised = type(e).__name__
        ctx.count("size_guard_exception:%s" % raised)
        r = m.call("c04_rotate_psi", [], ["XYZ".index(b) for b in basis], cl(psi))
        ctx.agree_exact("incompatible sizes: implementation raises <-> model rejects", raised is not None, len(r[0]) == 0, case)


# ----------------------------------------------------------------------------- histories on one state object
def mat_c(u):
    return np.array(u[0]) + 1j * np.array(u[1])


def mat_t(u):
    import torch
    return torch.tensor(np.stack([np.array(u[0], dtype=float), np.array(u[1], dtype=float)]), dtype=torch.double)


def set_params(s, kind, p):
    if kind == "positive":
        gen.set_brbm(s.rbm_am, *[np.array(x) for x in p["am"]])
    elif kind == "complex":
        gen.set_brbm(s.rbm_am, *[np.array(x) for x in p["am"]])
        gen.set_brbm(s.rbm_ph, *[np.array(x) for x in p["ph"]])
    elif kind == "dm":
        gen.set_prbm(s.rbm_am, *[np.array(x) for x in p["am"]])
        gen.set_prbm(s.rbm_ph, *[np.array(x) for x in p["ph"]])


def new_state(h, user, params):
    import torch
    from qucumber.nn_states import ComplexWaveFunction, PositiveWaveFunction, DensityMatrix
    from qucumber.utils import unitaries as UU
    kind, n = h["state"], h["n"]
    d = UU.create_dict(**{k: mat_t(v) for k, v in user.items()})
    if kind in ("complex", "psi"):
        s = ComplexWaveFunction(n, h.get("nh", n), unitary_dict=d, gpu=False)
    elif kind == "positive":
        s = PositiveWaveFunction(n, h.get("nh", n), gpu=False)
    else:
        s = DensityMatrix(n, h.get("nh", n), h.get("na", n), unitary_dict=d, gpu=False)
    if params is not None:
        set_params(s, kind, params)
    return s


def probe(ctx, s, h, basis, cur, uarg, where, form):
    """The four public functions against the dense product built from the dictionary that is in force NOW."""
    import torch
    from qucumber.utils import unitaries as UU
    kind, n = h["state"], h["n"]
    case = dict(h, failed_at=where)
    missing = [b for b in basis if cur.get(b) is None]
    if missing:
        ctx.require("history: dictionary in force holds every letter of the basis", False, case, missing)
        return
    U = dense_U(basis, cur); aU = np.abs(U)
    barg = basis_in_form(basis, form)
    space = s.generate_hilbert_space(n)
    states = torch.tensor(h["states"], dtype=torch.double)
    sidx = idx_of(h["states"])
    ctx.count("history_probe")
    if kind in ("complex", "positive", "psi"):
        if kind == "psi":
            psi_np = mat_c(h["psi"]); kw = {"psi": stack(psi_np)}
        else:
            ok, p0 = ctx.call("history: psi(space)", case, lambda: s.psi(space))
            if not ok:
                return
            psi_np, kw = cnp(p0), {}
            if not np.all(np.isfinite(psi_np)) or np.abs(psi_np).max() > 1e150:
                ctx.count("skipped_overflow")
                return
        want, bnd = U @ psi_np, aU @ np.abs(psi_np)
        ok, out = ctx.call("history: rotate_psi", case, lambda: UU.rotate_psi(s, barg, space, unitaries=uarg, **kw))
        if ok:
            ctx.require("history: rotate_psi == dense product with the dictionary now in force", close_c(cnp(out), want, bnd), case,
                        {"got": cl(cnp(out)), "want": cl(want)})
        ok, out = ctx.call("history: rotate_psi_inner_prod", case, lambda: UU.rotate_psi_inner_prod(s, barg, states, unitaries=uarg, **kw))
        if ok:
            ctx.require("history: rotate_psi_inner_prod == (U psi)[idx s] with the dictionary now in force", close_c(cnp(out), want[sidx], bnd[sidx]), case,
                        {"got": cl(cnp(out)), "want": cl(want[sidx])})
    else:
        if kind == "rho":
            rho_np = mat_c(h["rho"]); kw = {"rho": stack(rho_np)}
        else:
            ok, r0 = ctx.call("history: rho(space, space)", case, lambda: s.rho(space, space))
            if not ok:
                return
            rho_np, kw = cnp(r0), {}
            if not np.all(np.isfinite(rho_np)) or np.abs(rho_np).max() > 1e150:
                ctx.count("skipped_overflow")
                return
        want = U @ rho_np @ U.conj().T
        bnd = aU @ np.abs(rho_np) @ aU.T
        wd, bd = np.real(np.diag(want)), np.diag(bnd)
        nonherm = kind == "rho" and non_hermitian(rho_np)
        ok, out = ctx.call("history: rotate_rho", case, lambda: UU.rotate_rho(s, barg, space, unitaries=uarg, **kw))
        if ok and nonherm and not rr_on(ctx):
            ctx.count("skipped_rotate_rho_nonhermitian_oracle")
        elif ok:
            ctx.require("history: rotate_rho == U rho U^dagger with the dictionary now in force", close_c(cnp(out), want, bnd),
                        dict(case, rho_nonhermitian=True, call="rotate_rho") if nonherm else case,
                        {"maxdiff": float(np.abs(cnp(out) - want).max()) if cnp(out).shape == want.shape else None})
        ok, out = ctx.call("history: rotate_rho_probs", case, lambda: UU.rotate_rho_probs(s, barg, states, unitaries=uarg, **kw))
        if ok:
            got = out.detach().cpu().numpy()
            ctx.require("history: rotate_rho_probs == diag(U rho U^dagger)[idx s] with the dictionary now in force", close_c(got, wd[sidx], bd[sidx]), case,
                        {"got": got.tolist(), "want": wd[sidx].tolist()})


FORMS = ["str", "list", "ndarray"]


def check_history(ctx, h):
    """One state object, a sequence of operations that change which dictionary / which state is in force, the same
    basis rotated again after each of them.  h is JSON-serialisable and is the replay record."""
    import torch
    from qucumber.utils import unitaries as UU
    kind = h["state"]
    ctx.case({"kind": "history", "state": kind, "n": h["n"], "basis": h["basis"], "ops": [st["op"] for st in h["steps"]]},
             nontrivial=nontrivial(h["basis"]))
    ctx.count("history:" + kind)
    s = new_state(h, h["user"], h.get("params"))
    defaults = {k: to_c22(v) for k, v in UU.create_dict().items()}
    cur_state = dict(defaults); cur_state.update({k: mat_c(v) for k, v in h["user"].items()})
    cur_arg, uarg = None, None
    basis = list(h["basis"])
    has_dict = kind != "positive"
    probe(ctx, s, h, basis, cur_state, None, "start", FORMS[0])
    for i, st in enumerate(h["steps"]):
        op = st["op"]
        ctx.count("history_op:" + op)
        try:
            if op == "set_item" and has_dict:           # s.unitary_dict[name] = U   (existing or new letter)
                s.unitary_dict[st["name"]] = mat_t(st["u"]); cur_state[st["name"]] = mat_c(st["u"])
            elif op == "inplace" and has_dict:          # s.unitary_dict[name].copy_(U)
                s.unitary_dict[st["name"]].copy_(mat_t(st["u"])); cur_state[st["name"]] = mat_c(st["u"])
            elif op == "reassign" and has_dict:         # s.unitary_dict = create_dict(**new)
                s.unitary_dict = UU.create_dict(**{k: mat_t(v) for k, v in st["user"].items()})
                cur_state = dict(defaults); cur_state.update({k: mat_c(v) for k, v in st["user"].items()})
            elif op == "load" and has_dict:             # parameters and dictionary of another state, through a file
                s2 = new_state(h, st["user"], st.get("params"))
                path = os.path.join(ctx.scratch, "c04_hist_%d.pt" % ctx.evaluations)
                s2.save(path); s.load(path)
                cur_state = dict(defaults); cur_state.update({k: mat_c(v) for k, v in st["user"].items()})
            elif op == "params":                         # the state itself changes
                set_params(s, kind, st["params"])
            elif op == "arg":                            # unitaries= another dictionary / back to none
                if st.get("user") is None:
                    uarg, cur_arg = None, None
                else:
                    uarg = UU.create_dict(**{k: mat_t(v) for k, v in st["user"].items()})
                    cur_arg = dict(defaults); cur_arg.update({k: mat_c(v) for k, v in st["user"].items()})
            elif op == "basis":                          # another basis in between, then the first one again
                basis = list(st["basis"])
            elif op == "again":
                pass
        except Exception as e:
            ctx.require("history: operation %s on the state's dictionary raised %s" % (op, type(e).__name__), False, dict(h, failed_at=i), repr(e)[:200])
            return
        cur = cur_arg if cur_arg is not None else cur_state
        probe(ctx, s, h, basis, cur, uarg, i, FORMS[(i + 1) % 3])
    ctx.traces += 1


def twin_user(rng, names):
    return {nm: (lambda u: [u.real.tolist(), u.imag.tolist()])(rand_unitary_kind(rng)) for nm in names}


def make_history(ctx, kind, n, names, basis, ops):
    """fill the operations' data (matrices, parameters) from the PRNG"""
    rng = ctx.rng
    nh, na = int(rng.integers(1, 4)), int(rng.integers(1, 4))
    h = {"kind": "history", "state": kind, "n": n, "nh": nh, "na": na, "user": twin_user(rng, names) if kind != "positive" else {},
         "basis": list(basis), "states": rand_states(ctx, n)}
    if kind in ("complex", "positive", "dm"):
        h["params"] = make_params(ctx, kind, n, nh, na)
    elif kind == "psi":
        h["psi"] = rand_psi(ctx, n)
    else:
        h["rho"], h["tag"] = rand_rho(ctx, n)
    used = [b for b in basis]
    core = set(["X", "Y", "Z"]) | set(b for b in used)       # letters every dictionary of this history holds
    avail_state, avail_arg = set(["X", "Y", "Z"]) | set(names), None
    steps = []
    for op in ops:
        if op == "new_letter" and avail_arg is not None:
            op = "again"
        if op in ("set_item", "inplace"):
            # (the letter Z is left alone here: overriding it is the separate, known-finding-tagged stream)
            cand = [b for b in used if b != "Z"]
            nm = str(rng.choice(cand)) if cand else "X"
            u = rand_unitary_kind(rng)
            steps.append({"op": op, "name": nm, "u": [u.real.tolist(), u.imag.tolist()]})
        elif op in ("reassign", "arg"):
            steps.append({"op": op, "user": twin_user(rng, [b for b in sorted(set(used)) if b != "Z"] or ["X"])})
            if op == "arg":
                avail_arg = set(core)
            else:
                avail_state = set(core)
        elif op == "arg_none":
            steps.append({"op": "arg", "user": None})
            avail_arg = None
        elif op == "load":
            st = {"op": "load", "user": twin_user(rng, [b for b in sorted(set(used)) if b != "Z"] or ["X"])}
            if kind in ("complex", "dm"):
                st["params"] = make_params(ctx, kind, n, nh, na)
            steps.append(st)
            avail_state = set(core)
        elif op == "params":
            if kind in ("complex", "positive", "dm"):
                steps.append({"op": "params", "params": make_params(ctx, kind, n, nh, na)})
        elif op == "new_letter":
            nm = str(rng.choice([x for x in USER_NAMES if x not in used]))
            avail_state.add(nm)
            u = rand_unitary_kind(rng)
            steps.append({"op": "set_item", "name": nm, "u": [u.real.tolist(), u.imag.tolist()]})
            b2 = list(basis); b2[int(rng.integers(0, len(b2)))] = nm
            steps.append({"op": "basis", "basis": b2})
            steps.append({"op": "basis", "basis": list(basis)})
        elif op == "other_basis":
            alphabet = sorted(avail_arg if avail_arg is not None else avail_state)
            steps.append({"op": "basis", "basis": [str(b) for b in rng.choice(alphabet, size=n)]})
            steps.append({"op": "basis", "basis": list(basis)})
        else:
            steps.append({"op": "again"})
    if kind == "positive":       # no dictionary of its own: only unitaries= alternation, parameters, bases
        steps = [st for st in steps if st["op"] in ("arg", "params", "basis", "again")]
        for st in steps:
            if st["op"] == "basis":
                st["basis"] = [b if b in "XYZ" else "X" for b in st["basis"]]
    h["steps"] = steps
    return h


HIST_OPS = ["set_item", "inplace", "reassign", "load", "params", "arg", "arg_none", "new_letter", "other_basis", "again"]


def fixed_histories(ctx):
    """always run, before anything random can exhaust a budget: every operation kind on every state kind"""
    full = ["again", "set_item", "inplace", "reassign", "new_letter", "load", "arg", "arg", "arg_none", "params", "other_basis", "set_item"]
    check_history(ctx, make_history(ctx, "complex", 2, [], ["X", "Z"], full))
    check_history(ctx, make_history(ctx, "dm", 2, [], ["Y", "X"], full))
    check_history(ctx, make_history(ctx, "psi", 2, ["x"], ["x", "X"], full))
    check_history(ctx, make_history(ctx, "rho", 1, ["H"], ["H"], full))
    check_history(ctx, make_history(ctx, "positive", 2, [], ["X", "Y"], ["again", "arg", "arg", "arg_none", "params", "other_basis"]))
    check_history(ctx, make_history(ctx, "complex", 3, ["Hd", "z"], ["Hd", "Z", "z"], full))


def random_history(ctx):
    rng = ctx.rng
    kind = str(rng.choice(KINDS))
    n = int(rng.integers(1, 4))
    names = [] if kind == "positive" else [str(x) for x in rng.choice(USER_NAMES, size=int(rng.integers(0, 3)), replace=False)]
    alphabet = ["X", "Y", "Z"] + names
    while True:
        basis = [str(b) for b in rng.choice(alphabet, size=n)]
        if any(b != "Z" for b in basis):
            break
    ops = [str(x) for x in rng.choice(HIST_OPS, size=int(rng.integers(3, 7)))]
    check_history(ctx, make_history(ctx, kind, n, names, basis, ops))


def fixed_name_and_dtype_cases(ctx):
    """always run: lower-case twins / digits / non-ASCII / multi-character names; float32, float16, int64 explicit arrays"""
    for kind, names, basis in (("psi", ["x", "y"], ["x", "X", "y"]), ("rho", ["z", "x"], ["z", "Z", "x"]),
                               ("complex", ["7", "\u00e9"], ["7", "Y", "\u00e9"]), ("dm", ["Hd", "\u03b1\u03b2"], ["Hd", "\u03b1\u03b2"]),
                               ("positive", ["h", "X2"], ["h", "X2", "X"]), ("complex", ["x"], ["x", "X"]), ("dm", ["y", "x"], ["Y", "y", "x"])):
        n = len(basis)
        for form in (("str", "ndarray") if all(len(b) == 1 for b in basis) else ("list", "ndarray")):
            spec = base_spec(ctx, kind, n, {})
            spec["user"], _ = rand_user(ctx, n, names=names)
            spec["basis"] = list(basis)
            spec["basis_form"] = form
            finish(ctx, spec, n)
    for xd in ("float32", "float16", "int64"):
        for kind, basis in (("psi", "XY"), ("rho", "YX"), ("psi", "YZX"), ("rho", "Y")):
            spec = base_spec(ctx, kind, len(basis), {}, xdtype=xd)
            spec["basis"] = basis
            finish(ctx, spec, len(basis))


# ----------------------------------------------------------------------------- generators
def rand_states(ctx, n, full_ok=True):
    rng = ctx.rng
    N = 2 ** n
    k = int(rng.integers(1, 9))
    ii = rng.integers(0, N, size=k)
    if k >= 2 and rng.random() < 0.7:
        ii[int(rng.integers(1, k))] = ii[0]          # a repeat
    sp = gen.all_states(n)
    return sp[ii].tolist()


def rand_unitary_kind(rng):
    kindu = rng.random()
    if kindu < 0.15:
        return np.array([[1, 1], [1, -1]], dtype=complex) / S2             # Hadamard
    if kindu < 0.3:
        return np.array([[1, 0], [0, 1j]], dtype=complex)                  # S-like
    return rand_unitary(rng)


def rand_user(ctx, basis_len, override_ok=True, override_z=False, names=None):
    """pick 1-3 user names (possibly overriding X or Y; Z when asked) and a basis (list of names) using them"""
    rng = ctx.rng
    if names is None:
        k = int(rng.integers(1, 4))
        names = [str(x) for x in rng.choice(USER_NAMES, size=k, replace=False)]
        if override_z:
            names[0] = "Z"
        elif override_ok and rng.random() < 0.25:
            names[0] = str(rng.choice(["X", "Y"]))
    user = {}
    for nm in names:
        u = rand_unitary_kind(rng)
        user[str(nm)] = [u.real.tolist(), u.imag.tolist()]
    alphabet = sorted(set(["X", "Y", "Z"] + [str(x) for x in names]))
    while True:
        basis = [str(b) for b in rng.choice(alphabet, size=basis_len)]
        if any(b in user for b in basis) and (not override_z or "Z" in basis):
            break
    return user, basis


def make_params(ctx, kind, n, nh, na):
    if kind == "positive":
        return {"am": gen.plist(*gen.brbm_params(ctx, n, nh))}
    if kind == "complex":
        return {"am": gen.plist(*gen.brbm_params(ctx, n, nh)), "ph": gen.plist(*gen.brbm_params(ctx, n, nh))}
    if kind == "dm":
        return {"am": gen.plist(*gen.prbm_params(ctx, n, nh, na)), "ph": gen.plist(*gen.prbm_params(ctx, n, nh, na, phase=True))}
    return None


# Structure of an explicitly supplied array.  The property quantifies over ARBITRARY complex psi and over Hermitian as well as
# non-symmetric complex rho: a short cut that is an identity only for structured inputs (rho Hermitian / symmetric / real / PSD /
# trace one; psi real / normalised / nowhere zero) must meet an input without that structure -- in the fixed cases, the exhaustive
# sweep, the histories and the exact low-precision dtypes alike.
PSI_TAGS = ["general", "scaled", "real", "imaginary", "sparse", "one_hot", "large_norm", "tiny_norm"]
RHO_HERMITIAN = ["psd", "hermitian"]
RHO_GENERAL = ["general", "real_nonsym", "complex_sym", "antiherm", "upper", "lower", "outer", "imaginary", "diag_complex", "neg_def"]
RHO_TAGS = RHO_HERMITIAN + RHO_GENERAL


def shape_psi(rng, z, tag):
    """z: complex Gaussian-like vector -> the same data with the structure `tag` (entries stay exactly representable when z's are)"""
    d = len(z)
    if tag == "real":
        return z.real + 0j
    if tag == "imaginary":
        return 1j * z.real
    if tag == "sparse":
        keep = rng.random(d) < 0.5
        keep[int(rng.integers(0, d))] = True
        return z * keep
    if tag == "one_hot":
        e = np.zeros(d, dtype=complex); k = int(rng.integers(0, d)); e[k] = z[k] if z[k] != 0 else 1 - 2j
        return e
    if tag == "large_norm":
        return z * 1024.0
    if tag == "tiny_norm":
        return z / 1024.0
    return z


def shape_rho(rng, g, tag):
    """g: complex d x d Gaussian-like matrix -> a matrix with the structure `tag`.  Only "psd" is a physical state (non-negative
    probabilities demanded); "hermitian" has real, possibly negative rotated diagonals; all others are NOT Hermitian: the diagonal of
    U rho U^dagger is complex and the functions return its real part"""
    d = g.shape[0]
    if tag == "psd":
        return g @ g.conj().T
    if tag == "hermitian":
        return g + g.conj().T
    if tag == "real_nonsym":
        return g.real + 0j
    if tag == "complex_sym":
        return g + g.T
    if tag == "antiherm":
        return g - g.conj().T
    if tag == "upper":
        return np.triu(g)
    if tag == "lower":
        return np.tril(g)
    if tag == "outer":
        return np.outer(g[0], g[-1].conj())           # |a><b|, a != b
    if tag == "imaginary":
        return 1j * g.real
    if tag == "diag_complex":
        return np.diag(np.diag(g))
    if tag == "neg_def":
        return -(g @ g.conj().T) - np.eye(d)
    return g


def pick_psi_tag(rng):
    return str(rng.choice(PSI_TAGS, p=[0.4, 0.18, 0.07, 0.07, 0.07, 0.07, 0.07, 0.07]))


def pick_rho_tag(rng):
    r = rng.random()
    if r < 0.25:
        return "psd"
    if r < 0.45:
        return "hermitian"
    if r < 0.70:
        return "general"
    return str(rng.choice(RHO_GENERAL[1:]))


def rand_psi(ctx, n, exact=None, tag=None):
    rng = ctx.rng
    tag = tag or pick_psi_tag(rng)
    ctx.count("explicit_psi:" + tag)
    if exact is not None:       # exactly representable in float16 / float32 (multiples of 1/8) or integers
        q = 1.0 if exact == "int64" else 8.0
        z = (rng.integers(-16, 17, size=2 ** n) + 1j * rng.integers(-16, 17, size=2 ** n)) / q
        if tag in ("large_norm", "tiny_norm", "scaled"):
            tag = "general"
        z = shape_psi(rng, z, tag)
        return [z.real.tolist(), z.imag.tolist()]
    z = rng.normal(size=2 ** n) + 1j * rng.normal(size=2 ** n)
    if tag == "scaled":
        z *= np.exp(rng.uniform(-3, 3, size=2 ** n))
    z = shape_psi(rng, z, tag)
    return [z.real.tolist(), z.imag.tolist()]


def rand_rho(ctx, n, exact=None, tag=None):
    rng = ctx.rng
    d = 2 ** n
    tag = tag or pick_rho_tag(rng)
    ctx.count("explicit_rho:" + tag)
    if exact is not None:       # small integers (/ 4): sums and products stay exactly representable in float16
        q = 1.0 if exact == "int64" else 4.0
        g = (rng.integers(-3, 4, size=(d, d)) + 1j * rng.integers(-3, 4, size=(d, d)))
        r = shape_rho(rng, g, tag) / q
        return [r.real.tolist(), r.imag.tolist()], tag
    g = rng.normal(size=(d, d)) + 1j * rng.normal(size=(d, d))
    r = shape_rho(rng, g, tag)
    return [r.real.tolist(), r.imag.tolist()], tag


def base_spec(ctx, kind, n, params_cache, xdtype=None, xtag=None):
    rng = ctx.rng
    spec = {"kind": kind, "n": n, "user": {}, "user_form": str(rng.choice(USER_FORMS)),
            "basis_form": str(rng.choice(["str", "list", "ndarray"] + BASIS_VIEWS, p=[0.5, 0.16, 0.16, 0.06, 0.06, 0.06]))}
    # regime of the calling program, encoding of the include_extras flag, memory layout of the outcome batch
    spec["mode"] = "ambient" if rng.random() < 0.7 else str(rng.choice(MODES[1:]))
    spec["flag"] = str(rng.choice(["bool", "numpy", "int"], p=[0.6, 0.2, 0.2]))
    spec["states_layout"] = str(rng.choice(STATE_LAYOUTS, p=[0.55, 0.15, 0.15, 0.15]))
    # which dictionary reaches the rotation: the state's (ctor), the unitaries= argument (arg), or -- for a
    # PositiveWaveFunction, which has none -- the create_dict() fallback (none)
    spec["route"] = str(rng.choice(["arg", "none"])) if kind == "positive" else str(rng.choice(["ctor", "arg"]))
    if kind in ("complex", "positive", "dm"):
        key = (kind, n)
        if key not in params_cache:
            nh = int(rng.integers(1, 4)); na = int(rng.integers(1, 4))
            params_cache[key] = (nh, na, make_params(ctx, kind, n, nh, na))
        spec["nh"], spec["na"], spec["params"] = params_cache[key]
    else:
        # explicit arrays: mostly double; sometimes float32 / float16 / int64 with exactly representable entries
        xd = str(rng.choice(["double", "float32", "float16", "int64"], p=[0.6, 0.25, 0.05, 0.1])) if xdtype is None else xdtype
        spec["explicit_dtype"] = xd
        ex = None if xd == "double" else xd
        if kind == "psi":
            spec["tag"] = xtag or pick_psi_tag(rng)
            spec["psi"] = rand_psi(ctx, n, ex, tag=spec["tag"])
        else:
            spec["rho"], spec["tag"] = rand_rho(ctx, n, ex, tag=xtag)
        # memory layout of the explicit array; number of sites of the state object that comes with it
        spec["layout"] = "contiguous" if rng.random() < 0.5 else str(rng.choice(LAYOUTS[1:]))
        if rng.random() < 0.3:
            spec["n_state"] = int(rng.choice([x for x in range(1, 6) if x != n]))
    return spec


def plain(spec, **kw):
    """the ordinary regime in every respect but those given"""
    spec.update({"mode": "ambient", "flag": "bool", "states_layout": "contiguous", "basis_form": "str"})
    if spec["kind"] in ("psi", "rho"):
        spec["layout"] = "contiguous"
        spec.pop("n_state", None)
    spec.update(kw)
    return spec


def fixed_regime_cases(ctx):
    """always run, before anything random: one regime of red-team round 2 at a time, on small asymmetric bases with Y"""
    def go(kind, basis, **kw):
        spec = plain(base_spec(ctx, kind, len(basis), {}, xdtype="double"), **kw)
        spec["basis"] = basis
        finish(ctx, spec, len(basis))
    for layout in LAYOUTS[1:]:                      # explicit arrays that are views of the caller's data
        go("psi", "YXZ", layout=layout)
        go("rho", "YX", layout=layout)
    for kind, basis, ns in (("psi", "YZX", 2), ("psi", "XY", 4), ("rho", "YZX", 2), ("rho", "Y", 3)):
        go(kind, basis, n_state=ns)                 # explicit array with another number of sites than the state object
    for mode in MODES[1:]:                          # regime of the calling program
        for kind, basis in (("complex", "YX"), ("positive", "XY"), ("dm", "YX"), ("psi", "ZY"), ("rho", "YZ")):
            go(kind, basis, mode=mode)
    for flag in ("numpy", "int"):                   # encoding of include_extras
        for kind, basis in (("complex", "XY"), ("dm", "YX"), ("psi", "YZ"), ("rho", "XY")):
            go(kind, basis, flag=flag)
    for sl in STATE_LAYOUTS[1:]:                    # outcome batches that are views
        for kind, basis in (("complex", "YXZ"), ("rho", "YX"), ("dm", "ZY")):
            go(kind, basis, states_layout=sl)
    for bf in BASIS_VIEWS:                          # basis rows that are views
        for kind, basis in (("complex", "YXZ"), ("rho", "YX"), ("psi", "XZY")):
            go(kind, basis, basis_form=bf)


def fixed_structure_cases(ctx):
    """always run, before anything random (seed round 8: a reduction of the double sum that is an identity only for a Hermitian
    rho): every structure of an explicit array -- above all the ones WITHOUT a symmetry -- through all four functions, with
    include_extras left at its default, given as False in another encoding, and True; bases with one rotated site, with X only,
    with Y, with a user-added unitary"""
    def go(kind, basis, tag, user=None, **kw):
        n = len(basis)
        spec = plain(base_spec(ctx, kind, n, {}, xdtype=kw.pop("xdtype", "double"), xtag=tag), **kw)
        if user:
            spec["user"], _ = rand_user(ctx, n, names=user)
        spec["basis"] = basis
        finish(ctx, spec, n)
    rho_bases = ["XZZ", "ZX", "YX", "XYZ", "Y"]
    for i, tag in enumerate(RHO_GENERAL + ["hermitian", "psd"]):
        for j, basis in enumerate(rho_bases if tag == "general" else [rho_bases[i % 5], rho_bases[(i + 2) % 5]]):
            go("rho", basis, tag, flag=("bool", "int", "numpy")[(i + j) % 3])
        go("rho", ["Q", "Z", "X"][: 2 + i % 2], tag, user=["Q"], basis_form="list")
    go("rho", "XZ", "general", xdtype="int64"); go("rho", "ZY", "upper", xdtype="float32"); go("rho", "YX", "lower", xdtype="float16")
    go("rho", "XX", "general", n_state=3); go("rho", "ZYX", "general", layout="transposed"); go("rho", "XZ", "outer", layout="interleaved")
    psi_bases = ["XZZ", "ZY", "YX", "XYZ", "X"]
    for i, tag in enumerate(PSI_TAGS):
        for j, basis in enumerate(psi_bases if tag == "general" else [psi_bases[i % 5], psi_bases[(i + 2) % 5]]):
            go("psi", basis, tag, flag=("bool", "int", "numpy")[(i + j) % 3])
        go("psi", ["Z", "q", "Y"][: 2 + i % 2], tag, user=["q"], basis_form="list")
    go("psi", "XZ", "sparse", xdtype="int64"); go("psi", "ZYX", "one_hot", xdtype="float16"); go("psi", "YX", "imaginary", xdtype="float32")


# ----------------------------------------------------------------------------- beyond the dense oracle: n > 20 sites
def np_psi(kind, params, V):
    """psi(v) of a Complex / PositiveWaveFunction from its parameters (numpy, independent of the library)"""
    am = [np.array(x, dtype=float) for x in params["am"]]
    amp = np.exp(-gen.np_eff_energy(*am, V) / 2)
    if kind == "positive":
        return amp.astype(complex)
    ph = [np.array(x, dtype=float) for x in params["ph"]]
    return amp * np.exp(-0.5j * gen.np_eff_energy(*ph, V))


def make_large(ctx, kind, n, k, names=()):
    """n sites of which k carry a non-Z letter (X, Y or a user-added unitary); small weights so that psi stays in range"""
    rng = ctx.rng
    nh, na = int(rng.integers(1, 4)), int(rng.integers(1, 3))
    spec = plain({"kind": kind, "n": n, "nh": nh, "na": na, "large": True, "user_form": "tensor",
                  "route": "arg" if kind == "positive" else str(rng.choice(["ctor", "arg"]))})
    spec["user"] = {nm: (lambda u: [u.real.tolist(), u.imag.tolist()])(rand_unitary_kind(rng)) for nm in names}
    sites = sorted(int(x) for x in rng.choice(n, size=k, replace=False))
    basis = ["Z"] * n
    letters = ["Y", "X"] + list(names)
    for j, st in enumerate(sites):
        basis[st] = letters[j % len(letters)] if j < 2 else str(rng.choice(letters))
    spec["basis"] = basis
    if kind == "psi":
        spec["psi_seed"] = int(rng.integers(0, 2 ** 31))         # (the array itself is too long for a replay file)
        spec["n_state"] = 2
    else:
        p = make_params(ctx, kind, n, nh, na)
        for net in p:                                            # weights O(1/n): energies stay O(n)
            p[net][0] = (np.array(p[net][0]) * (3.0 / n)).tolist()
            if kind == "dm":
                p[net][1] = (np.array(p[net][1]) * (3.0 / n)).tolist()
        spec["params"] = p
    B = int(rng.integers(2, 7))
    st = (rng.random((B, n)) < 0.5).astype(float)
    st[-1] = st[0]                                               # a repeat
    spec["states"] = st.tolist()
    spec["basis_form"] = str(rng.choice(["str", "list", "ndarray"])) if all(len(b) == 1 for b in basis) else "list"
    return spec


def check_large(ctx, spec):
    mode = spec.get("mode") or "ambient"
    with dtype_mode(mode):
        built = build(spec)
        with grad_mode(mode):
            _check_large(ctx, spec, built)


def _check_large(ctx, spec, built):
    """The fast paths on a system far beyond full enumeration.  Oracle: the 2^k-term expansion over the rotated sites,
    (U psi)[s] = sum_v prod_j U_j[s_j, v_j] psi(v);  diag(U rho U^dagger)[s] = sum_{v,v'} Ut(s,v) conj(Ut(s,v')) rho(v,v')."""
    import torch
    from qucumber.utils import unitaries as UU
    m = ctx.get_model()
    kind, n, basis = spec["kind"], spec["n"], spec["basis"]
    s, uarg, dnp, user, route = built
    case = spec
    barg = basis_arg(spec)
    ctx.case(spec_desc(spec), nontrivial=nontrivial(basis))
    ctx.count("kind:" + kind); ctx.count("n:%d" % n); ctx.count("large_n_sparse_oracle"); ctx.count("mode:" + (spec.get("mode") or "ambient"))
    missing = [b for b in basis if dnp.get(b) is None]
    if missing:
        ctx.require("dictionary holds a 2x2 matrix for every letter of the basis", False, case, missing)
        return
    sites = [j for j, b in enumerate(basis) if b != "Z"]
    exps = np.array(list(itertools.product([0, 1], repeat=len(sites))), dtype=float).reshape(2 ** len(sites), len(sites))
    st = np.array(spec["states"], dtype=float)
    B, E = len(st), len(exps)
    V = np.repeat(st[None], E, axis=0)                           # V[e, b, :] = outcome b with the rotated sites set to expansion e
    if sites:
        V[:, :, sites] = exps[:, None, :]
    Ut = np.ones((E, B), dtype=complex)                          # prod_j U_j[s_j, v_j]
    for j, site in enumerate(sites):
        u = dnp[basis[site]]
        Ut *= u[st[None, :, site].astype(int), exps[:, None, j].astype(int)]
    states = lay(torch.tensor(spec["states"], dtype=torch.double), spec.get("states_layout"))
    lets, userl = letters_for_model(basis, user)
    ex = m.call("c04_expansions", userl, lets, spec["states"])
    if kind in ("complex", "positive", "psi"):
        if kind == "psi":
            g = np.random.Generator(np.random.PCG64(spec["psi_seed"]))
            psi_np = g.normal(size=2 ** n) + 1j * g.normal(size=2 ** n)
            kwp = {"psi": stack(psi_np, "double", spec.get("layout"))}
            pv = psi_np[idx_of(V.reshape(-1, n))].reshape(E, B)
            psi_at = lambda rows: psi_np[idx_of(rows)]
        else:
            kwp = {}
            pv = np_psi(kind, spec["params"], V.reshape(-1, n)).reshape(E, B)
            psi_at = lambda rows: np_psi(kind, spec["params"], rows)
        want = (Ut * pv).sum(0)
        bnd = (np.abs(Ut) * np.abs(pv)).sum(0)
        ok, out = ctx.call("rotate_psi_inner_prod (n > 20)", case, lambda: UU.rotate_psi_inner_prod(s, barg, states, unitaries=uarg, **kwp))
        if ok and ctx.require("rotate_psi_inner_prod (n > 20) returns the amplitudes alone", value_alone(out), case, type(out).__name__):
            got = cnp(out)
            ctx.require("rotate_psi_inner_prod == sum over the 2^k expansions of prod_j U_j[s_j, v_j] psi(v)  (n > 20 sites)", close_c(got, want, bnd), case,
                        {"got": cl(got), "want": cl(want)})
            mv = np.array([sum(complex(u[0], u[1]) * z for u, z in zip(ex[b][1], psi_at(np.array(ex[b][0], dtype=float)))) for b in range(B)])
            ctx.agree("rotate_psi_inner_prod vs model expansions (n > 20)", [got.real, got.imag], [mv.real, mv.imag], case, scale=float(bnd.max()))
            overwrite([out])
            ok, out = ctx.call("rotate_psi_inner_prod (n > 20, repeated)", case, lambda: UU.rotate_psi_inner_prod(s, barg, states, unitaries=uarg, **kwp))
            if ok and value_alone(out):
                ctx.require("rotate_psi_inner_prod (n > 20 sites) called again after the caller overwrote the returned tensor", close_c(cnp(out), want, bnd), case,
                            {"got": cl(cnp(out)), "want": cl(want)})
    else:
        want = np.zeros(B); bnd = np.zeros(B); mvals = np.zeros(B)
        for b in range(B):
            Vb = torch.tensor(V[:, b, :], dtype=torch.double)
            ok, rb = ctx.call("rho on the expansions of one outcome", case, lambda: s.rho(Vb, Vb))
            if not ok:
                return
            rb = cnp(rb)
            want[b] = float(np.real(np.einsum("e,f,ef->", Ut[:, b], Ut[:, b].conj(), rb)))
            bnd[b] = float(np.einsum("e,f,ef->", np.abs(Ut[:, b]), np.abs(Ut[:, b]), np.abs(rb)))
            order = idx_of(np.array(ex[b][0], dtype=float)[:, sites]) if sites else np.array([0])
            mu = np.array([complex(u[0], u[1]) for u in ex[b][1]])
            mvals[b] = float(np.real(np.einsum("e,f,ef->", mu, mu.conj(), rb[np.ix_(order, order)])))
        ok, out = ctx.call("rotate_rho_probs (n > 20)", case, lambda: UU.rotate_rho_probs(s, barg, states, unitaries=uarg))
        if ok and ctx.require("rotate_rho_probs (n > 20) returns the probabilities alone", value_alone(out), case, type(out).__name__):
            got = out.detach().cpu().numpy()
            ctx.require("rotate_rho_probs == sum over the expansions of Ut(s,v) conj Ut(s,v') rho(v,v')  (n > 20 sites)", close_c(got, want, bnd), case,
                        {"got": got.tolist(), "want": want.tolist()})
            ctx.agree("rotate_rho_probs vs model expansions (n > 20)", got, mvals, case, scale=float(bnd.max()))
            ctx.require("rotated probabilities of a physical state are non-negative (n > 20 sites)", bool(np.all(got >= -1e-10 * bnd)), case, {"min": float(got.min())})
    ctx.traces += 1


def large_cases(ctx):
    """always run in the quick tier (cheap: 2^k expansions of a handful of outcomes)"""
    sizes = [21, 25, 40] + ([30, 60] if ctx.thorough else [])
    for n in sizes:
        check_large(ctx, make_large(ctx, "complex", n, 2 if n == 21 else int(ctx.rng.integers(1, 4))))
        check_large(ctx, make_large(ctx, "positive", n, int(ctx.rng.integers(1, 4))))
        check_large(ctx, make_large(ctx, "dm", n, int(ctx.rng.integers(1, 3))))
    check_large(ctx, make_large(ctx, "complex", 22, 3, names=("H", "s")))
    check_large(ctx, make_large(ctx, "dm", 23, 2, names=("h",)))
    check_large(ctx, plain(make_large(ctx, "complex", 24, 0)))
    check_large(ctx, dict(make_large(ctx, "complex", 26, 2), mode="no_grad"))
    check_large(ctx, dict(make_large(ctx, "dm", 21, 2), mode="inference_mode"))
    check_large(ctx, dict(make_large(ctx, "positive", 33, 3), mode="default_float64", states_layout="step"))
    check_large(ctx, make_large(ctx, "psi", 21, 2))
    for c in range(12 if ctx.thorough else 0):
        kind = ["complex", "positive", "dm"][c % 3]
        spec = make_large(ctx, kind, int(ctx.rng.integers(21, 64)), int(ctx.rng.integers(0, 3 if kind == "dm" else 4)),
                          names=("Q",) if c % 4 == 0 and kind != "positive" else ())
        spec["mode"] = MODES[c % len(MODES)]
        spec["states_layout"] = STATE_LAYOUTS[c % len(STATE_LAYOUTS)]
        check_large(ctx, spec)


KINDS = ["complex", "positive", "psi", "dm", "rho"]


def finish(ctx, spec, n):
    spec["states"] = rand_states(ctx, n)
    spec["perm"] = ctx.rng.permutation(2 ** n).tolist()
    check_spec(ctx, spec)


def run(ctx):
    rng = ctx.rng
    ctx.torch_seed()
    if not rr_on(ctx):
        print("NOTE property=C04 finding on the unchanged tree not yet registered: rotate_rho(rho= explicit NON-Hermitian matrix) returns "
              "(U rho U^dagger)^dagger (n=1, basis Z, rho=[[0,1],[0,0]] -> [[0,0],[1,0]]); rotate_rho's dense oracle is not demanded on "
              "non-Hermitian explicit matrices until known_findings.json names match {rho_nonhermitian: true, call: rotate_rho} "
              "(C04_NONHERM_ROTATE_RHO=on shows the failing input)")
    check_default_dict(ctx)
    check_size_guard(ctx)
    fixed_structure_cases(ctx)
    fixed_regime_cases(ctx)
    large_cases(ctx)
    fixed_histories(ctx)
    fixed_name_and_dtype_cases(ctx)
    for c in range(40 if ctx.thorough else 10):
        random_history(ctx)
    nmax = 4 if ctx.thorough else 3
    draws = 3 if ctx.thorough else 1
    # ---- all 3^n strings
    for d in range(draws):
        cache = {}
        for n in range(1, nmax + 1):
            for basis in gen.all_bases(n):
                for kind in KINDS:
                    spec = base_spec(ctx, kind, n, cache)
                    spec["basis"] = basis
                    finish(ctx, spec, n)
    # ---- user-added unitaries
    cnt = 150 if ctx.thorough else 30
    for c in range(cnt):
        n = int(rng.integers(1, 5 if ctx.thorough else 4)) if c % 8 else (5 if ctx.thorough else 4)
        kind = KINDS[c % len(KINDS)]
        spec = base_spec(ctx, kind, n, {})
        spec["user"], spec["basis"] = rand_user(ctx, n)
        finish(ctx, spec, n)
    # ---- Z overridden by a non-identity unitary (see Z_OVERRIDE_MODE)
    cntz = 40 if ctx.thorough else 10
    if Z_OVERRIDE_MODE == "on":
        for c in range(cntz):
            n = int(rng.integers(1, 4))
            kind = KINDS[c % len(KINDS)]
            spec = base_spec(ctx, kind, n, {})
            spec["user"], spec["basis"] = rand_user(ctx, n, override_z=True)
            finish(ctx, spec, n)
    else:
        ctx.count("skipped_z_override", cntz)
    # ---- random longer strings
    longer = ([(4, 8), (5, 6), (6, 3)] if not ctx.thorough else [(5, 30), (6, 16), (7, 3)])
    for n, cnt in longer:
        cache = {}
        for c in range(cnt):
            if n >= 7:
                kinds = ["complex", "psi", "positive"] if c else KINDS      # 128 x 128 matrices: once
            else:
                kinds = KINDS if (ctx.thorough or c < 2) else [str(rng.choice(KINDS))]
            for kind in kinds:
                spec = base_spec(ctx, kind, n, cache)
                while True:
                    basis = "".join(rng.choice(list("XYZ"), size=n, p=[0.3, 0.4, 0.3]))
                    if nontrivial(basis) or rng.random() < 0.2:
                        break
                spec["basis"] = basis
                finish(ctx, spec, n)


def search(ctx, broken, budget_s):
    """Wider oracle sweep: every string n<=3 on explicit and model states, several batches."""
    t0 = time.time()
    n0 = len(ctx.failures)
    check_default_dict(ctx)
    fixed_structure_cases(ctx)
    fixed_regime_cases(ctx)
    large_cases(ctx)
    fixed_histories(ctx)
    fixed_name_and_dtype_cases(ctx)
    if len(ctx.failures) > n0:
        return ctx.failures[n0]
    for rep in range(50):
        cache = {}
        for n in range(1, 4):
            for basis in gen.all_bases(n):
                for kind in KINDS:
                    spec = base_spec(ctx, kind, n, cache)
                    spec["basis"] = basis
                    finish(ctx, spec, n)
                    if len(ctx.failures) > n0:
                        return ctx.failures[n0]
                    if time.time() - t0 > budget_s:
                        return None
    return None


def shrink(ctx, first):
    """Prefer the failing case with the fewest sites (cases are independent)."""
    for f in ctx.failures:          # a broken dictionary explains everything downstream: report it first
        c = f.get("case", {})
        if isinstance(c, dict) and c.get("call") == "create_dict":
            return f
    best = first
    for f in ctx.failures:
        c = f.get("case", {})
        if isinstance(c, dict) and "n" in c and isinstance(best.get("case"), dict) and c["n"] < best["case"].get("n", 99):
            best = f
    return best


def replay(ctx, rec):
    f = rec.get("failing") or {}
    case = f.get("case", {})
    print("replay:", f.get("what"), {k: case.get(k) for k in ("kind", "n", "basis", "call")})
    if case.get("kind") == "history":
        check_history(ctx, {k: v for k, v in case.items() if k not in ("failed_at", "call", "rho_nonhermitian")})
    elif "kind" in case:
        spec = {k: v for k, v in case.items() if k not in ("call", "z_overridden", "history", "rho_nonhermitian")}
        (check_large if spec.get("large") else check_spec)(ctx, spec)
    elif case.get("call") == "create_dict":
        check_default_dict(ctx)
    elif case.get("call") == "rotate_psi":
        check_size_guard(ctx)
