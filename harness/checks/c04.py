"""C04 — Measurement-basis rotations equal the tensor-product unitary they denote.

Observed: return values of qucumber.utils.unitaries.rotate_psi / rotate_rho / rotate_psi_inner_prod /
rotate_rho_probs (plus create_dict), on real Positive/ComplexWaveFunction and DensityMatrix objects and on
explicitly supplied complex psi / Hermitian non-symmetric-complex rho.

Correspondence: the extracted Coq model (Unitaries.rotate_psi, rotate_rho, rotate_psi_inner_prod,
rotate_rho_probs, expansions, ut_coeff, lookup / U_X U_Y U_Z; KronIndex.kron_index = the index-level loops)
on the same arrays.
Oracle (independent of the code under test): dense numpy Kronecker product U of the per-site matrices:
U psi, U rho U^dagger, (U psi)[idx s], diag(U rho U^dagger)[idx s]; rotated probabilities >= -tol and summing
to the normalisation; default dictionary: Z = I, X/Y unitary with rows = bras of the +1/-1 eigenvectors of
the Pauli matrices (written down here, not taken from the library)."""
import functools, itertools, math, time
import numpy as np
import gen

RULE = ("state kinds {ComplexWaveFunction, PositiveWaveFunction, DensityMatrix with random non-zero-bias parameters; "
        "explicit arbitrary complex psi; explicit Hermitian non-symmetric complex rho (indefinite and PSD)} x "
        "all 3^n basis strings over XYZ for n<=3 (quick) / n<=4 (thorough), random longer strings n<=6, strings with "
        "user-added random 2x2 unitaries (QR of complex Gaussians; passed via unitary_dict= or unitaries=, as tensor or "
        "nested list, optionally overriding X or Y) x random batches of outcome states (repeats, any order) plus the full "
        "space; a case is (state kind, n, basis string, dictionary, batch); "
        "non-trivial := basis contains Y and differs from its site-reversal")
ASSUMPTIONS = ["the dictionary maps Z to the identity (true for create_dict(); a user overriding Z by a non-identity "
               "matrix is outside the fast paths' contract and is not generated)",
               "numpy kron / matmul on complex128 are the reference for the dense tensor product"]

S2 = math.sqrt(2.0)
# rows = bras of the +1 / -1 eigenvectors of the Pauli matrices
REF = {"X": np.array([[1, 1], [1, -1]], dtype=complex) / S2,
       "Y": np.array([[1, -1j], [1, 1j]], dtype=complex) / S2,
       "Z": np.eye(2, dtype=complex)}
PAULI = {"X": np.array([[0, 1], [1, 0]], dtype=complex),
         "Y": np.array([[0, -1j], [1j, 0]], dtype=complex),
         "Z": np.array([[1, 0], [0, -1]], dtype=complex)}
USER_NAMES = ["H", "S", "A", "B", "Q"]
# create_dict(**kw) accepts tensors, float64 ndarrays and nested Python lists.  (The nested-list form used to be
# rounded to single precision -- torch.tensor(list) is float32 -- repaired in /repo commit b4d870a; it is generated
# unconditionally so that a regression is reported.)
PROBE_LIST_FORM = True
USER_FORMS = ["tensor", "ndarray", "list"]


# ----------------------------------------------------------------------------- helpers
def cnp(t):
    """library complex tensor (2, ...) -> numpy complex"""
    a = t.detach().cpu().numpy()
    return a[0] + 1j * a[1]


def cl(z):
    """numpy complex array -> nested lists of [re, im] for the model"""
    z = np.asarray(z)
    if z.ndim == 0:
        return [float(z.real), float(z.imag)]
    return [cl(x) for x in z]


def from_model_c(x):
    a = np.asarray(x, dtype=float)
    return a[..., 0] + 1j * a[..., 1]


def stack(z):
    import torch
    z = np.asarray(z)
    return torch.tensor(np.stack([z.real, z.imag]), dtype=torch.double)


def rand_unitary(rng):
    g = rng.normal(size=(2, 2)) + 1j * rng.normal(size=(2, 2))
    q, r = np.linalg.qr(g)
    d = np.diag(r)
    return q * (d / np.abs(d))


def dense_U(basis, dnp):
    return functools.reduce(np.kron, [dnp[b] for b in basis])


def idx_of(states):
    states = np.asarray(states, dtype=float)
    n = states.shape[-1]
    return (states @ (2.0 ** np.arange(n - 1, -1, -1))).round().astype(int)


def letters_for_model(basis, user):
    """user: ordered dict letter -> complex 2x2 (may override X / Y).  Model letters: 0 X, 1 Y, 2 Z, 3+k user[k]."""
    names = list(user.keys())
    out = []
    for b in basis:
        if b in user:
            out.append(3 + names.index(b))
        else:
            out.append("XYZ".index(b))
    return out, [cl(user[k]) for k in names]


def nontrivial(basis):
    return ("Y" in basis) and (basis != basis[::-1])


# ----------------------------------------------------------------------------- building the state of a spec
def build(spec):
    """Returns (nn_state, unitaries_arg, dict_numpy, psi_or_rho_numpy, explicit_tensor_or_None)."""
    import torch
    from qucumber.nn_states import ComplexWaveFunction, PositiveWaveFunction, DensityMatrix
    from qucumber.utils import unitaries as UU
    kind, n = spec["kind"], spec["n"]
    user = {k: np.array(v[0]) + 1j * np.array(v[1]) for k, v in spec["user"].items()}
    kw = {}
    for k, m in user.items():
        t = np.stack([m.real, m.imag])
        form = spec.get("user_form", "tensor")
        kw[k] = torch.tensor(t, dtype=torch.double) if form == "tensor" else (t.tolist() if form == "list" else t)
    d = UU.create_dict(**kw)
    route = spec.get("route", "ctor")
    if kind in ("positive",):
        route = "arg"
    ctor_dict = d if route == "ctor" else None
    if kind in ("complex", "psi"):
        s = ComplexWaveFunction(n, spec.get("nh", n), unitary_dict=ctor_dict, gpu=False)
    elif kind == "positive":
        s = PositiveWaveFunction(n, spec.get("nh", n), gpu=False)
    else:
        s = DensityMatrix(n, spec.get("nh", n), spec.get("na", n), unitary_dict=ctor_dict, gpu=False)
    p = spec.get("params")
    if p is not None:
        if kind == "positive":
            gen.set_brbm(s.rbm_am, *[np.array(x) for x in p["am"]])
        elif kind == "complex":
            gen.set_brbm(s.rbm_am, *[np.array(x) for x in p["am"]])
            gen.set_brbm(s.rbm_ph, *[np.array(x) for x in p["ph"]])
        elif kind == "dm":
            gen.set_prbm(s.rbm_am, *[np.array(x) for x in p["am"]])
            gen.set_prbm(s.rbm_ph, *[np.array(x) for x in p["ph"]])
    uarg = d if route == "arg" else None
    used = d if route == "arg" else s.unitary_dict
    dnp = {k: cnp(v) for k, v in used.items()}
    return s, uarg, dnp, user


def spec_desc(spec):
    return {"kind": spec["kind"], "n": spec["n"], "basis": spec["basis"], "user": sorted(spec["user"].keys()),
            "route": spec.get("route"), "form": spec.get("user_form"), "tag": spec.get("tag"),
            "nstates": len(spec["states"])}


# ----------------------------------------------------------------------------- one case
def check_spec(ctx, spec):
    """Run every observable of the property on one (state, dictionary, basis, batch)."""
    import torch
    from qucumber.utils import unitaries as UU
    m = ctx.get_model()
    kind, n, basis = spec["kind"], spec["n"], spec["basis"]
    case = spec
    s, uarg, dnp, user = build(spec)
    space = s.generate_hilbert_space(n)
    states = torch.tensor(spec["states"], dtype=torch.double)
    sidx = idx_of(spec["states"])
    full = space.clone()
    lets, userl = letters_for_model(basis, user)
    ctx.case(spec_desc(spec), nontrivial=nontrivial(basis))
    ctx.count("kind:" + kind); ctx.count("n:%d" % n)
    if "Y" in basis:
        ctx.count("basis_has_Y")
    if spec["user"]:
        ctx.count("user_unitaries")
    missing = [b for b in basis if b not in dnp]
    if missing:
        ctx.require("dictionary holds every letter of the basis", False, case, missing)
        return
    U = dense_U(basis, dnp)
    # the dictionary the functions use is the one handed in: defaults + user matrices (overriding)
    for b in set(basis):
        want = user[b] if b in user else REF[b]
        ctx.require("dictionary entry == default / user-supplied matrix", np.allclose(dnp[b], want, rtol=0, atol=1e-12), case,
                    {"letter": b, "got": cl(dnp[b]), "want": cl(want)})

    if kind in ("complex", "positive", "psi"):
        # ------------------------------------------------------------------ wavefunctions
        if kind == "psi":
            psi_np = np.array(spec["psi"][0]) + 1j * np.array(spec["psi"][1])
            psi_t = stack(psi_np)
            kwp = {"psi": psi_t}
        else:
            ok, psi0 = ctx.call("psi(space)", case, lambda: s.psi(space))
            if not ok:
                return
            psi_np = cnp(psi0)
            kwp = {}
            if not np.all(np.isfinite(psi_np)) or np.abs(psi_np).max() > 1e150:
                ctx.count("skipped_overflow")
                return
        l1 = float(np.abs(psi_np).sum())
        want = U @ psi_np
        # rotate_psi
        ok, out = ctx.call("rotate_psi", case, lambda: UU.rotate_psi(s, basis, space, unitaries=uarg, **kwp))
        if ok:
            got = cnp(out)
            ctx.require("rotate_psi == (U_0 (x) ... (x) U_{n-1}) psi", got.shape == want.shape and
                        np.allclose(got, want, rtol=1e-9, atol=1e-10 * l1), case,
                        {"got": cl(got), "want": cl(want)})
            r = m.call("c04_rotate_psi", userl, lets, cl(psi_np))
            ctx.agree_exact("rotate_psi size guard", True, len(r[0]) == 1, case)
            if len(r[0]) == 1:
                ctx.agree("rotate_psi vs model (index-level loops)", [got.real, got.imag],
                          [from_model_c(r[0][0]).real, from_model_c(r[0][0]).imag], case, scale=l1)
            ctx.agree("rotate_psi vs model (structural)", [got.real, got.imag],
                      [from_model_c(r[1]).real, from_model_c(r[1]).imag], case, scale=l1)
            tot = float((np.abs(got) ** 2).sum())
            if kind != "psi":
                ok2, Z = ctx.call("normalization", case, lambda: float(s.normalization(space)))
            else:
                ok2, Z = True, float((np.abs(psi_np) ** 2).sum())
            if ok2:
                ctx.require("rotated probabilities sum to the normalisation", math.isclose(tot, Z, rel_tol=1e-8), case,
                            {"sum": tot, "normalisation": Z})
        # rotate_psi_inner_prod on the batch
        ok, out = ctx.call("rotate_psi_inner_prod", case,
                           lambda: UU.rotate_psi_inner_prod(s, basis, states, unitaries=uarg, **kwp))
        if ok:
            got = cnp(out)
            ctx.require("rotate_psi_inner_prod == (U psi)[idx s]", got.shape == (len(sidx),) and
                        np.allclose(got, want[sidx], rtol=1e-9, atol=1e-10 * l1), case,
                        {"got": cl(got), "want": cl(want[sidx])})
            r = from_model_c(m.call("c04_inner_prod", userl, lets, cl(psi_np), spec["states"]))
            ctx.agree("rotate_psi_inner_prod vs model", [got.real, got.imag], [r.real, r.imag], case, scale=l1)
        # the full space, shuffled: probabilities non-negative by construction, must sum to the normalisation
        perm = np.array(spec.get("perm", list(range(2 ** n))))
        ok, out = ctx.call("rotate_psi_inner_prod(full space)", case,
                           lambda: UU.rotate_psi_inner_prod(s, basis, full[perm], unitaries=uarg, **kwp))
        if ok:
            got = cnp(out)
            ctx.require("rotate_psi_inner_prod over the whole space == U psi (permuted)",
                        np.allclose(got, want[perm], rtol=1e-9, atol=1e-10 * l1), case,
                        {"got": cl(got), "want": cl(want[perm])})
            tot = float((np.abs(got) ** 2).sum())
            ref = float((np.abs(psi_np) ** 2).sum())
            ctx.require("sum_s |<s|U psi>|^2 == sum |psi|^2", math.isclose(tot, ref, rel_tol=1e-8), case, {"sum": tot, "ref": ref})
        # include_extras: expansion states and per-term products
        ok, out = ctx.call("rotate_psi_inner_prod(include_extras)", case,
                           lambda: UU.rotate_psi_inner_prod(s, basis, states, unitaries=uarg, include_extras=True, **kwp))
        if ok:
            Upsi, Upsi_v, v = out
            ex = m.call("c04_expansions", userl, lets, spec["states"])
            vi = v.detach().cpu().numpy().round().astype(int)
            terms = cnp(Upsi_v)
            for b in range(len(sidx)):
                # the order of the expansion is not constrained by the property: compare as sets keyed by v
                mv = np.array([[int(x) for x in row] for row in ex[b][0]])
                oi, om = np.argsort(idx_of(vi[:, b, :]), kind="stable"), np.argsort(idx_of(mv), kind="stable")
                if ctx.agree_exact("expanded basis states v (as a set)", vi[oi, b, :].tolist(), mv[om].tolist(), case):
                    ut = from_model_c(ex[b][1])
                    tv = (ut * psi_np[idx_of(mv)])[om]
                    ctx.agree("terms Ut(v) psi(v)", [terms[oi, b].real, terms[oi, b].imag], [tv.real, tv.imag], case, scale=l1)
            ctx.require("extras: Upsi == sum of its terms", np.allclose(cnp(Upsi), terms.sum(0), rtol=1e-9, atol=1e-10 * l1), case)
    else:
        # ------------------------------------------------------------------ density matrices
        if kind == "rho":
            rho_np = np.array(spec["rho"][0]) + 1j * np.array(spec["rho"][1])
            kwr = {"rho": stack(rho_np)}
        else:
            ok, rho0 = ctx.call("rho(space, space)", case, lambda: s.rho(space, space))
            if not ok:
                return
            rho_np = cnp(rho0)
            kwr = {}
            if not np.all(np.isfinite(rho_np)) or np.abs(rho_np).max() > 1e150:
                ctx.count("skipped_overflow")
                return
        l1 = float(np.abs(rho_np).sum())
        want = U @ rho_np @ U.conj().T
        wd = np.real(np.diag(want))
        ok, out = ctx.call("rotate_rho", case, lambda: UU.rotate_rho(s, basis, space, unitaries=uarg, **kwr))
        if ok:
            got = cnp(out)
            ctx.require("rotate_rho == U rho U^dagger", got.shape == want.shape and
                        np.allclose(got, want, rtol=1e-9, atol=1e-10 * l1), case,
                        {"got": cl(got) if n <= 2 else "omitted", "maxdiff": float(np.abs(got - want).max()) if got.shape == want.shape else None})
            r = m.call("c04_rotate_rho", userl, lets, cl(rho_np))
            ctx.agree_exact("rotate_rho size guard", True, len(r[0]) == 1, case)
            if len(r[0]) == 1:
                mi = from_model_c(r[0][0])
                ctx.agree("rotate_rho vs model (index-level loops)", [got.real, got.imag], [mi.real, mi.imag], case, scale=l1)
            ms = from_model_c(r[1])
            ctx.agree("rotate_rho vs model (structural)", [got.real, got.imag], [ms.real, ms.imag], case, scale=l1)
        ok, out = ctx.call("rotate_rho_probs", case, lambda: UU.rotate_rho_probs(s, basis, states, unitaries=uarg, **kwr))
        if ok:
            got = out.detach().cpu().numpy()
            ctx.require("rotate_rho_probs == diag(U rho U^dagger)[idx s]", got.shape == (len(sidx),) and
                        np.allclose(got, wd[sidx], rtol=1e-9, atol=1e-10 * l1), case,
                        {"got": got.tolist(), "want": wd[sidx].tolist()})
            r = m.call("c04_rho_probs", userl, lets, cl(rho_np), spec["states"])
            ctx.agree("rotate_rho_probs vs model", got, r, case, scale=l1)
        perm = np.array(spec.get("perm", list(range(2 ** n))))
        ok, out = ctx.call("rotate_rho_probs(full space)", case,
                           lambda: UU.rotate_rho_probs(s, basis, full[perm], unitaries=uarg, **kwr))
        if ok:
            got = out.detach().cpu().numpy()
            ctx.require("rotate_rho_probs over the whole space == diag(U rho U^dagger) (permuted)",
                        np.allclose(got, wd[perm], rtol=1e-9, atol=1e-10 * l1), case,
                        {"got": got.tolist(), "want": wd[perm].tolist()})
            tr = float(np.real(np.trace(rho_np)))
            if kind == "dm":
                ok2, Z = ctx.call("normalization", case, lambda: float(s.normalization(space)))
                if ok2:
                    ctx.require("rotated probabilities sum to the normalisation", math.isclose(float(got.sum()), Z, rel_tol=1e-8,
                                abs_tol=1e-10 * l1), case, {"sum": float(got.sum()), "normalisation": Z})
            else:
                ctx.require("rotated probabilities sum to tr rho", math.isclose(float(got.sum()), tr, rel_tol=1e-8, abs_tol=1e-10 * l1),
                            case, {"sum": float(got.sum()), "trace": tr})
            if kind == "dm" or spec.get("tag") == "psd":
                ctx.require("rotated probabilities of a physical state are non-negative", bool(np.all(got >= -1e-12 * max(1.0, l1))), case,
                            {"min": float(got.min())})
        ok, out = ctx.call("rotate_rho_probs(include_extras)", case,
                           lambda: UU.rotate_rho_probs(s, basis, states, unitaries=uarg, include_extras=True, **kwr))
        if ok:
            P, P_v, v = out
            ex = m.call("c04_expansions", userl, lets, spec["states"])
            vi = v.detach().cpu().numpy().round().astype(int)
            terms = cnp(P_v)
            for b in range(min(2, len(sidx))):
                mv = np.array([[int(x) for x in row] for row in ex[b][0]])
                oi, om = np.argsort(idx_of(vi[:, b, :]), kind="stable"), np.argsort(idx_of(mv), kind="stable")
                if ctx.agree_exact("expanded basis states v (as a set)", vi[oi, b, :].tolist(), mv[om].tolist(), case):
                    ut = from_model_c(ex[b][1])
                    ii = idx_of(mv)
                    tv = (np.outer(ut, ut.conj()) * rho_np[np.ix_(ii, ii)])[np.ix_(om, om)]
                    ti = terms[:, :, b][np.ix_(oi, oi)]
                    ctx.agree("terms Ut(v) conj Ut(v') rho(v,v')", [ti.real, ti.imag], [tv.real, tv.imag], case, scale=l1)
    ctx.traces += 1


# ----------------------------------------------------------------------------- dictionary facts
def check_default_dict(ctx):
    import torch
    from qucumber.utils import unitaries as UU
    from qucumber.nn_states import ComplexWaveFunction, DensityMatrix
    m = ctx.get_model()
    case = {"call": "create_dict", "kwargs": {}}
    ctx.case({"call": "create_dict"}, nontrivial=True)
    ok, d = ctx.call("create_dict()", case, UU.create_dict)
    if not ok:
        return
    ctx.require("default dictionary has exactly the keys X, Y, Z", sorted(d.keys()) == ["X", "Y", "Z"], case, sorted(d.keys()))
    mm = m.call("c04_default_dict")
    for k, name in enumerate("XYZ"):
        if name not in d:
            continue
        u = cnp(d[name])
        ctx.require("dictionary entries are double (2,2,2) tensors", tuple(d[name].shape) == (2, 2, 2) and d[name].dtype == torch.double, case, name)
        mu = from_model_c(mm[k])
        ctx.agree("create_dict()[%s] vs model" % name, [u.real, u.imag], [mu.real, mu.imag], case)
        ctx.require("%s is unitary (U U^dagger = I)" % name, np.allclose(u @ u.conj().T, np.eye(2), rtol=0, atol=1e-12), case, cl(u))
        ctx.require("%s is unitary (U^dagger U = I)" % name, np.allclose(u.conj().T @ u, np.eye(2), rtol=0, atol=1e-12), case, cl(u))
        if name == "Z":
            ctx.require("Z is the identity", np.array_equal(u, np.eye(2)), case, cl(u))
        else:
            P = PAULI[name]
            for kk, lam in ((0, 1.0), (1, -1.0)):
                vec = u.conj().T[:, kk]          # U^dagger e_k
                ctx.require("row %d of %s is the bra of the %+d eigenvector of Pauli %s" % (kk, name, int(lam), name),
                            np.allclose(P @ vec, lam * vec, rtol=0, atol=1e-12) and math.isclose(float(np.linalg.norm(vec)), 1.0, abs_tol=1e-12),
                            case, {"row": cl(u[kk]), "P v": cl(P @ vec)})
    # fresh states carry the default dictionary
    for mk, nm in ((lambda: ComplexWaveFunction(2, 2, gpu=False), "ComplexWaveFunction"), (lambda: DensityMatrix(2, 2, 2, gpu=False), "DensityMatrix")):
        ok, st = ctx.call(nm + " construction", case, mk)
        if ok:
            same = sorted(st.unitary_dict.keys()) == ["X", "Y", "Z"] and all(
                np.allclose(cnp(st.unitary_dict[k]), REF[k], rtol=0, atol=1e-15) for k in "XYZ")
            ctx.require("fresh %s carries the default dictionary" % nm, same, case)
    # user-added matrices: added / overriding, cloned, double
    rng = ctx.rng
    a, b = rand_unitary(rng), rand_unitary(rng)
    ta = torch.tensor(np.stack([a.real, a.imag]), dtype=torch.float64)
    lb = np.stack([b.real, b.imag])
    if PROBE_LIST_FORM:
        lb = lb.tolist()
    case2 = {"call": "create_dict", "kwargs": {"A": cl(a), "Y": cl(b)}, "user_form": "list" if PROBE_LIST_FORM else "ndarray"}
    ctx.case({"call": "create_dict", "kw": ["A", "Y"]}, nontrivial=True)
    ok, d2 = ctx.call("create_dict(A=tensor, Y=array)", case2, lambda: UU.create_dict(A=ta, Y=lb))
    if ok:
        ctx.require("create_dict(**kw) adds the given operators and overrides defaults",
                    sorted(d2.keys()) == ["A", "X", "Y", "Z"] and np.allclose(cnp(d2["A"]), a, rtol=0, atol=0) and np.allclose(cnp(d2["Y"]), b, rtol=0, atol=1e-15)
                    and np.allclose(cnp(d2["X"]), REF["X"], rtol=0, atol=1e-15) and np.array_equal(cnp(d2["Z"]), np.eye(2)), case2)
        ctx.require("create_dict(**kw) yields double tensors that do not alias the arguments",
                    d2["A"].dtype == torch.double and d2["Y"].dtype == torch.double and d2["A"].data_ptr() != ta.data_ptr(), case2)
        lk = m.call("c04_lookup", [cl(a), cl(b)], [0, 4, 2, 3])          # X, Y:=user[1], Z, A:=user[0]
        for nm, mu in zip(["X", "Y", "Z", "A"], lk):
            u = cnp(d2[nm]); mu = from_model_c(mu)
            ctx.agree("create_dict(**kw)[%s] vs model lookup" % nm, [u.real, u.imag], [mu.real, mu.imag], case2)


def check_size_guard(ctx):
    """_kron_mult raises on incompatible sizes; the model returns None"""
    import torch
    from qucumber.utils import unitaries as UU
    from qucumber.nn_states import ComplexWaveFunction
    m = ctx.get_model()
    s = ComplexWaveFunction(2, 2, gpu=False)
    for n, basis in ((2, "XYZ"), (3, "XY"), (2, "X")):
        psi = ctx.rng.normal(size=2 ** n) + 1j * ctx.rng.normal(size=2 ** n)
        case = {"call": "rotate_psi", "basis": basis, "len_psi": 2 ** n}
        ctx.case(case, nontrivial=False)
        try:
            UU.rotate_psi(s, basis, None, psi=stack(psi))
            raised = None
        except Exception as e:
            raised = type(e).__name__
        r = m.call("c04_rotate_psi", [], ["XYZ".index(b) for b in basis], cl(psi))
        ctx.agree_exact("incompatible sizes are rejected", raised is not None, len(r[0]) == 0, case)
        ctx.require("incompatible sizes raise ValueError", raised == "ValueError", case, raised)


# ----------------------------------------------------------------------------- generators
def rand_states(ctx, n, full_ok=True):
    rng = ctx.rng
    N = 2 ** n
    k = int(rng.integers(1, 9))
    ii = rng.integers(0, N, size=k)
    if k >= 2 and rng.random() < 0.7:
        ii[int(rng.integers(1, k))] = ii[0]          # a repeat
    sp = gen.all_states(n)
    return sp[ii].tolist()


def rand_user(ctx, basis_len, override_ok=True):
    """pick 1-2 user letters (possibly overriding X or Y) and a basis string using them"""
    rng = ctx.rng
    k = int(rng.integers(1, 3))
    names = list(rng.choice(USER_NAMES, size=k, replace=False))
    if override_ok and rng.random() < 0.3:
        names[0] = str(rng.choice(["X", "Y"]))
    user = {}
    for nm in names:
        kindu = rng.random()
        if kindu < 0.15:
            u = np.array([[1, 1], [1, -1]], dtype=complex) / S2             # Hadamard
        elif kindu < 0.3:
            u = np.array([[1, 0], [0, 1j]], dtype=complex)                  # S-like
        else:
            u = rand_unitary(rng)
        user[str(nm)] = [u.real.tolist(), u.imag.tolist()]
    alphabet = ["X", "Y", "Z"] + [str(x) for x in names]
    while True:
        basis = "".join(rng.choice(alphabet, size=basis_len))
        if any(b in user for b in basis):
            break
    return user, basis


def make_params(ctx, kind, n, nh, na):
    if kind == "positive":
        return {"am": gen.plist(*gen.brbm_params(ctx, n, nh))}
    if kind == "complex":
        return {"am": gen.plist(*gen.brbm_params(ctx, n, nh)), "ph": gen.plist(*gen.brbm_params(ctx, n, nh))}
    if kind == "dm":
        return {"am": gen.plist(*gen.prbm_params(ctx, n, nh, na)), "ph": gen.plist(*gen.prbm_params(ctx, n, nh, na, phase=True))}
    return None


def rand_psi(ctx, n):
    rng = ctx.rng
    z = rng.normal(size=2 ** n) + 1j * rng.normal(size=2 ** n)
    if rng.random() < 0.3:
        z *= np.exp(rng.uniform(-3, 3, size=2 ** n))
    return [z.real.tolist(), z.imag.tolist()]


def rand_rho(ctx, n):
    rng = ctx.rng
    d = 2 ** n
    g = rng.normal(size=(d, d)) + 1j * rng.normal(size=(d, d))
    if rng.random() < 0.5:
        r, tag = g @ g.conj().T, "psd"
    else:
        r, tag = g + g.conj().T, "hermitian"
    return [r.real.tolist(), r.imag.tolist()], tag


def base_spec(ctx, kind, n, params_cache):
    rng = ctx.rng
    spec = {"kind": kind, "n": n, "user": {}, "route": str(rng.choice(["ctor", "arg"])), "user_form": str(rng.choice(USER_FORMS))}
    if kind in ("complex", "positive", "dm"):
        key = (kind, n)
        if key not in params_cache:
            nh = int(rng.integers(1, 4)); na = int(rng.integers(1, 4))
            params_cache[key] = (nh, na, make_params(ctx, kind, n, nh, na))
        spec["nh"], spec["na"], spec["params"] = params_cache[key]
    elif kind == "psi":
        spec["psi"] = rand_psi(ctx, n)
    else:
        spec["rho"], spec["tag"] = rand_rho(ctx, n)
    return spec


KINDS = ["complex", "positive", "psi", "dm", "rho"]


def run(ctx):
    rng = ctx.rng
    ctx.torch_seed()
    check_default_dict(ctx)
    check_size_guard(ctx)
    nmax = 4 if ctx.thorough else 3
    draws = 3 if ctx.thorough else 1
    # ---- all 3^n strings
    for d in range(draws):
        cache = {}
        for n in range(1, nmax + 1):
            for basis in gen.all_bases(n):
                for kind in KINDS:
                    spec = base_spec(ctx, kind, n, cache)
                    spec["basis"] = basis
                    spec["states"] = rand_states(ctx, n)
                    spec["perm"] = rng.permutation(2 ** n).tolist()
                    check_spec(ctx, spec)
    # ---- random longer strings
    longer = ([(4, 8), (5, 6), (6, 3)] if not ctx.thorough else [(5, 30), (6, 16)])
    for n, cnt in longer:
        cache = {}
        for c in range(cnt):
            for kind in (KINDS if (ctx.thorough or c < 2) else [str(rng.choice(KINDS))]):
                spec = base_spec(ctx, kind, n, cache)
                while True:
                    basis = "".join(rng.choice(list("XYZ"), size=n, p=[0.3, 0.4, 0.3]))
                    if nontrivial(basis) or rng.random() < 0.2:
                        break
                spec["basis"] = basis
                spec["states"] = rand_states(ctx, n)
                spec["perm"] = rng.permutation(2 ** n).tolist()
                check_spec(ctx, spec)
    # ---- user-added unitaries
    cnt = 150 if ctx.thorough else 30
    for c in range(cnt):
        n = int(rng.integers(1, 5 if ctx.thorough else 4)) if c % 8 else (5 if ctx.thorough else 4)
        kind = KINDS[c % len(KINDS)]
        spec = base_spec(ctx, kind, n, {})
        spec["user"], spec["basis"] = rand_user(ctx, n)
        spec["states"] = rand_states(ctx, n)
        spec["perm"] = rng.permutation(2 ** n).tolist()
        check_spec(ctx, spec)


def search(ctx, broken, budget_s):
    """Wider oracle sweep: every string n<=3 on explicit and model states, several batches."""
    t0 = time.time()
    n0 = len(ctx.failures)
    check_default_dict(ctx)
    if len(ctx.failures) > n0:
        return ctx.failures[n0]
    for rep in range(50):
        cache = {}
        for n in range(1, 4):
            for basis in gen.all_bases(n):
                for kind in KINDS:
                    spec = base_spec(ctx, kind, n, cache)
                    spec["basis"] = basis
                    spec["states"] = rand_states(ctx, n)
                    spec["perm"] = ctx.rng.permutation(2 ** n).tolist()
                    check_spec(ctx, spec)
                    if len(ctx.failures) > n0:
                        return ctx.failures[n0]
                    if time.time() - t0 > budget_s:
                        return None
    return None


def shrink(ctx, first):
    """Prefer the failing case with the fewest sites (cases are independent)."""
    best = first
    for f in ctx.failures:
        c = f.get("case", {})
        if isinstance(c, dict) and "n" in c and isinstance(best.get("case"), dict) and c["n"] < best["case"].get("n", 99):
            best = f
    return best


def replay(ctx, rec):
    f = rec.get("failing") or {}
    case = f.get("case", {})
    print("replay:", f.get("what"), {k: case.get(k) for k in ("kind", "n", "basis", "call")})
    if case.get("call") == "create_dict":
        check_default_dict(ctx)
    elif case.get("call") == "rotate_psi":
        check_size_guard(ctx)
    elif "kind" in case:
        check_spec(ctx, case)
